package main

// Independent reference implementation of MurmurHash3_x86_32 (Austin Appleby, public domain),
// written from the published algorithm: little-endian 4-byte blocks, tail of 1..3 bytes, length
// xor, fmix32 finaliser. It shares no code with /repo/util/murmur: it indexes instead of
// re-slicing, builds the tail with a loop instead of a fall-through switch and spells the
// rotations out by hand.

const (
	mC1 = 0xcc9e2d51
	mC2 = 0x1b873593
	mN  = 0xe6546b64
	mF1 = 0x85ebca6b
	mF2 = 0xc2b2ae35
)

func rotl(x uint32, r uint) uint32 { return (x << r) | (x >> (32 - r)) }
func rotr(x uint32, r uint) uint32 { return (x >> r) | (x << (32 - r)) }

func fmix32(h uint32) uint32 {
	h ^= h >> 16
	h *= mF1
	h ^= h >> 13
	h *= mF2
	h ^= h >> 16
	return h
}

func ref32(data []byte, seed uint32) uint32 {
	h := seed
	nblocks := len(data) / 4
	for b := 0; b < nblocks; b++ {
		var k uint32
		for j := 3; j >= 0; j-- { // little endian
			k = k<<8 | uint32(data[4*b+j])
		}
		k *= mC1
		k = rotl(k, 15)
		k *= mC2
		h ^= k
		h = rotl(h, 13)
		h = h*5 + mN
	}
	if rem := len(data) - 4*nblocks; rem > 0 {
		var k uint32
		for j := rem - 1; j >= 0; j-- {
			k = k<<8 | uint32(data[4*nblocks+j])
		}
		k *= mC1
		k = rotl(k, 15)
		k *= mC2
		h ^= k
	}
	h ^= uint32(len(data))
	return fmix32(h)
}

// inv32 is the multiplicative inverse of an odd number modulo 2^32 (Newton iteration).
func inv32(a uint32) uint32 {
	x := a // correct to 3 bits
	for i := 0; i < 5; i++ {
		x *= 2 - a*x
	}
	return x
}

var (
	invC1 = inv32(mC1)
	invC2 = inv32(mC2)
	invF1 = inv32(mF1)
	invF2 = inv32(mF2)
	inv5  = inv32(5)
)

func unfmix32(h uint32) uint32 {
	h ^= h >> 16
	h *= invF2
	h ^= (h >> 13) ^ (h >> 26)
	h *= invF1
	h ^= h >> 16
	return h
}

// keyWithHash returns the unique 4-byte key whose reference hash under `seed` is h: for a fixed
// length of four bytes every step of the function is a bijection on 32 bits. This lets a case
// address every key group of a configuration exactly, instead of hoping random keys hit it.
func keyWithHash(h, seed uint32) []byte {
	x := unfmix32(h) ^ 4
	x = (x - mN) * inv5
	x = rotr(x, 13)
	k := x ^ seed
	k *= invC2
	k = rotr(k, 15)
	k *= invC1
	return []byte{byte(k), byte(k >> 8), byte(k >> 16), byte(k >> 24)}
}
