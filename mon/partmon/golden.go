package main

import (
	_ "embed"
	"encoding/hex"
	"encoding/json"
	"fmt"
	"os"
)

// golden.json pins MurmurHash3_x86_32 "across releases": persisted state is addressed by the
// function, so its value on these inputs must never change. The table was generated ONCE from the
// reference implementation in murmur_ref.go (PARTMON_WRITE_GOLDEN=<path> partmon) and is committed;
// the "published" rows are test vectors that circulate with the original algorithm (SMHasher
// verification style vectors), which the reference itself has to reproduce.

//go:embed golden.json
var goldenJSON []byte

type goldenVec struct {
	Key  string `json:"key"`  // hex
	Seed uint32 `json:"seed"` //
	Hash uint32 `json:"hash"` //
	Src  string `json:"src"`  // "published" | "generated"
	Note string `json:"note,omitempty"`
}

type goldenFile struct {
	Function string      `json:"function"`
	Vectors  []goldenVec `json:"vectors"`
}

// published vectors (key as Go string, seed, hash).
var published = []struct {
	key  string
	seed uint32
	hash uint32
	note string
}{
	{"", 0, 0x00000000, "empty, seed 0"},
	{"", 1, 0x514E28B7, "empty, seed 1"},
	{"", 0xffffffff, 0x81F16F39, "empty, seed ffffffff"},
	{"\xff\xff\xff\xff", 0, 0x76293B50, "4 bytes ff (sign extension)"},
	{"\x21\x43\x65\x87", 0, 0xF55B516B, "one block, little endian"},
	{"\x21\x43\x65\x87", 0x5082EDEE, 0x2362F9DE, "one block, seeded"},
	{"\x21\x43\x65", 0, 0x7E4A8634, "tail of 3"},
	{"\x21\x43", 0, 0xA0F7B07A, "tail of 2"},
	{"\x21", 0, 0x72661CF4, "tail of 1"},
	{"\x00\x00\x00\x00", 0, 0x2362F9DE, "4 zero bytes"},
	{"\x00\x00\x00", 0, 0x85F0B427, "3 zero bytes"},
	{"\x00\x00", 0, 0x30F4C306, "2 zero bytes"},
	{"\x00", 0, 0x514E28B7, "1 zero byte"},
	{"aaaa", 0x9747b28c, 0x5A97808A, ""},
	{"aaa", 0x9747b28c, 0x283E0130, ""},
	{"aa", 0x9747b28c, 0x5D211726, ""},
	{"a", 0x9747b28c, 0x7FA09EA6, ""},
	{"abcd", 0x9747b28c, 0xF0478627, ""},
	{"abc", 0x9747b28c, 0xC84A62DD, ""},
	{"ab", 0x9747b28c, 0x74875592, ""},
	{"Hello, world!", 0x9747b28c, 0x24884CBA, ""},
	{"The quick brown fox jumps over the lazy dog", 0x9747b28c, 0x2FA826CD, ""},
	{"abc", 0, 0xB3DD93FA, ""},
	{"Hello, world!", 1234, 0xFAF6CDB3, ""},
	{"Hello, world!", 4321, 0xBF505788, ""},
}

func buildGolden() goldenFile {
	g := goldenFile{Function: "MurmurHash3_x86_32(key, seed) as uint32; KeyGroup(key) = hash(key, 0) mod keyGroupCount"}
	for _, p := range published {
		g.Vectors = append(g.Vectors, goldenVec{Key: hex.EncodeToString([]byte(p.key)), Seed: p.seed, Hash: ref32([]byte(p.key), p.seed), Src: "published", Note: p.note})
	}
	// generated: every length 0..64 (all tail lengths, 0..16 blocks) in four fillings, seed 0 (the
	// key-space seed) and seeds 1..3, 7 (bloom filter probes) and two large ones.
	fill := []struct {
		name string
		f    func(i, n int) byte
	}{
		{"ramp", func(i, n int) byte { return byte(i*7 + n) }},
		{"high", func(i, n int) byte { return byte(0x80 | (i*29+n)&0x7f) }},
		{"ff", func(i, n int) byte { return 0xff }},
		{"zero", func(i, n int) byte { return 0 }},
	}
	seeds := []uint32{0, 1, 2, 3, 7, 0x9747b28c, 0xffffffff}
	for n := 0; n <= 64; n++ {
		for fi, fl := range fill {
			key := make([]byte, n)
			for i := range key {
				key[i] = fl.f(i, n)
			}
			ss := []uint32{0, seeds[1+(n+fi)%(len(seeds)-1)]}
			for _, s := range ss {
				g.Vectors = append(g.Vectors, goldenVec{Key: hex.EncodeToString(key), Seed: s, Hash: ref32(key, s), Src: "generated", Note: fmt.Sprintf("len %d %s", n, fl.name)})
			}
		}
	}
	return g
}

// maybeWriteGolden regenerates the table when asked to (never during a check).
func maybeWriteGolden() {
	path := os.Getenv("PARTMON_WRITE_GOLDEN")
	if path == "" {
		return
	}
	for _, p := range published {
		if got := ref32([]byte(p.key), p.seed); got != p.hash {
			fmt.Fprintf(os.Stderr, "reference disagrees with published vector %q seed %#x: %#08x, published %#08x\n", p.key, p.seed, got, p.hash)
			os.Exit(3)
		}
	}
	// one vector per line: readable diffs
	g := buildGolden()
	var b []byte
	fn, _ := json.Marshal(g.Function)
	b = append(b, "{\n \"function\": "...)
	b = append(b, fn...)
	b = append(b, ",\n \"vectors\": [\n"...)
	for i, v := range g.Vectors {
		line, err := json.Marshal(v)
		if err != nil {
			panic(err)
		}
		b = append(b, "  "...)
		b = append(b, line...)
		if i+1 < len(g.Vectors) {
			b = append(b, ',')
		}
		b = append(b, '\n')
	}
	b = append(b, " ]\n}\n"...)
	if err := os.WriteFile(path, b, 0o644); err != nil {
		panic(err)
	}
	fmt.Fprintf(os.Stderr, "wrote %s\n", path)
	os.Exit(0)
}

func loadGolden() goldenFile {
	var g goldenFile
	if err := json.Unmarshal(goldenJSON, &g); err != nil {
		panic(fmt.Sprintf("golden.json: %v", err))
	}
	return g
}
