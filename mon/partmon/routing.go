package main

import (
	"bytes"
	"context"
	"encoding/binary"
	"fmt"
	"io"
	"log/slog"
	"math/rand"
	"reflect"
	"runtime"
	"sort"
	"sync"
	"time"
	"unsafe"

	"google.golang.org/protobuf/types/known/timestamppb"
	"reduction.dev/reduction-protocol/handlerpb"
	"reduction.dev/reduction-protocol/jobconfigpb"
	"reduction.dev/reduction/batching"
	"reduction.dev/reduction/connectors"
	"reduction.dev/reduction/dkv"
	"reduction.dev/reduction/dkv/recovery"
	"reduction.dev/reduction/dkv/storage"
	"reduction.dev/reduction/partitioning"
	"reduction.dev/reduction/proto"
	"reduction.dev/reduction/proto/jobpb"
	"reduction.dev/reduction/proto/snapshotpb"
	"reduction.dev/reduction/proto/workerpb"
	"reduction.dev/reduction/workers/operator"
	"reduction.dev/reduction/workers/sourcerunner"
	"verif/lib"
)

// watchdog: only ever ends a case as inconclusive.
const watchdog = 20 * time.Second

var quietLog = slog.New(slog.NewTextHandler(io.Discard, nil))

var fixedConfigs = [][2]int{{1, 1}, {7, 3}, {256, 1}, {256, 2}, {256, 3}, {256, 4}, {1000, 3}, {65535, 2}, {2, 3}}

func routingConfig(c *lib.Ctx) (groups, ops int) {
	if c.Index < len(fixedConfigs) {
		return fixedConfigs[c.Index][0], fixedConfigs[c.Index][1]
	}
	r := c.R
	groups = lib.Pick(r, []int{1, 2, 3, 5, 8, 16, 100, 255, 256, 257, 1000, 4096, 32768, 65535, 1 + r.Intn(65535), 1 + r.Intn(64)})
	switch r.Intn(6) {
	case 0:
		ops = min(groups+1+r.Intn(2), 9) // more operators than groups when groups is small
	case 1:
		ops = min(groups, 8)
	default:
		ops = 1 + r.Intn(6)
	}
	return groups, ops
}

// ---- recording stubs around a real SourceRunner

type nopJob struct{}

func (nopJob) RegisterSourceRunner(context.Context, *jobpb.NodeIdentity) error   { return nil }
func (nopJob) DeregisterSourceRunner(context.Context, *jobpb.NodeIdentity) error { return nil }
func (nopJob) RegisterOperator(context.Context, *jobpb.NodeIdentity) error       { return nil }
func (nopJob) DeregisterOperator(context.Context, *jobpb.NodeIdentity) error     { return nil }
func (nopJob) OperatorCheckpointComplete(context.Context, *snapshotpb.OperatorCheckpoint) error {
	return nil
}
func (nopJob) OnSourceRunnerCheckpointComplete(context.Context, *jobpb.SourceRunnerCheckpointCompleteRequest) error {
	return nil
}
func (nopJob) NotifySplitsFinished(context.Context, string, []string) error { return nil }

// identityKeyer: a source record is a list of 1..3 length-prefixed keys and the key-by function returns one
// keyed event per key of the record, in order (a handler may key one record by several keys; their key groups
// usually belong to different operators).
type identityKeyer struct{}

func encodeRecord(keys [][]byte) []byte {
	var b []byte
	for _, k := range keys {
		b = append(b, byte(len(k)>>8), byte(len(k)))
		b = append(b, k...)
	}
	return b
}

func decodeRecord(b []byte) [][]byte {
	var out [][]byte
	for len(b) >= 2 {
		n := int(b[0])<<8 | int(b[1])
		out = append(out, b[2:2+n])
		b = b[2+n:]
	}
	return out
}

func (identityKeyer) ProcessEventBatch(context.Context, *handlerpb.ProcessEventBatchRequest) (*handlerpb.ProcessEventBatchResponse, error) {
	return &handlerpb.ProcessEventBatchResponse{}, nil
}
func (identityKeyer) KeyEventBatch(_ context.Context, events [][]byte) ([][]*handlerpb.KeyedEvent, error) {
	out := make([][]*handlerpb.KeyedEvent, len(events))
	for i, e := range events {
		for _, k := range decodeRecord(e) {
			out[i] = append(out[i], &handlerpb.KeyedEvent{Key: k, Value: k, Timestamp: timestamppb.New(time.UnixMilli(1000))})
		}
	}
	return out, nil
}

type routeLog struct {
	mu   sync.Mutex
	got  map[string][]int // key -> operator indexes that received it
	n    int
	want int
	done chan struct{}
}

type opStub struct {
	proto.UnimplementedOperator
	idx int
	log *routeLog
}

func (o *opStub) ID() string   { return fmt.Sprintf("op-%d", o.idx) }
func (o *opStub) Host() string { return "stub" }
func (o *opStub) HandleEventBatch(_ context.Context, batch []*workerpb.Event) error {
	o.log.mu.Lock()
	defer o.log.mu.Unlock()
	for _, e := range batch {
		if ke, ok := e.Event.(*workerpb.Event_KeyedEvent); ok {
			k := string(ke.KeyedEvent.Key)
			o.log.got[k] = append(o.log.got[k], o.idx)
			o.log.n++
			if o.log.n == o.log.want {
				close(o.log.done)
			}
		}
	}
	return nil
}

type listReader struct {
	connectors.UnimplementedSourceReader
	chunks [][][]byte
}

func (l *listReader) AssignSplits([]*workerpb.SourceSplit) error { return nil }
func (l *listReader) ReadEvents() ([][]byte, error) {
	if len(l.chunks) == 0 {
		return nil, connectors.ErrEndOfInput
	}
	ch := l.chunks[0]
	l.chunks = l.chunks[1:]
	if len(l.chunks) == 0 {
		return ch, connectors.ErrEndOfInput
	}
	return ch, nil
}
func (l *listReader) Checkpoint() [][]byte { return nil }

// routeThroughRunner deploys a real SourceRunner over `ops` recording operator stubs, lets it read
// the keys and returns which stub(s) received each key.
func routeThroughRunner(c *lib.Ctx, groups, ops int, keys [][]byte) map[string][]int {
	r := c.R
	log := &routeLog{got: map[string][]int{}, want: len(keys), done: make(chan struct{})}
	stubs := make([]*opStub, ops)
	nodes := make([]*jobpb.NodeIdentity, ops)
	for i := range stubs {
		stubs[i] = &opStub{idx: i, log: log}
		nodes[i] = &jobpb.NodeIdentity{Id: stubs[i].ID(), Host: "stub"}
	}
	var records [][]byte
	for i := 0; i < len(keys); {
		m := min(1+r.Intn(3), len(keys)-i) // keys of one source record
		records = append(records, encodeRecord(keys[i:i+m]))
		i += m
	}
	var chunks [][][]byte
	for i := 0; i < len(records); {
		n := min(1+r.Intn(9), len(records)-i)
		chunks = append(chunks, records[i:i+n])
		i += n
	}
	// A third of the runners are deployed twice in place (a job restarted with another worker count finds the
	// surviving workers registered): first, idle, for an assembly of another size, then for the one under test.
	// Plain builds only: what an in-place redeploy leaves running is the subject of a known finding (DESIGN §12.5);
	// routing of records read after the second deploy must follow the ranges of the second deploy all the same.
	var prev []*opStub
	if !lib.RaceEnabled && r.Intn(3) == 0 {
		n0 := lib.Pick(r, []int{1, ops + 1, 2 * ops, max(1, ops-1), max(1, ops/2)})
		if n0 == ops {
			n0 = ops + 1
		}
		for i := 0; i < n0; i++ {
			prev = append(prev, &opStub{idx: 100000 + i, log: log})
		}
		c.Feat("runners_redeployed_in_place_with_other_operator_count", 1)
	}
	sr := sourcerunner.New(sourcerunner.NewParams{
		Host:        "runner",
		UserHandler: identityKeyer{},
		Job:         nopJob{},
		OperatorFactory: func(senderID string, node *jobpb.NodeIdentity) proto.Operator {
			for _, s := range stubs {
				if s.ID() == node.Id {
					return s
				}
			}
			for _, s := range prev {
				if s.ID() == node.Id {
					return s
				}
			}
			panic(harnessErr("unknown operator " + node.Id))
		},
		SourceReaderFactory: func(*jobconfigpb.Source) connectors.SourceReader { return &listReader{chunks: chunks} },
		// one event per batch, no delay: no timer decides anything
		EventBatching: batching.EventBatcherParams{MaxSize: 1},
	})
	sr.Logger = quietLog
	ctx, cancel := context.WithCancel(context.Background())
	defer cancel()
	stopped := make(chan error, 1)
	go func() { stopped <- sr.Start(ctx) }()
	if len(prev) > 0 {
		prevNodes := make([]*jobpb.NodeIdentity, len(prev))
		for i, s := range prev {
			prevNodes[i] = &jobpb.NodeIdentity{Id: s.ID(), Host: "stub"}
		}
		if err := sr.HandleDeploy(ctx, &workerpb.DeploySourceRunnerRequest{Operators: prevNodes, KeyGroupCount: int32(groups), Sources: []*jobconfigpb.Source{{}}}); err != nil {
			c.Fail("runner-deploy", map[string]any{"groups": groups, "operators": len(prev)}, "SourceRunner.HandleDeploy (earlier assembly): %v", err)
		}
	}
	if err := sr.HandleDeploy(ctx, &workerpb.DeploySourceRunnerRequest{Operators: nodes, KeyGroupCount: int32(groups), Sources: []*jobconfigpb.Source{{}}}); err != nil {
		c.Fail("runner-deploy", map[string]any{"groups": groups, "operators": ops}, "SourceRunner.HandleDeploy: %v", err)
	}
	if err := sr.HandleAssignSplits([]*workerpb.SourceSplit{{SplitId: "s0", SourceId: "src"}}); err != nil {
		c.Fail("runner-deploy", map[string]any{"groups": groups, "operators": ops}, "SourceRunner.HandleAssignSplits: %v", err)
	}
	if len(keys) > 0 {
		select {
		case <-log.done:
		case err := <-stopped:
			c.Inconclusive("source runner stopped before routing all keys: %v", err)
		case <-time.After(watchdog):
			log.mu.Lock()
			n := log.n
			log.mu.Unlock()
			c.Inconclusive("watchdog: %d of %d keys reached an operator stub", n, len(keys))
		}
	}
	sr.Stop()
	log.mu.Lock()
	defer log.mu.Unlock()
	out := make(map[string][]int, len(log.got))
	for k, v := range log.got {
		out[k] = append([]int{}, v...)
	}
	return out
}

type harnessErr string

// ---- ownership filter

// newPartition builds the OperatorPartition operator.go builds in HandleDeploy (no exported
// constructor exists; the range is its only input besides the neighbour stubs).
func newPartition(rng partitioning.KeyGroupRange) *operator.OperatorPartition {
	p := &operator.OperatorPartition{}
	f := reflect.ValueOf(p).Elem().FieldByName("keyGroupRange")
	if !f.IsValid() || f.Type() != reflect.TypeOf(rng) {
		lib.HarnessBug("operator.OperatorPartition has no field keyGroupRange of type KeyGroupRange any more")
	}
	reflect.NewAt(f.Type(), unsafe.Pointer(f.UnsafeAddr())).Elem().Set(reflect.ValueOf(rng))
	return p
}

// ---- persisted-key decoding (independent of the encoders under test)

type persisted struct {
	Group   int
	Schema  byte
	Subject []byte
	NS      string
	Entry   []byte
	TimeRaw uint64
	OK      bool
}

func decodePersisted(k []byte) persisted {
	var p persisted
	if len(k) < 3 {
		return p
	}
	p.Group = int(k[0])<<8 | int(k[1])
	p.Schema = k[2]
	switch p.Schema {
	case 0x00:
		if len(k) < 7 {
			return p
		}
		n := int(binary.BigEndian.Uint32(k[3:7]))
		if n < 0 || len(k) < 7+n+1 {
			return p
		}
		p.Subject = k[7 : 7+n]
		nl := int(k[7+n])
		if len(k) < 7+n+1+nl {
			return p
		}
		p.NS = string(k[7+n+1 : 7+n+1+nl])
		p.Entry = k[7+n+1+nl:]
		p.OK = true
	case 0x01:
		if len(k) < 11 {
			return p
		}
		p.TimeRaw = binary.BigEndian.Uint64(k[3:11])
		p.Subject = k[11:]
		p.OK = true
	}
	return p
}

func (p persisted) id() string {
	if p.Schema == 0 {
		return fmt.Sprintf("state %q ns=%q entry=%q", p.Subject, p.NS, p.Entry)
	}
	return fmt.Sprintf("timer %q", p.Subject) // the 8 time bytes are not part of the property
}

// ---- the case

type routeWitness struct {
	Groups    int      `json:"key_group_count"`
	Operators int      `json:"operator_count"`
	Ranges    []string `json:"ranges"`
	Key       string   `json:"subject_key,omitempty"`
	RefGroup  int      `json:"reference_group"`
	Steps     []string `json:"steps"`
}

func routingKeys(r *rand.Rand, groups int, rs []partitioning.KeyGroupRange) [][]byte {
	seen := map[string]bool{}
	var keys [][]byte
	add := func(k []byte) {
		if !seen[string(k)] {
			seen[string(k)] = true
			keys = append(keys, append([]byte{}, k...))
		}
	}
	n := 60 + r.Intn(141)
	add([]byte{})
	// both ends of (up to 8) ranges
	step := max(1, len(rs)/8)
	for i := 0; i < len(rs); i += step {
		if rs[i].End > rs[i].Start {
			for _, g := range []int{rs[i].Start, rs[i].End - 1} {
				mult := uint32(r.Intn(int((0xffffffff-uint32(g))/uint32(groups)) + 1))
				add(keyWithHash(uint32(g)+mult*uint32(groups), 0))
			}
		}
	}
	for tries := 0; len(keys) < n && tries < 10*n; tries++ {
		switch r.Intn(3) {
		case 0:
			add(lib.Key(r, 4))
		case 1:
			b := make([]byte, r.Intn(41))
			r.Read(b)
			add(b)
		default:
			add([]byte(fmt.Sprintf("user-%d", r.Intn(100000))))
		}
	}
	r.Shuffle(len(keys), func(i, j int) { keys[i], keys[j] = keys[j], keys[i] })
	return keys
}

func routingCase(c *lib.Ctx) {
	r := c.R
	groups, ops := routingConfig(c)
	ref := partitioning.NewKeySpace(groups, ops)
	rs := ref.KeyGroupRanges()
	if !checkRanges(c, groups, ops, rs) {
		return
	}
	var rstr []string
	for i, x := range rs {
		if i < 12 {
			rstr = append(rstr, fmt.Sprintf("#%d=[%d,%d)", i, x.Start, x.End))
		}
	}
	keys := routingKeys(r, groups, rs)
	wit := func(key []byte, steps ...string) routeWitness {
		return routeWitness{Groups: groups, Operators: ops, Ranges: rstr, Key: lib.Q(key), RefGroup: int(ref32(key, 0) % uint32(groups)), Steps: steps}
	}
	c.OnPanic = func() any { return wit(nil, "panic while running the case") }

	// (a) router
	routed := routeThroughRunner(c, groups, ops, keys)
	owner := map[string]int{}
	received := map[int]int{}
	for _, k := range keys {
		g := int(ref32(k, 0) % uint32(groups))
		want := rangeOf(rs, g)
		got := routed[string(k)]
		step := fmt.Sprintf("SourceRunner(keyGroupCount=%d, %d operators) reads record %q keyed by itself", groups, ops, k)
		if len(got) != 1 {
			c.Violate("route-count", wit(k, step), "key delivered to operators %v, want exactly one (#%d)", got, want)
			continue
		}
		if got[0] != want {
			c.Violate("route-wrong-operator", wit(k, step), "router delivered the key to operator #%d; its group %d lies in range #%d=[%d,%d)", got[0], g, want, rs[want].Start, rs[want].End)
		}
		if ri := ref.RangeIndex(k); ri != want {
			c.Violate("rangeindex", wit(k, fmt.Sprintf("NewKeySpace(%d,%d).RangeIndex(%q)", groups, ops, k)), "RangeIndex = %d, want %d", ri, want)
		}
		owner[string(k)] = got[0]
		received[got[0]]++
		c.Feat("keys_routed", 1)
		if g == rs[want].Start || g == rs[want].End-1 {
			c.Feat("keys_on_range_boundary", 1)
		}
	}

	if c.Violated() {
		return // the persisting side below writes every key through the operator it was routed to
	}

	// (b) persisting side: every operator has its own key space object, as in HandleDeploy
	parts := make([]*operator.OperatorPartition, ops)
	for i := range parts {
		parts[i] = newPartition(rs[i])
	}
	memSize := uint64(lib.Pick(r, []int{300, 2000, 1 << 20, 1 << 20}))
	var pinned []any
	defer func() { runtime.KeepAlive(pinned) }()
	for i := 0; i < ops; i++ {
		ks := partitioning.NewKeySpace(groups, ops)
		rng := ks.KeyGroupRanges()[i]
		fs := storage.NewMemoryFilesystem()
		opts := dkv.DBOptions{FileSystem: fs, Logger: quietLog, MemTableSize: memSize, DataOwnership: parts[i]}
		db := dkv.Open(opts, nil)
		pinned = append(pinned, db)
		store := operator.NewKeyedStateStore(db, ks)
		var steps []string
		steps = append(steps, fmt.Sprintf("operator #%d of %d, range [%d,%d): dkv.Open(memtable %d B); NewKeyedStateStore; NewTimerStore(range, cache %d B)", i, ops, rng.Start, rng.End, memSize, 1<<20))
		c.OnPanic = func() any { return wit(nil, steps...) }
		timers := operator.NewTimerStore(db, ks, rng, 1<<20)
		if rng.End == rng.Start {
			c.Feat("empty_range_operators_constructed", 1)
		}
		written := map[string]bool{}
		timersPut := map[string]int{}         // subject -> timers put (distinct times)
		entriesOf := map[string][][2]string{} // subject -> (ns, entry) written
		for j, k := range keys {
			if o, ok := owner[string(k)]; !ok || o != i {
				continue
			}
			ns := lib.Pick(r, []string{"", "n", "counts", "n\x00x"})
			entry := []byte(fmt.Sprintf("e%d", j))
			if r.Intn(5) == 0 {
				entry = []byte{}
			}
			val := []byte(fmt.Sprintf("v-%d-%d", i, j))
			steps = append(steps, fmt.Sprintf("ApplyMutations(%q, put ns=%q entry=%q value=%q)", k, ns, entry, val))
			if err := store.ApplyMutations(k, []*handlerpb.StateMutationNamespace{{Namespace: ns, Mutations: []*handlerpb.StateMutation{{Mutation: &handlerpb.StateMutation_Put{Put: &handlerpb.PutMutation{Key: entry, Value: val}}}}}}); err != nil {
				c.Fail("state-error", wit(k, steps...), "ApplyMutations: %v", err)
			}
			written[persisted{Schema: 0, Subject: k, NS: ns, Entry: entry}.id()] = true
			entriesOf[string(k)] = append(entriesOf[string(k)], [2]string{ns, string(entry)})
			tms := int64(1_000_000 + r.Intn(1000)*1000 + j)
			steps = append(steps, fmt.Sprintf("TimerStore.Put(%q, %d ms)", k, tms))
			timers.Put(k, time.UnixMilli(tms))
			timersPut[string(k)]++
			written[persisted{Schema: 1, Subject: k}.id()] = true
			c.Feat("entries_written", 2)
		}
		if len(steps) > 40 {
			steps = append(steps[:1], append([]string{fmt.Sprintf("... %d writes ...", len(steps)-21)}, steps[len(steps)-20:]...)...)
		}
		// read back through the store (uses encodeSubjectKey)
		for _, k := range keys {
			if o, ok := owner[string(k)]; !ok || o != i {
				continue
			}
			st, err := store.GetState(k)
			if err != nil {
				c.Fail("state-error", wit(k, steps...), "GetState: %v", err)
			}
			var got [][2]string
			for _, nsp := range st {
				for _, e := range nsp.Entries {
					got = append(got, [2]string{nsp.Namespace, string(e.Key)})
				}
			}
			want := append([][2]string{}, entriesOf[string(k)]...)
			less := func(s [][2]string) func(a, b int) bool {
				return func(a, b int) bool { return s[a][0]+"\x00"+s[a][1] < s[b][0]+"\x00"+s[b][1] }
			}
			sort.Slice(got, less(got))
			sort.Slice(want, less(want))
			if fmt.Sprintf("%q", got) != fmt.Sprintf("%q", want) {
				c.Violate("state-readback", wit(k, append(steps, fmt.Sprintf("GetState(%q)", k))...), "GetState returned (ns,entry) %q, written %q", got, want)
			}
		}
		// every key this operator persisted: live database, then its checkpointed copy
		scanAll := func(d *dkv.DB, what string) (out [][]byte) {
			var err error
			for e := range d.ScanPrefix(nil, &err) {
				out = append(out, append([]byte{}, e.Key()...))
			}
			if err != nil {
				c.Fail("state-error", wit(nil, append(steps, what)...), "ScanPrefix(nil): %v", err)
			}
			return out
		}
		live := scanAll(db, "scan of the live database")
		h, err := db.Checkpoint(1)()
		if err != nil {
			c.Fail("state-error", wit(nil, append(steps, "Checkpoint(1)")...), "Checkpoint: %v", err)
		}
		if _, err := lib.WaitDB(db, 20*time.Second); err != nil {
			c.Fail("state-error", wit(nil, append(steps, "WaitOnTasks")...), "WaitOnTasks: %v", err)
		}
		reopened := dkv.Open(opts, []recovery.CheckpointHandle{h})
		pinned = append(pinned, reopened)
		fromCkpt := scanAll(reopened, "scan of the database re-opened from checkpoint 1 with the same ownership")
		if len(fromCkpt) != len(live) {
			c.Violate("persist-lost", wit(nil, append(steps, "Checkpoint(1); dkv.Open(checkpoint 1, ownership = this operator's partition); ScanPrefix(nil)")...), "%d keys in the live database, %d after re-opening its checkpoint with the operator's own partition as ownership filter", len(live), len(fromCkpt))
		}
		// the owner finds what is stored under its groups: the timer store a deploy from the checkpoint builds
		// over the re-opened database yields exactly the timers written through this operator, in time order
		if rng.End > rng.Start {
			wantT, wantN := map[string]int{}, 0
			for k, n := range timersPut {
				wantT[k] = n
				wantN += n
			}
			rt := operator.NewTimerStore(reopened, ks, rng, uint64(lib.Pick(r, []int{1, 64, 1 << 20})))
			var last time.Time
			gotN := 0
			for {
				tm, ok := rt.Pop()
				if !ok {
					break
				}
				gotN++
				if wantT[string(tm.Key)]--; wantT[string(tm.Key)] < 0 {
					c.Violate("timer-readback", wit(tm.Key, append(steps, "Checkpoint(1); re-open; NewTimerStore(range); Pop")...), "the timer store of operator #%d (range [%d,%d)) over its re-opened checkpoint pops a timer for %q at %v that was not written through this operator", i, rng.Start, rng.End, tm.Key, tm.Timestamp)
				}
				if tm.Timestamp.Before(last) {
					c.Violate("timer-readback", wit(tm.Key, append(steps, "Checkpoint(1); re-open; NewTimerStore(range); Pop")...), "timers pop out of time order: %v after %v", tm.Timestamp, last)
				}
				last = tm.Timestamp
			}
			if gotN != wantN {
				c.Violate("timer-readback", wit(nil, append(steps, "Checkpoint(1); re-open; NewTimerStore(range); Pop until empty")...), "operator #%d (range [%d,%d)) wrote %d timers under its key groups; the timer store built over its re-opened checkpoint finds %d of them", i, rng.Start, rng.End, wantN, gotN)
			}
			c.Feat("timers_read_back_after_reopen", int64(gotN))
		}
		// (Opening the checkpoint under ANOTHER operator's partition is deliberately not judged here:
		// dkv filters only the WAL replay through OwnsKey, table files keep foreign keys until a
		// compaction; whether that is acceptable is C06's question, not C05's.)
		seenIDs := map[string]bool{}
		for _, pk := range live {
			p := decodePersisted(pk)
			pw := func(extra string) routeWitness {
				return wit(p.Subject, append(steps, "ScanPrefix(nil) -> persisted key "+fmt.Sprintf("%x", pk), extra)...)
			}
			if !p.OK {
				c.Violate("persist-undecodable", pw(""), "persisted key %x is neither <group><00><len><subject><nslen><ns><entry> nor <group><01><time><subject>", pk)
				continue
			}
			g := int(ref32(p.Subject, 0) % uint32(groups))
			if p.Group != g {
				c.Violate("persist-prefix", pw(""), "%s is stored under group prefix %d (bytes %x), reference murmur3_32(subject,0) mod %d = %d", p.id(), p.Group, pk[:2], groups, g)
			}
			if p.Group < rng.Start || p.Group >= rng.End {
				c.Violate("persist-outside-range", pw(""), "%s stored by operator #%d under group %d outside its range [%d,%d)", p.id(), i, p.Group, rng.Start, rng.End)
			}
			if !written[p.id()] {
				c.Violate("persist-unknown", pw(""), "%s was never written through operator #%d", p.id(), i)
			}
			seenIDs[p.id()] = true
			for j := range parts {
				if owns := parts[j].OwnsKey(pk); owns != (j == i) {
					c.Violate("ownership", pw(fmt.Sprintf("OperatorPartition{[%d,%d)}.OwnsKey(%x)", rs[j].Start, rs[j].End, pk)), "operator #%d OwnsKey = %v for a key persisted by operator #%d (group %d)", j, owns, i, p.Group)
				}
			}
			c.Feat("persisted_keys_checked", 1)
		}
		for id := range written {
			if !seenIDs[id] {
				c.Violate("persist-lost", wit(nil, append(steps, "ScanPrefix(nil)")...), "%s was written through operator #%d but is not among its %d persisted keys", id, i, len(live))
			}
		}
		if !bytes.Equal(bytes.Join(live, nil), bytes.Join(fromCkpt, nil)) && len(live) == len(fromCkpt) {
			c.Violate("persist-lost", wit(nil, append(steps, "Checkpoint(1); re-open; ScanPrefix(nil)")...), "keys of the re-opened checkpoint differ from the live database")
		}
	}
	c.OnPanic = func() any { return wit(nil, "deploy outcome of real operators") }

	// (c) what a real Operator does with this configuration at deploy (recorded, and a panic is a violation)
	if c.Index < len(fixedConfigs) || r.Intn(4) == 0 {
		deployOperators(c, groups, ops, rs)
	}

	c.Feat("operators", int64(ops))
	if ops > groups {
		c.Feat("configs_operators_gt_groups", 1)
	}
	c.SetSig(len(received) >= 2, groups, ops, fmt.Sprintf("%x", keys))
	if c.Index < 3 || c.Index == len(fixedConfigs)-1 {
		var ks []string
		for _, k := range keys[:min(6, len(keys))] {
			ks = append(ks, fmt.Sprintf("%q->group %d->op #%d", k, ref32(k, 0)%uint32(groups), owner[string(k)]))
		}
		c.Sample(map[string]any{"key_group_count": groups, "operators": ops, "ranges": rstr, "keys": len(keys), "first_keys": ks, "received_per_operator": fmt.Sprint(received)})
	}
}

type nopSink struct{}

func (nopSink) Write([]byte) error { return nil }

// deployOperators runs operator.HandleDeploy (the production site that picks
// KeyGroupRanges()[ownIndex] and builds partition, state store and timer store) for every
// operator of the configuration, including operators whose range is empty.
func deployOperators(c *lib.Ctx, groups, ops int, rs []partitioning.KeyGroupRange) {
	nodes := make([]*jobpb.NodeIdentity, ops)
	for i := range nodes {
		nodes[i] = &jobpb.NodeIdentity{Id: fmt.Sprintf("op-%d", i), Host: "stub"}
	}
	for i := 0; i < ops; i++ {
		step := fmt.Sprintf("operator.NewOperator(ID op-%d).HandleDeploy(KeyGroupCount=%d, %d operators, no checkpoints): own range [%d,%d)", i, groups, ops, rs[i].Start, rs[i].End)
		c.OnPanic = func() any {
			return routeWitness{Groups: groups, Operators: ops, Steps: []string{step}}
		}
		op := operator.NewOperator(operator.NewOperatorParams{
			ID: nodes[i].Id, Host: "stub", Job: nopJob{}, UserHandler: identityKeyer{},
			NeighborOperatorFactory: func(senderID string, node *jobpb.NodeIdentity) proto.Operator {
				return &opStub{idx: -1, log: &routeLog{got: map[string][]int{}, done: make(chan struct{})}}
			},
		})
		op.Logger = quietLog
		err := op.HandleDeploy(context.Background(), &workerpb.DeployOperatorRequest{
			Operators: nodes, SourceRunnerIds: []string{"sr-0"}, KeyGroupCount: int32(groups),
			StorageLocation: fmt.Sprintf("memory:///part-%d-%d", c.Index, i),
		}, nil)
		if err != nil {
			c.Violate("operator-deploy", routeWitness{Groups: groups, Operators: ops, Steps: []string{step}}, "HandleDeploy: %v", err)
		}
		c.Feat("operators_deployed", 1)
		if rs[i].End == rs[i].Start {
			c.Feat("empty_range_operators_deployed", 1)
		}
	}
}
