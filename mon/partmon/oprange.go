package main

import (
	"fmt"
	"path/filepath"

	"reduction.dev/reduction/partitioning"
	"reduction.dev/reduction/proto/snapshotpb"
	"verif/lib"
	"verif/ophar"
)

// C05 part "operator-range": the range a real operator claims for itself. Source runners route by the position
// of an operator in the assembly's operator list; the operator derives its own key-group range from the same
// list in HandleDeploy and reports it with every checkpoint (the job uses that range to hand state to the next
// assembly). The claimed range must be the range of the operator's CURRENT position — also when the same
// operator object is deployed again, idle, at another position of an assembly of the same size (the job
// re-forms the assembly from whoever is registered).
func operatorRangeCase(c *lib.Ctx) {
	r := c.R
	groups := lib.Pick(r, []int{2, 7, 16, 256, 1000, 4096})
	n := 2 + r.Intn(5)
	senders := []string{"sr0", "sr1"}[:1+r.Intn(2)]
	h := ophar.NewHandler("op-x")
	job := &ophar.JobRec{Handler: func(string) *ophar.Handler { return h }}
	node := ophar.StartNode(ophar.NodeParams{ID: "op-x", Job: job, Handler: h, MaxSize: 1})
	defer node.Kill()
	location := filepath.Join(c.Dir, "store")
	var ckpts []*snapshotpb.OperatorCheckpoint
	var steps []string
	rounds := 2 + r.Intn(3)
	for round := 0; round < rounds; round++ {
		idx := r.Intn(n)
		ids := make([]string, n)
		for i := range ids {
			ids[i] = fmt.Sprintf("op-%c%d", 'a'+round, i)
		}
		ids[idx] = "op-x"
		steps = append(steps, fmt.Sprintf("HandleDeploy #%d: %d key groups, operators %v (own position %d), checkpoints %v", round+1, groups, ids, idx, len(ckpts)))
		wit := map[string]any{"key_groups": groups, "steps": steps}
		if err := node.Deploy(ids, senders, groups, location, ckpts); err != nil {
			c.Fail("deploy-error", wit, "HandleDeploy: %v", err)
		}
		want := partitioning.NewKeySpace(groups, n).KeyGroupRanges()[idx]
		// a key of the range (if it has any) reaches the handler, then a checkpoint: the acknowledgement names the range
		id := uint64(round + 1)
		for _, s := range senders {
			if err := node.Send(s, ophar.BarrierEvent(id)); err != nil {
				c.Fail("handle-event-error", wit, "barrier %d from %s: %v", id, s, err)
			}
		}
		acks := job.Acks()
		if len(acks) == 0 || acks[len(acks)-1].CheckpointID != id {
			c.Fail("checkpoint-not-acknowledged", wit, "no acknowledgement for checkpoint %d", id)
		}
		a := acks[len(acks)-1]
		if a.Start != int(want.Start) || a.End != int(want.End) {
			c.Fail("operator-claims-wrong-range", wit, "deployed at position %d of %d operators with %d key groups the operator reports key-group range [%d,%d) with checkpoint %d; the runners route [%d,%d) to that position", idx, n, groups, a.Start, a.End, id, want.Start, want.End)
		}
		ckpts = []*snapshotpb.OperatorCheckpoint{{CheckpointId: a.CheckpointID, OperatorId: a.OperatorID, DkvFileUri: a.URI,
			KeyGroupRange: &snapshotpb.KeyGroupRange{Start: int32(a.Start), End: int32(a.End)}}}
		lib.DKVIdle(ophar.Watchdog)
		c.Feat("deploys_checked", 1)
		if round > 0 {
			c.Feat("in_place_redeploys_checked", 1)
		}
	}
	c.SetSig(true, groups, n, steps)
	if c.Index < 2 {
		c.Sample(map[string]any{"steps": steps})
	}
}
