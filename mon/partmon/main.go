// partmon — C05 (configuration part): key-group ranges, the key-to-group hash and the agreement of
// the three call sites that use them (router, ownership filter, key encoder). DESIGN §6 C05.
package main

import (
	"encoding/hex"
	"fmt"
	"io"
	"log/slog"
	"math/rand"
	"sort"

	"reduction.dev/reduction/partitioning"
	"reduction.dev/reduction/util/murmur"
	"verif/lib"
)

const level = "exploration"

var assume = []string{
	"reference hash = MurmurHash3_x86_32 written from the published algorithm (murmur_ref.go); it reproduces 25 published test vectors and is pinned by mon/partmon/golden.json",
	"key groups of a configuration are addressed exactly through 4-byte keys obtained by inverting the reference hash (a bijection for fixed length 4)",
}

func main() {
	maybeWriteGolden()
	slog.SetDefault(slog.New(slog.NewTextHandler(io.Discard, nil)))
	selfCheck()
	lib.Main(
		&lib.Prop{ID: "C05", Part: "ranges", Level: level, NCases: rangesN, Run: rangesCase, Assumptions: assume,
			Rule: "one case = one key-group count n with up to 9 operator counts {1,2,3,7,n-1,n,n+1, random<=2n, random<=70000}. quick: n = 1..4096, then 45 special counts (65535, 65534, 32767..32769, primes, powers of two +-1), then 1000 seeded random n in 4097..65535; thorough: EVERY n in 1..65535 (exhaustive over the group-count axis) followed by the quick specials. Oracle: KeyGroupRanges() has one range per operator, starts at 0, each range starts where the previous ends, ends at n, sizes differ by at most one; for every key group g (all of them when n<=4096, else both ends of <=64 ranges + 512 random groups) a 4-byte key with reference hash = g (mod n) must give KeyGroup==g and RangeIndex== the index of the one range containing g. non-trivial = some operator count does not divide n; distinct by (n, operator counts)"},
		&lib.Prop{ID: "C05", Part: "murmur", Level: level, NCases: lib1(400, 20000), Run: murmurCase, Assumptions: assume,
			Rule: "case 0 replays the committed golden table (545 vectors: 25 published, 520 generated for lengths 0..64 x 4 fillings x 2 seeds) against util/murmur. Every other case: for every length 0..64 four byte strings (random, all bytes >=0x80, prefix-related M1 atoms, one random byte repeated) hashed under seeds {0, 1..7 (bloom probes), 0x9747b28c, 0xffffffff, random} by util/murmur and by the reference; then KeySpace.KeyGroup(key) == reference(key, seed 0) mod n for 3 group counts per key (random, 65535, small). distinct by the hash of the generated strings"},
		&lib.Prop{ID: "C05", Part: "operator-range", Level: level, NCases: lib1(60, 3000), Run: operatorRangeCase, Assumptions: assume,
			Rule: "a real operator.Operator is deployed 2..4 times (the same object, idle in between, restored from its last checkpoint) at seeded positions of assemblies of 2..6 operators with {2,7,16,256,1000,4096} key groups; the key-group range it reports with its next checkpoint must be KeySpace.KeyGroupRanges()[position] of the deployment in force; non-trivial = always; distinct by (groups, operators, positions)"},
		&lib.Prop{ID: "C05", Part: "routing", Level: level, NCases: lib1(120, 4000), Run: routingCase, Assumptions: append([]string{
			"no cluster: the router is a real sourcerunner.SourceRunner deployed against recording proto.Operator stubs (its routeEvent picks the batcher), the persisting side is a real KeyedStateStore + TimerStore over a real dkv.DB per operator, the ownership filter is OperatorPartition.OwnsKey",
			"OperatorPartition has no exported constructor: its key-group range is set through reflection (field keyGroupRange); operator.go builds it from KeySpace.KeyGroupRanges()[ownIndex], which the monitor does too",
		}, assume...),
			Rule: "configurations (groups, operators): (1,1) (7,3) (256,1..4) (1000,3) (65535,2) (2,3) then seeded random ones incl. operators > groups; 60..200 subject keys per case: M1 atoms, random bytes, and keys engineered (hash inversion) to sit on the first and last group of every range. Each key is (a) emitted by a source reader into a real SourceRunner, the operator stub that receives it is the routed index; (b) written as state entry + timer through the stores of THAT operator; then every key persisted in each operator's DKV (full scan of the database and of its checkpointed copy) is decoded. Oracle: routed index == index of the range containing reference_hash(key) mod groups == KeySpace.RangeIndex; a third of the runners (plain builds) are first deployed, idle, for an assembly with another operator count and then in place for the one under test; the timer store built over each operator's re-opened checkpoint pops exactly the timers written through that operator, in time order; every persisted key starts with that group big-endian, decodes to a written (subject key, entry) and nothing written is missing; OwnsKey is true for the owner and false for every other operator; GetState returns the entries. Operators with an empty range must construct and stay empty. non-trivial = >=2 operators received keys; distinct by configuration + key set"},
	)
}

func lib1(q, t int) func(string) int {
	return func(tier string) int {
		if tier == "thorough" {
			return t
		}
		return q
	}
}

// selfCheck validates the harness's own arithmetic before any verdict is produced.
func selfCheck() {
	for _, p := range published {
		if got := ref32([]byte(p.key), p.seed); got != p.hash {
			lib.HarnessBug("reference murmur disagrees with published vector %q seed %#x: %#08x want %#08x", p.key, p.seed, got, p.hash)
		}
	}
	r := rand.New(rand.NewSource(7))
	for i := 0; i < 2000; i++ {
		h, s := r.Uint32(), r.Uint32()
		if i%2 == 0 {
			s = 0
		}
		if k := keyWithHash(h, s); ref32(k, s) != h {
			lib.HarnessBug("keyWithHash(%#x,%#x) = %x hashes to %#x", h, s, k, ref32(k, s))
		}
	}
	g := loadGolden()
	if len(g.Vectors) < 500 {
		lib.HarnessBug("golden.json has only %d vectors", len(g.Vectors))
	}
	for _, v := range g.Vectors {
		k, err := hex.DecodeString(v.Key)
		if err != nil {
			lib.HarnessBug("golden.json key %q: %v", v.Key, err)
		}
		if got := ref32(k, v.Seed); got != v.Hash {
			lib.HarnessBug("golden.json disagrees with the reference it was generated from: key %s seed %d: table %d, reference %d", v.Key, v.Seed, v.Hash, got)
		}
	}
}

// ---------------------------------------------------------------- ranges

var specialCounts = func() []int {
	s := []int{65535, 65534, 32767, 32768, 32769, 4097, 4099, 5000, 8191, 8192, 8193, 10007, 16381, 16384, 16385, 20011, 30011, 40009, 49999, 50000, 60013, 65521, 65519, 65533, 65532, 65531, 9973, 12289, 24593, 49157, 6151, 7919, 65000, 64000, 48611, 33333, 44444, 55555, 61441, 57331, 4111, 4127, 4999, 32771, 32749}
	return s
}()

func rangesN(tier string) int {
	if tier == "thorough" {
		return 65535 + len(specialCounts)
	}
	return 4096 + len(specialCounts) + 1000
}

// rangesCount maps a case index to its key-group count.
func rangesCount(c *lib.Ctx) (n int, exhaustiveAxis bool) {
	if c.Tier == "thorough" {
		if c.Index < 65535 {
			return c.Index + 1, true
		}
		return specialCounts[c.Index-65535], true
	}
	switch {
	case c.Index < 4096:
		return c.Index + 1, false
	case c.Index < 4096+len(specialCounts):
		return specialCounts[c.Index-4096], false
	default:
		return 4097 + c.R.Intn(65535-4097+1), false
	}
}

func opCounts(r *rand.Rand, n int) []int {
	cand := []int{1, 2, 3, 7, n - 1, n, n + 1, 1 + r.Intn(2*n), 1 + r.Intn(70000)}
	seen := map[int]bool{}
	var out []int
	for _, m := range cand {
		if m >= 1 && !seen[m] {
			seen[m] = true
			out = append(out, m)
		}
	}
	return out
}

type rangeWitness struct {
	Groups    int      `json:"key_group_count"`
	Operators int      `json:"operator_count"`
	Call      string   `json:"call"`
	Ranges    []string `json:"ranges,omitempty"` // a window of KeyGroupRanges() around the fault
	Key       string   `json:"key,omitempty"`
}

func windowOf(rs []partitioning.KeyGroupRange, at int) []string {
	var out []string
	for i := max(0, at-2); i < min(len(rs), at+3); i++ {
		out = append(out, fmt.Sprintf("#%d=[%d,%d)", i, rs[i].Start, rs[i].End))
	}
	return out
}

// checkRanges is the structural oracle of the statement's first sentence. It returns false when
// the table is too broken to be used for the lookups.
func checkRanges(c *lib.Ctx, n, m int, rs []partitioning.KeyGroupRange) bool {
	w := func(at int) rangeWitness {
		return rangeWitness{Groups: n, Operators: m, Call: fmt.Sprintf("partitioning.NewKeySpace(%d, %d).KeyGroupRanges()", n, m), Ranges: windowOf(rs, at)}
	}
	if len(rs) != m {
		c.Violate("ranges-count", w(0), "%d ranges for %d operators", len(rs), m)
		return false
	}
	ok := true
	minSize, maxSize := n+1, -1
	for i, r := range rs {
		want := 0
		if i > 0 {
			want = rs[i-1].End
		}
		if r.Start != want {
			kind := "ranges-gap"
			if r.Start < want {
				kind = "ranges-overlap"
			}
			c.Violate(kind, w(i), "range #%d starts at %d, previous range ends at %d", i, r.Start, want)
			ok = false
		}
		if r.End < r.Start {
			c.Violate("ranges-negative", w(i), "range #%d = [%d,%d)", i, r.Start, r.End)
			ok = false
		}
		minSize, maxSize = min(minSize, r.End-r.Start), max(maxSize, r.End-r.Start)
		if !ok {
			return false
		}
	}
	if rs[m-1].End != n {
		c.Violate("ranges-cover", w(m-1), "last range ends at %d, key groups are 0..%d", rs[m-1].End, n-1)
		ok = false
	}
	if maxSize-minSize > 1 {
		c.Violate("ranges-balance", w(0), "range sizes between %d and %d", minSize, maxSize)
	}
	return ok
}

// rangeOf is the arithmetic reference for RangeIndex: the index of the only range containing g,
// found in the table the code itself returned (already checked to be a partition of 0..n-1).
func rangeOf(rs []partitioning.KeyGroupRange, g int) int {
	// ranges are sorted and contiguous; empty ranges contain nothing
	i := sort.Search(len(rs), func(i int) bool { return rs[i].End > g })
	if i < len(rs) && rs[i].Start <= g && g < rs[i].End {
		return i
	}
	return -1
}

func rangesCase(c *lib.Ctx) {
	n, exhaustiveAxis := rangesCount(c)
	r := c.R
	ms := opCounts(r, n)
	nontrivial := false
	for _, m := range ms {
		call := fmt.Sprintf("partitioning.NewKeySpace(%d, %d)", n, m)
		ks := partitioning.NewKeySpace(n, m)
		rs := ks.KeyGroupRanges()
		c.Feat("configurations", 1)
		if n%m != 0 {
			c.Feat("configs_not_dividing", 1)
			nontrivial = true
		}
		if m > n {
			c.Feat("configs_operators_gt_groups", 1)
		}
		if !checkRanges(c, n, m, rs) {
			continue
		}
		empty := 0
		for _, x := range rs {
			if x.End == x.Start {
				empty++
			}
		}
		c.Feat("empty_ranges", int64(empty))
		if m > n && empty != m-n {
			// with more operators than groups a partition with sizes differing by <= 1 must consist
			// of n singletons and m-n empty ranges; anything else was already reported above
			c.Violate("ranges-balance", rangeWitness{Groups: n, Operators: m, Call: call + ".KeyGroupRanges()"}, "%d empty ranges, want %d", empty, m-n)
		}
		// lookups
		var groups []int
		if n <= 4096 {
			groups = make([]int, n)
			for g := range groups {
				groups[g] = g
			}
			c.Feat("configs_all_groups_looked_up", 1)
		} else {
			step := max(1, len(rs)/64)
			for i := 0; i < len(rs); i += step {
				if rs[i].End > rs[i].Start {
					groups = append(groups, rs[i].Start, rs[i].End-1)
				}
			}
			groups = append(groups, 0, n-1)
			for i := 0; i < 512; i++ {
				groups = append(groups, r.Intn(n))
			}
		}
		for _, g := range groups {
			// a key whose reference hash is congruent to g modulo n
			mult := uint32(r.Intn(int((0xffffffff-uint32(g))/uint32(n)) + 1))
			key := keyWithHash(uint32(g)+mult*uint32(n), 0)
			kw := func() rangeWitness {
				return rangeWitness{Groups: n, Operators: m, Call: call, Key: hex.EncodeToString(key), Ranges: windowOf(rs, max(0, rangeOf(rs, g)))}
			}
			if got := int(ks.KeyGroup(key)); got != g {
				c.Violate("keygroup-hash", kw(), "KeyGroup(%x) = %d, reference murmur3_32(key,0)=%d mod %d = %d", key, got, ref32(key, 0), n, g)
				continue
			}
			want := rangeOf(rs, g)
			if want < 0 {
				c.Violate("ranges-cover", kw(), "no range contains key group %d", g)
				continue
			}
			if got := ks.RangeIndex(key); got != want {
				c.Violate("rangeindex", kw(), "RangeIndex(%x) = %d but key group %d lies in range #%d=[%d,%d)", key, got, g, want, rs[want].Start, rs[want].End)
			}
		}
		c.Feat("lookups", int64(len(groups)))
	}
	if exhaustiveAxis {
		c.Feat("exhaustive", 1)
	}
	c.SetSig(nontrivial, n, fmt.Sprint(ms))
	if c.Index < 3 || c.Index == 4096 {
		c.Sample(map[string]any{"key_group_count": n, "operator_counts": ms, "ranges_of_last": windowOf(partitioning.NewKeySpace(n, ms[len(ms)-1]).KeyGroupRanges(), 1)})
	}
}

// ---------------------------------------------------------------- murmur

func murmurStrings(r *rand.Rand) [][]byte {
	var out [][]byte
	for n := 0; n <= 64; n++ {
		a := make([]byte, n)
		r.Read(a)
		b := make([]byte, n)
		for i := range b {
			b[i] = 0x80 | byte(r.Intn(128))
		}
		var m []byte
		for len(m) < n {
			m = append(m, lib.Key(r, 2)...)
			if len(m) == 0 {
				m = append(m, 0)
			}
		}
		m = m[:n]
		d := make([]byte, n)
		x := byte(r.Intn(256))
		for i := range d {
			d[i] = x
		}
		out = append(out, a, b, m, d)
	}
	return out
}

func murmurCase(c *lib.Ctx) {
	r := c.R
	if c.Index == 0 {
		g := loadGolden()
		for _, v := range g.Vectors {
			k, _ := hex.DecodeString(v.Key)
			if got := murmur.Hash(k, int(v.Seed)); got != v.Hash {
				c.Violate("murmur-golden", map[string]any{"call": fmt.Sprintf("murmur.Hash(hex %s, %d)", v.Key, v.Seed), "golden": v}, "murmur.Hash = %d, golden table (%s, %s) = %d", got, v.Src, v.Note, v.Hash)
			}
		}
		c.Feat("golden_vectors", int64(len(g.Vectors)))
		c.SetSig(true, "golden")
		c.Sample(map[string]any{"golden_vectors": len(g.Vectors), "first": g.Vectors[4], "last": g.Vectors[len(g.Vectors)-1]})
		return
	}
	strs := murmurStrings(r)
	seeds := []uint32{0, 1, 2, 3, 4, 5, 6, 7, 0x9747b28c, 0xffffffff, r.Uint32()}
	sig := uint32(0)
	for _, s := range strs {
		for _, seed := range seeds {
			want := ref32(s, seed)
			if got := murmur.Hash(s, int(seed)); got != want {
				c.Violate("murmur-ref", map[string]any{"call": fmt.Sprintf("murmur.Hash(hex %x, %d)", s, seed), "len": len(s)}, "murmur.Hash = %#08x, reference MurmurHash3_x86_32 = %#08x", got, want)
			}
			sig = sig*31 + want
		}
		h := ref32(s, 0)
		for _, n := range []int{1 + r.Intn(65535), 65535, 1 + r.Intn(300)} {
			ks := keySpaceFor(n)
			if got := int(ks.KeyGroup(s)); got != int(h%uint32(n)) {
				c.Violate("keygroup-hash", map[string]any{"call": fmt.Sprintf("partitioning.NewKeySpace(%d,1).KeyGroup(hex %x)", n, s)}, "KeyGroup = %d, reference hash %d mod %d = %d", got, h, n, h%uint32(n))
			}
			c.Feat("keygroup_checks", 1)
		}
		if len(s)%4 != 0 {
			c.Feat("tails", 1)
		}
		if len(s) > 0 && s[len(s)-1] >= 0x80 {
			c.Feat("high_last_byte", 1)
		}
	}
	c.Feat("hash_comparisons", int64(len(strs)*len(seeds)))
	c.SetSig(true, sig)
	if c.Index < 3 {
		c.Sample(map[string]any{"strings": len(strs), "lengths": "0..64", "seeds": seeds, "example": fmt.Sprintf("%x", strs[4*7+1])})
	}
}

// keySpaceFor caches key spaces with one range (construction fills a table of n entries).
var ksCache = map[int]*partitioning.KeySpace{}

func keySpaceFor(n int) *partitioning.KeySpace {
	if ks, ok := ksCache[n]; ok {
		return ks
	}
	if len(ksCache) > 2000 {
		ksCache = map[int]*partitioning.KeySpace{}
	}
	ks := partitioning.NewKeySpace(n, 1)
	ksCache[n] = ks
	return ks
}
