package main

import (
	"context"
	"fmt"
	"sort"
	"time"

	awskinesis "github.com/aws/aws-sdk-go-v2/service/kinesis"
	kinesistypes "github.com/aws/aws-sdk-go-v2/service/kinesis/types"
	gproto "google.golang.org/protobuf/proto"
	protokinesis "reduction.dev/reduction-protocol/kinesispb"
	"reduction.dev/reduction/connectors"
	"reduction.dev/reduction/connectors/kinesis"
	"reduction.dev/reduction/connectors/kinesis/kinesispb"
	"reduction.dev/reduction/proto/snapshotpb"
	"reduction.dev/reduction/proto/workerpb"
	"verif/lib"
)

// C16 part "kinesis-reader": the REAL kinesis.SourceReader(s) next to the real splitter, against kinesisfake.
//
// A stream of 1..4 shards receives uniquely numbered records in several waves. The source runs as a chain of
// incarnations: splitter.Start(previous checkpoint), the readers get their splits (with cursors), a seeded number
// of ReadEvents calls (a reader polls ONE of its shards per call), then the checkpoint — every reader's
// Checkpoint() at the barrier, then the splitter's — and a crash. The last incarnation reads until nothing is
// left. Each incarnation ends exactly at its checkpoint, so:
//   - every checkpoint has exactly one position for every split a reader holds (also for a split whose restored
//     position the reader has not used yet), and
//   - all incarnations together have emitted every written record exactly once.
func kinesisReaderCase(c *lib.Ctx) {
	r := c.R
	srv, _ := startKinesisFake(c)
	defer srv.Close()
	client := kinesis.NewLocalClient(srv.URL)
	ctx := context.Background()
	name := "verif-reader"
	shards := int32(1 + r.Intn(4))
	if _, err := client.CreateStream(ctx, &awskinesis.CreateStreamInput{StreamName: &name, ShardCount: &shards}); err != nil {
		c.Inconclusive("kinesisfake CreateStream: %v", err)
	}
	d, err := client.DescribeStream(ctx, &awskinesis.DescribeStreamInput{StreamName: &name})
	if err != nil {
		c.Inconclusive("kinesisfake DescribeStream: %v", err)
	}
	arn := *d.StreamDescription.StreamARN
	cfg := kinesis.SourceConfig{StreamARN: arn, Client: client, ShardDiscoveryInterval: time.Hour}
	var steps []string
	logf := func(f string, a ...any) {
		steps = append(steps, fmt.Sprintf(f, a...))
		c.Logf("%s", steps[len(steps)-1])
	}
	wit := func(extra ...any) map[string]any {
		w := map[string]any{"shards": shards, "steps": steps}
		for i := 0; i+1 < len(extra); i += 2 {
			w[extra[i].(string)] = extra[i+1]
		}
		return w
	}
	written := 0
	put := func(n int) {
		var entries []kinesistypes.PutRecordsRequestEntry
		for i := 0; i < n; i++ {
			key := fmt.Sprintf("key-%d", r.Intn(1000))
			entries = append(entries, kinesistypes.PutRecordsRequestEntry{PartitionKey: &key, Data: []byte(fmt.Sprintf("rec-%05d", written))})
			written++
		}
		if _, err := client.PutRecords(ctx, &awskinesis.PutRecordsInput{StreamARN: &arn, Records: entries}); err != nil {
			c.Inconclusive("kinesisfake PutRecords: %v", err)
		}
		logf("%d records written (total %d)", n, written)
	}
	seen := map[string]int{}
	var ckpt *snapshotpb.SourceCheckpoint
	incarnations := 2 + r.Intn(4)
	for inc := 0; inc < incarnations; inc++ {
		last := inc == incarnations-1
		put(5 + r.Intn(40))
		nRunners := 1 + r.Intn(3)
		runners := make([]string, nRunners)
		readers := map[string]*kinesis.SourceReader{}
		held := map[string][]string{}
		for i := range runners {
			runners[i] = fmt.Sprintf("sr%d.%d", inc, i)
			readers[runners[i]] = kinesis.NewSourceReader(cfg, connectors.SourceReaderHooks{})
		}
		errc := make(chan error, 4)
		var assignErr error
		splitter := cfg.NewSourceSplitter(runners, connectors.SourceSplitterHooks{
			AssignSplits: func(a map[string][]*workerpb.SourceSplit) {
				for rn, sp := range a {
					for _, s := range sp {
						held[rn] = append(held[rn], s.SplitId)
					}
					if rd := readers[rn]; rd != nil && len(sp) > 0 {
						if err := rd.AssignSplits(sp); err != nil {
							assignErr = err
						}
					}
				}
			},
		}, errc)
		if ckpt == nil {
			logf("incarnation %d: %d runners, splitter.Start(nil)", inc, nRunners)
		} else {
			logf("incarnation %d: %d runners, splitter.Start(checkpoint %d)", inc, nRunners, ckpt.CheckpointId)
		}
		var startErr error
		repoCall(c, func() map[string]any { return wit() }, func() { startErr = splitter.Start(ckpt) })
		if startErr != nil || assignErr != nil {
			if startErr != nil && transportFlake(startErr.Error()) {
				c.Inconclusive("loopback transport error: %v", startErr)
			}
			c.Fail("splitter-start-error", wit(), "Start: %v, AssignSplits: %v", startErr, assignErr)
		}
		// reads: a seeded number of calls per reader (0 = the barrier arrives before the reader polled anything);
		// the last incarnation reads until several rounds bring nothing
		read := func(rn string) int {
			var evs [][]byte
			var err error
			repoCall(c, func() map[string]any { return wit() }, func() { evs, err = readers[rn].ReadEvents() })
			if err != nil && !connectors.IsRetryable(err) {
				if transportFlake(err.Error()) {
					c.Inconclusive("loopback transport error: %v", err)
				}
				c.Fail("reader-error", wit(), "%s ReadEvents: %v", rn, err)
			}
			for _, e := range evs {
				var rec protokinesis.Record
				if gproto.Unmarshal(e, &rec) != nil {
					c.Fail("reader-record", wit(), "%s emitted an undecodable record", rn)
				}
				seen[string(rec.Data)]++
			}
			return len(evs)
		}
		if last {
			for idle := 0; idle < 6*int(shards); {
				n := 0
				for _, rn := range runners {
					if len(held[rn]) > 0 {
						n += read(rn)
					}
				}
				if n == 0 {
					idle++
				} else {
					idle = 0
				}
			}
			splitter.Close()
			break
		}
		for _, rn := range runners {
			if len(held[rn]) == 0 {
				continue
			}
			k := r.Intn(2 + 2*len(held[rn]))
			for i := 0; i < k; i++ {
				read(rn)
			}
			logf("%s holds %v and called ReadEvents %d times", rn, held[rn], k)
		}
		// the barrier: every reader's positions, then the splitter's state
		next := &snapshotpb.SourceCheckpoint{CheckpointId: uint64(inc + 1), SourceId: "tbd"}
		pos := map[string]string{}
		for _, rn := range runners {
			var states [][]byte
			repoCall(c, func() map[string]any { return wit() }, func() { states = readers[rn].Checkpoint() })
			got := map[string]int{}
			for _, st := range states {
				var sh kinesispb.Shard
				if gproto.Unmarshal(st, &sh) != nil {
					c.Fail("reader-checkpoint", wit(), "%s reported an undecodable split state", rn)
				}
				got[sh.ShardId]++
				pos[sh.ShardId] = sh.Cursor
			}
			want := append([]string{}, held[rn]...)
			sort.Strings(want)
			for _, id := range want {
				if got[id] != 1 {
					c.Fail("split-position-missing", wit("checkpoint_positions", pos), "checkpoint %d: reader %s holds split %s (assigned in this incarnation) and reports %d positions for it; a recovery from this checkpoint resumes the split from the start of the shard", inc+1, rn, id, got[id])
				}
			}
			next.SplitStates = append(next.SplitStates, states...)
		}
		repoCall(c, func() map[string]any { return wit() }, func() { next.SplitterState = splitter.Checkpoint() })
		logf("checkpoint %d: positions %v; crash", inc+1, pos)
		splitter.Close()
		ckpt = next
		c.Feat("reader_checkpoints", 1)
	}
	// exactly once over the chain of incarnations
	var lost, dup []string
	for i := 0; i < written; i++ {
		k := fmt.Sprintf("rec-%05d", i)
		switch seen[k] {
		case 0:
			lost = append(lost, k)
		case 1:
		default:
			dup = append(dup, fmt.Sprintf("%s x%d", k, seen[k]))
		}
	}
	if len(dup) > 0 {
		c.Fail("record-read-twice", wit(), "%d records were emitted more than once across the recoveries (each incarnation stopped exactly at its checkpoint): %v", len(dup), firstN(dup, 12))
	}
	if len(lost) > 0 {
		c.Fail("record-never-read", wit(), "%d written records were never emitted although the last incarnation read until nothing came any more: %v", len(lost), firstN(lost, 12))
	}
	c.Feat("records_read_exactly_once", int64(written))
	c.SetSig(incarnations > 2, shards, steps)
	if c.Index < 2 {
		c.Sample(map[string]any{"shards": shards, "steps": steps})
	}
}

func firstN(xs []string, n int) []string {
	if len(xs) > n {
		return xs[:n]
	}
	return xs
}
