// connmon — C16 (splitter part): every split has exactly one reader and is resumed from its
// checkpointed position, for the embedded, httpapi and kinesis source splitters (DESIGN §6 C16).
package main

import (
	"fmt"
	"io"
	"log/slog"
	"runtime"
	"runtime/debug"
	"strings"
	"time"

	"verif/lib"
)

const level = "exploration"

// watchdog: only ever ends a case as inconclusive.
const watchdog = 20 * time.Second

func n(q, t int) func(string) int {
	return func(tier string) int {
		if tier == "thorough" {
			return t
		}
		return q
	}
}

var simpleAssume = []string{
	"the job is replaced by the harness: it forwards AssignSplits to real SourceReaders of the connector and assembles the SourceCheckpoint exactly like snapshots.jobSnapshot.toProto (split states of all runners in a seeded acknowledgement order + SourceSplitter.Checkpoint())",
}

const simpleRule = "Script: Start(nil) -> every runner's real reader gets its splits -> 0..3 ReadEvents per runner -> checkpoint (reader.Checkpoint() of every runner + splitter.Checkpoint()) -> 0..2 more reads per runner that the crash loses -> NEW splitter with 1..4 new runners Start(checkpoint) -> new readers -> 0..3 reads per runner. Oracle: per splitter incarnation every split id of the source is assigned exactly once and to a configured runner, a reader only returns records of its own splits; per split, the records read before the checkpoint followed by those read after the restore are exactly the split's sequence from its beginning without gap or repetition. non-trivial = >=1 read before the checkpoint and >=1 after the restore; distinct by configuration + read counts."

func main() {
	slog.SetDefault(slog.New(slog.NewTextHandler(io.Discard, nil)))
	lib.Main(
		&lib.Prop{ID: "C16", Part: "embedded", Level: level, NCases: n(80, 3000), Run: embeddedCase, Assumptions: simpleAssume,
			Rule: "embedded source with 1..6 splits, generator batch 1..5, 1..4 runners (cases 0..7 enumerate 1..4). " + simpleRule + " Sequence of split i of n: i, i+n, i+2n, ..."},
		&lib.Prop{ID: "C16", Part: "httpapi", Level: level, NCases: n(80, 3000), Run: httpapiCase, Assumptions: append([]string{"httpapi reads go to the repository's httpapitest server over loopback HTTP"}, simpleAssume...),
			Rule: "httpapi source over a topic of 20..80 unique records, server batch 1..7, 1..4 runners (cases 0..7 enumerate 1..4). " + simpleRule + " Sequence of the single split: the topic in order."},
		&lib.Prop{ID: "C16", Part: "kinesis-reader", Level: level, NCases: n(40, 1500), Run: kinesisReaderCase,
			Assumptions: []string{"kinesisfake (in-repo) holds the stream; records carry unique numbers", "the harness plays the source runner: it calls ReadEvents / Checkpoint of the real readers between two reads, like the runner's event loop does at a barrier"},
			Rule:        "streams of 1..4 shards, records written in waves; a chain of 2..5 incarnations of the real Kinesis splitter and 1..3 real SourceReaders: Start(previous checkpoint), seeded numbers of ReadEvents calls per reader (including none: the barrier arrives before a restored split was polled), reader Checkpoint() then splitter Checkpoint(), crash; the last incarnation reads to the end. Every checkpoint carries exactly one position for every split a reader holds; over the chain every written record is emitted exactly once; non-trivial = >=3 incarnations; distinct by (shards, steps)"},
		&lib.Prop{ID: "C16", Part: "kinesis", Level: level, NCases: n(150, 4000), Run: kinesisCase,
			Assumptions: []string{
				"kinesisfake (in-repo) is the ground truth for shard lineage; requests to it are serialised by a proxy because the fake has no locking",
				"the harness plays the source readers: it owns the cursors, reports a shard finished only when a reader holds it and the shard is closed, and assembles SourceCheckpoint like snapshots.jobSnapshot.toProto",
				"discovery ticks are wall-clock driven (2 ms ticker) in 2/3 of the cases; the harness waits for LOGICAL events (a ListShards request arriving after the step, then a three-notification barrier through NotifySplitsFinished(nil)); a missing event within 20 s is inconclusive, never a verdict",
				"assignments made by a superseded (closed) splitter incarnation are not judged (C15)",
			},
			Rule: "one case = one seeded script: 1..3 initial shards, 0..4 pre-history splits/merges (lineage depth <=3), 1..4 runners, then 3..9 steps of split / merge / reader advances cursor / reader finishes a closed shard / discovery tick. The script is executed once without restore, once per permutation of its finish steps (2..4 of them), and once with Checkpoint()+Close()+fresh splitter Start(restored) in front of EVERY step index and after the last step (1/3 of them with 1..2 steps of lost work after the checkpoint, 1/3 with a different runner count). After the script every closed shard held by a reader is finished until nothing changes. Oracle at every AssignSplits hook call: shard exists in kinesisfake, runner is configured, shard not assigned before in this incarnation, not already reported finished, every parent (per kinesisfake) reported finished, cursor == checkpointed cursor (or empty if never read). At the end: every shard that is not finished and whose parents are finished is held by a reader. non-trivial = script has a split/merge and a finish; distinct by script; sub-run assignment traces counted separately"},
	)
}

// repoCall runs f on the case goroutine and turns a panic raised in repository code into a
// violation of kind "panic" with the history as witness. (lib.runCase does this as well, but it
// only looks through runtime frames: a nil dereference inside math/big called from the
// repository would be mistaken for a harness bug.)
func repoCall(c *lib.Ctx, witness func() map[string]any, f func()) {
	defer func() {
		p := recover()
		if p == nil {
			return
		}
		st := string(debug.Stack())
		if !firstUserFrameInRepo(st) {
			panic(p)
		}
		lines := strings.Split(st, "\n")
		if len(lines) > 30 {
			lines = lines[:30]
		}
		w := witness()
		w["stack"] = strings.Join(lines, "\n")
		c.Fail("panic", w, "%v", p)
	}()
	f()
}

func firstUserFrameInRepo(stack string) bool {
	lines := strings.Split(stack, "\n")
	goroot := runtime.GOROOT()
	seenPanic := false
	for i := 0; i+1 < len(lines); i++ {
		l := lines[i]
		if strings.HasPrefix(l, "panic(") {
			seenPanic = true
			continue
		}
		if !seenPanic || strings.HasPrefix(l, "\t") || l == "" {
			continue
		}
		file := strings.TrimSpace(lines[i+1])
		if strings.Contains(file, "/src/runtime/") || (goroot != "" && strings.HasPrefix(file, goroot+"/")) || strings.Contains(file, "/golang.org/toolchain@") {
			continue
		}
		return strings.HasPrefix(file, lib.RepoDir()+"/")
	}
	return false
}

var _ = fmt.Sprint
