package main

// C16 / parts embedded and httpapi: the two splitters without lineage. The harness stands in for the job
// (forwarding assignments to real SourceReaders of the connector, assembling the checkpoint).

import (
	"errors"
	"fmt"
	"sort"
	"strconv"
	"strings"

	"reduction.dev/reduction/connectors"
	"reduction.dev/reduction/connectors/embedded"
	"reduction.dev/reduction/connectors/httpapi"
	"reduction.dev/reduction/connectors/httpapi/httpapitest"
	"reduction.dev/reduction/proto/snapshotpb"
	"reduction.dev/reduction/proto/workerpb"
	"verif/lib"
)

type simpleWorld struct {
	c        *lib.Ctx
	kind     string
	cfg      connectors.SourceConfig
	hist     []string
	splitIDs []string                      // every split id the source has
	seqOf    func(ev []byte) (string, int) // event -> (split id, position in the split's sequence)
	desc     map[string]any
	consumed map[string][]int // per split: positions read and "kept" (before the checkpoint / after the restore)
}

func (w *simpleWorld) logf(format string, a ...any) {
	w.hist = append(w.hist, fmt.Sprintf(format, a...))
	w.c.Logf("%s", w.hist[len(w.hist)-1])
}

func (w *simpleWorld) witness() map[string]any {
	return map[string]any{"connector": w.kind, "config": w.desc, "history": append([]string{}, w.hist...)}
}

type incarnation struct {
	n        int
	runners  []string
	splitter connectors.SourceSplitter
	readers  map[string]connectors.SourceReader
	assigned map[string]string // split -> runner
	held     map[string][]string
}

// startIncarnation creates a splitter + one reader per runner and delivers the assignments.
func (w *simpleWorld) startIncarnation(n int, nRunners int, ck *snapshotpb.SourceCheckpoint) *incarnation {
	c := w.c
	inc := &incarnation{n: n, readers: map[string]connectors.SourceReader{}, assigned: map[string]string{}, held: map[string][]string{}}
	for i := 0; i < nRunners; i++ {
		inc.runners = append(inc.runners, fmt.Sprintf("r%d.%d", n, i))
	}
	var calls []map[string][]*workerpb.SourceSplit
	errChan := make(chan error, 8)
	inc.splitter = w.cfg.NewSourceSplitter(append([]string{}, inc.runners...), connectors.SourceSplitterHooks{
		AssignSplits: func(as map[string][]*workerpb.SourceSplit) { calls = append(calls, as) },
	}, errChan)
	if ck == nil {
		w.logf("incarnation %d: NewSourceSplitter(runners %v).Start(nil)", n, inc.runners)
	} else {
		var ss []string
		for _, s := range ck.SplitStates {
			ss = append(ss, fmt.Sprintf("%q", s))
		}
		w.logf("incarnation %d: NewSourceSplitter(runners %v).Start(checkpoint %d: split states [%s], splitter state %q)", n, inc.runners, ck.CheckpointId, strings.Join(ss, " "), ck.SplitterState)
	}
	var err error
	repoCall(c, w.witness, func() { err = inc.splitter.Start(ck) })
	if err != nil {
		c.Fail("splitter-start-error", w.witness(), "Start returned %v", err)
	}
	select {
	case e := <-errChan:
		c.Fail("splitter-start-error", w.witness(), "splitter reported %v", e)
	default:
	}
	// assignment oracle: every split exactly once, to a configured runner
	for _, as := range calls {
		var rs []string
		for r := range as {
			rs = append(rs, r)
		}
		sort.Strings(rs)
		for _, r := range rs {
			valid := false
			for _, x := range inc.runners {
				valid = valid || x == r
			}
			for _, sp := range as[r] {
				w.logf("  AssignSplits hook: split %q -> %s cursor=%x", sp.SplitId, r, sp.Cursor)
				c.Feat("assignments", 1)
				if !valid {
					c.Violate("assign-unknown-runner", w.witness(), "split %q assigned to %q, runners are %v", sp.SplitId, r, inc.runners)
					continue
				}
				if prev, dup := inc.assigned[sp.SplitId]; dup {
					c.Violate("assigned-twice", w.witness(), "split %q assigned to %s and to %s by one splitter", sp.SplitId, prev, r)
					continue
				}
				known := false
				for _, id := range w.splitIDs {
					known = known || id == sp.SplitId
				}
				if !known {
					c.Violate("assign-unknown-split", w.witness(), "split %q assigned, the source has splits %v", sp.SplitId, w.splitIDs)
					continue
				}
				inc.assigned[sp.SplitId] = r
				inc.held[r] = append(inc.held[r], sp.SplitId)
			}
		}
	}
	for _, id := range w.splitIDs {
		if _, ok := inc.assigned[id]; !ok {
			c.Violate("split-without-reader", w.witness(), "split %q was assigned to no runner (runners %v)", id, inc.runners)
		}
	}
	// the job forwards each runner's splits to its reader
	for _, as := range calls {
		for _, r := range inc.runners {
			if len(as[r]) == 0 {
				continue
			}
			rd := inc.readers[r]
			if rd == nil {
				rd = w.cfg.NewSourceReader(connectors.SourceReaderHooks{NotifySplitsFinished: func([]string) {}})
				inc.readers[r] = rd
			}
			var err error
			repoCall(c, w.witness, func() { err = rd.AssignSplits(as[r]) })
			if err != nil {
				c.Fail("reader-assign-error", w.witness(), "reader of %s: AssignSplits: %v", r, err)
			}
		}
	}
	return inc
}

// read lets the reader of a runner read once and returns the positions per split.
func (w *simpleWorld) read(inc *incarnation, runner string) (map[string][]int, bool) {
	rd := inc.readers[runner]
	if rd == nil {
		return nil, false
	}
	var evs [][]byte
	var err error
	repoCall(w.c, w.witness, func() { evs, err = rd.ReadEvents() })
	eoi := errors.Is(err, connectors.ErrEndOfInput)
	if err != nil && !eoi {
		w.c.Inconclusive("reader of %s: ReadEvents: %v", runner, err)
	}
	out := map[string][]int{}
	var desc []string
	for _, e := range evs {
		id, pos := w.seqOf(e)
		out[id] = append(out[id], pos)
		desc = append(desc, fmt.Sprintf("%s#%d", id, pos))
	}
	if len(desc) > 12 {
		desc = append(desc[:6], append([]string{"..."}, desc[len(desc)-5:]...)...)
	}
	w.logf("reader of %s: ReadEvents -> %d records %v eoi=%v", runner, len(evs), desc, eoi)
	w.c.Feat("reads", 1)
	return out, eoi
}

func embeddedCase(c *lib.Ctx) { simpleCase(c, "embedded") }
func httpapiCase(c *lib.Ctx)  { simpleCase(c, "httpapi") }

func simpleCase(c *lib.Ctx, kind string) {
	r := c.R
	w := &simpleWorld{c: c, consumed: map[string][]int{}}
	c.OnPanic = func() any { return w.witness() }
	nRunners := 1 + r.Intn(4)
	if c.Index < 8 {
		nRunners = 1 + c.Index%4 // runner counts 1..4 in the first cases
	}
	if kind == "embedded" {
		w.kind = "embedded"
		cfg := embedded.SourceConfig{SplitCount: 1 + r.Intn(6), BatchSize: 1 + r.Intn(5)}
		w.cfg = cfg
		w.desc = map[string]any{"split_count": cfg.SplitCount, "batch_size": cfg.BatchSize}
		for i := 0; i < cfg.SplitCount; i++ {
			w.splitIDs = append(w.splitIDs, strconv.Itoa(i))
		}
		w.seqOf = func(ev []byte) (string, int) {
			v, err := strconv.Atoi(string(ev))
			if err != nil {
				lib.HarnessBug("embedded event %q is not a number", ev)
			}
			return strconv.Itoa(v % cfg.SplitCount), v / cfg.SplitCount
		}
	} else {
		w.kind = "httpapi"
		batch := 1 + r.Intn(7)
		srv := withPort(c, func() *httpapitest.SinkServer {
			return httpapitest.StartServer(httpapitest.WithReadBatchSize(batch), httpapitest.WithUnboundedReading())
		})
		defer srv.Close()
		nrec := 20 + r.Intn(61)
		for i := 0; i < nrec; i++ {
			srv.Write("t", []byte(fmt.Sprintf("rec-%d", i)))
		}
		w.cfg = httpapi.SourceConfig{Addr: srv.URL(), Topics: []string{"t"}}
		w.desc = map[string]any{"records": nrec, "server_batch": batch}
		w.splitIDs = []string{"only"}
		w.seqOf = func(ev []byte) (string, int) {
			v, err := strconv.Atoi(strings.TrimPrefix(string(ev), "rec-"))
			if err != nil {
				lib.HarnessBug("httpapi event %q", ev)
			}
			return "only", v
		}
	}
	w.desc["runners"] = nRunners

	inc := w.startIncarnation(1, nRunners, nil)
	readSome := func(inc *incarnation, keep bool, maxReads int) int {
		total := 0
		for _, rn := range lib.Shuffled(r, inc.runners) {
			k := r.Intn(maxReads + 1)
			if k == 0 && r.Intn(3) > 0 {
				k = 1
			}
			for i := 0; i < k; i++ {
				got, _ := w.read(inc, rn)
				if got == nil {
					break
				}
				empty := true
				for id, ps := range got {
					empty = false
					if keep {
						w.consumed[id] = append(w.consumed[id], ps...)
					}
					if inc.assigned[id] != rn {
						c.Violate("read-foreign-split", w.witness(), "reader of %s returned records of split %q which is assigned to %q", rn, id, inc.assigned[id])
					}
				}
				total++
				if empty && w.kind == "httpapi" {
					break // the reader sleeps 100 ms after an empty read
				}
			}
		}
		return total
	}
	before := readSome(inc, true, 3)
	// checkpoint: barrier position of every runner = its reader's Checkpoint() now
	var states [][]byte
	for _, rn := range lib.Shuffled(r, inc.runners) {
		if rd := inc.readers[rn]; rd != nil {
			var st [][]byte
			repoCall(c, w.witness, func() { st = rd.Checkpoint() })
			states = append(states, st...)
		}
	}
	var splitterState []byte
	repoCall(c, w.witness, func() { splitterState = inc.splitter.Checkpoint() })
	ck := &snapshotpb.SourceCheckpoint{CheckpointId: 1, SourceId: "tbd", SplitStates: states, SplitterState: splitterState}
	w.logf("checkpoint 1: %d split states from the readers + splitter state (%d bytes)", len(states), len(splitterState))
	lost := readSome(inc, false, 2)
	if lost > 0 {
		w.logf("(the %d reads after the checkpoint are lost by the crash)", lost)
	}
	inc.splitter.Close()
	n2 := nRunners
	if r.Intn(2) == 0 {
		n2 = 1 + r.Intn(4)
	}
	w.logf("crash; recovery with %d runners", n2)
	inc2 := w.startIncarnation(2, n2, ck)
	after := readSome(inc2, true, 3)
	// cursor oracle: per split, kept reads form the split's sequence 0,1,2,.. without gap or repeat
	for _, id := range w.splitIDs {
		ps := w.consumed[id]
		for i, p := range ps {
			if p != i {
				what := "a gap: records were skipped"
				if p < i {
					what = "a repetition: records already covered by the checkpoint were read again"
				}
				c.Violate("cursor-not-restored", w.witness(), "split %q: record #%d of the kept reads is position %d of the split, want %d (%s); positions read: %v", id, i, p, i, what, ps)
				break
			}
		}
	}
	inc2.splitter.Close()
	c.Feat("runners_"+strconv.Itoa(nRunners), 1)
	c.Feat(w.kind, 1)
	if before > 0 {
		c.Feat("checkpoints_with_progress", 1)
	}
	c.SetSig(before > 0 && after > 0, w.kind, fmt.Sprint(w.desc), before, lost, after, n2)
	if c.Index < 4 {
		c.Sample(w.witness())
	}
}
