package main

// C16 / kinesis: the real kinesis.SourceSplitter against the in-process kinesisfake.
//
// A case is one script (pre-history of shard splits/merges, then steps split / merge / read /
// finish / tick). The script is executed many times ("sub-runs"): once without a restore, once
// with Checkpoint() + Close() + fresh splitter Start(restored) in front of EVERY step index (and
// after the last step), optionally with 1..2 steps of work lost between checkpoint and crash, and
// once per permutation of the order of its finish steps. kinesisfake is the ground truth for
// lineage; the harness plays the readers (cursors, NotifySplitsFinished).

import (
	"context"
	"fmt"
	"math/big"
	"net/http"
	"net/http/httptest"
	"sort"
	"strings"
	"sync"
	"time"

	awskinesis "github.com/aws/aws-sdk-go-v2/service/kinesis"
	gproto "google.golang.org/protobuf/proto"
	"reduction.dev/reduction/connectors"
	"reduction.dev/reduction/connectors/kinesis"
	"reduction.dev/reduction/connectors/kinesis/kinesisfake"
	"reduction.dev/reduction/connectors/kinesis/kinesispb"
	"reduction.dev/reduction/proto/snapshotpb"
	"reduction.dev/reduction/proto/workerpb"
	"verif/lib"
)

const maxDepth = 3

// ---------------------------------------------------------------- script and ideal model

type kstep struct {
	Op string `json:"op"` // split | merge | read | finish | tick
	A  string `json:"a,omitempty"`
	B  string `json:"b,omitempty"`
}

func (s kstep) String() string {
	switch s.Op {
	case "merge":
		return fmt.Sprintf("merge(%s,%s)", short(s.A), short(s.B))
	case "tick":
		return "tick"
	}
	return fmt.Sprintf("%s(%s)", s.Op, short(s.A))
}

func short(id string) string {
	if i := strings.LastIndex(id, "-"); i >= 0 {
		return "s" + strings.TrimLeft(id[i+1:], "0") + zeroIf(strings.TrimLeft(id[i+1:], "0") == "")
	}
	return id
}

func zeroIf(b bool) string {
	if b {
		return "0"
	}
	return ""
}

func shardID(n int) string { return fmt.Sprintf("shardId-%012d", n) }

// mshard is a shard of the ideal model (used only to GENERATE feasible scripts; verdicts never
// consult it: they use the lineage read back from kinesisfake).
type mshard struct {
	id       string
	parents  []string
	lo, hi   *big.Int
	closed   bool
	depth    int
	known    bool
	assigned bool
	finished bool
}

type imodel struct {
	shards []*mshard
	ticker bool
}

func (m *imodel) get(id string) *mshard {
	for _, s := range m.shards {
		if s.id == id {
			return s
		}
	}
	return nil
}

func (m *imodel) open() []*mshard {
	var out []*mshard
	for _, s := range m.shards {
		if !s.closed {
			out = append(out, s)
		}
	}
	sort.Slice(out, func(i, j int) bool { return out[i].lo.Cmp(out[j].lo) < 0 })
	return out
}

func (m *imodel) discover() {
	for _, s := range m.shards {
		s.known = true
	}
}

func (m *imodel) assign() {
	for _, s := range m.shards {
		if !s.known || s.assigned || s.finished {
			continue
		}
		ok := true
		for _, p := range s.parents {
			if ps := m.get(p); ps != nil && !ps.finished {
				ok = false
			}
		}
		if ok {
			s.assigned = true
		}
	}
}

func (m *imodel) split(s *mshard) {
	mid := new(big.Int).Add(s.lo, s.hi)
	mid.Rsh(mid, 1)
	s.closed = true
	n := len(m.shards)
	m.shards = append(m.shards,
		&mshard{id: shardID(n), parents: []string{s.id}, lo: s.lo, hi: new(big.Int).Sub(mid, big.NewInt(1)), depth: s.depth + 1},
		&mshard{id: shardID(n + 1), parents: []string{s.id}, lo: mid, hi: s.hi, depth: s.depth + 1})
}

func (m *imodel) merge(a, b *mshard) {
	a.closed, b.closed = true, true
	m.shards = append(m.shards, &mshard{id: shardID(len(m.shards)), parents: []string{a.id, b.id}, lo: a.lo, hi: b.hi, depth: max(a.depth, b.depth) + 1})
}

type kscript struct {
	Shards0 int     `json:"initial_shards"`
	Ticker  bool    `json:"discovery_ticker"`
	Runners int     `json:"runners"`
	Pre     []kstep `json:"prehistory"`
	Steps   []kstep `json:"steps"`
}

func genScript(c *lib.Ctx) kscript {
	r := c.R
	sc := kscript{Shards0: 1 + r.Intn(3), Ticker: r.Intn(3) > 0, Runners: 1 + r.Intn(4)}
	m := &imodel{ticker: sc.Ticker}
	max128 := new(big.Int).Lsh(big.NewInt(1), 128)
	width := new(big.Int).Div(max128, big.NewInt(int64(sc.Shards0)))
	lo := big.NewInt(0)
	for i := 0; i < sc.Shards0; i++ {
		hi := new(big.Int).Add(lo, width)
		hi.Sub(hi, big.NewInt(1))
		if i == sc.Shards0-1 {
			hi = new(big.Int).Sub(max128, big.NewInt(1))
		}
		m.shards = append(m.shards, &mshard{id: shardID(i), lo: lo, hi: hi})
		lo = new(big.Int).Add(hi, big.NewInt(1))
	}
	mutate := func() (kstep, bool) {
		open := m.open()
		if r.Intn(3) == 0 && len(open) >= 2 {
			i := r.Intn(len(open) - 1)
			a, b := open[i], open[i+1]
			if max(a.depth, b.depth) < maxDepth {
				m.merge(a, b)
				return kstep{Op: "merge", A: a.id, B: b.id}, true
			}
		}
		var cand []*mshard
		for _, s := range open {
			if s.depth < maxDepth {
				cand = append(cand, s)
			}
		}
		if len(cand) == 0 {
			return kstep{}, false
		}
		s := lib.Pick(r, cand)
		m.split(s)
		return kstep{Op: "split", A: s.id}, true
	}
	npre := r.Intn(4)
	if !sc.Ticker {
		npre = 1 + r.Intn(4)
	}
	for i := 0; i < npre; i++ {
		if st, ok := mutate(); ok {
			sc.Pre = append(sc.Pre, st)
		}
	}
	m.discover()
	m.assign()
	nsteps := 3 + r.Intn(7)
	for len(sc.Steps) < nsteps {
		var finishable, readable []*mshard
		for _, s := range m.shards {
			if s.assigned && !s.finished {
				readable = append(readable, s)
				if s.closed {
					finishable = append(finishable, s)
				}
			}
		}
		x := r.Intn(10)
		switch {
		case x < 4 && len(finishable) > 0:
			s := lib.Pick(r, finishable)
			s.finished = true
			m.assign()
			sc.Steps = append(sc.Steps, kstep{Op: "finish", A: s.id})
		case x < 6 && len(m.shards) < 12:
			if st, ok := mutate(); ok {
				sc.Steps = append(sc.Steps, st)
			}
		case x < 8 && sc.Ticker:
			m.discover()
			m.assign()
			sc.Steps = append(sc.Steps, kstep{Op: "tick"})
		case len(readable) > 0:
			sc.Steps = append(sc.Steps, kstep{Op: "read", A: lib.Pick(r, readable).id})
		default:
			if st, ok := mutate(); ok && len(m.shards) < 12 {
				sc.Steps = append(sc.Steps, st)
			} else if len(finishable) > 0 {
				s := finishable[0]
				s.finished = true
				m.assign()
				sc.Steps = append(sc.Steps, kstep{Op: "finish", A: s.id})
			} else {
				nsteps--
			}
		}
	}
	return sc
}

// ---------------------------------------------------------------- world of one sub-run

type tshard struct { // ground truth read back from kinesisfake
	id      string
	parents []string
	lo, hi  *big.Int
	closed  bool
	depth   int
}

type assignEvent struct {
	Inc    int    `json:"incarnation"`
	Runner string `json:"runner"`
	Shard  string `json:"shard"`
	Cursor string `json:"cursor"`
}

type kworld struct {
	c      *lib.Ctx
	sc     kscript
	name   string // sub-run name
	hist   []string
	ctx    context.Context
	cancel context.CancelFunc

	fakeSrv, splitSrv, harnSrv *httptest.Server
	fakeMu                     sync.Mutex         // serialises requests: kinesisfake has no locking
	client                     *awskinesis.Client // harness client (not counted)
	arn                        string

	mu          sync.Mutex
	cond        *sync.Cond
	listArrived int // ListShards requests of the splitter that reached the fake
	truth       map[string]*tshard
	discover    map[string]bool // shards that existed at the last Start (no-ticker mode)
	finished    map[string]bool // NotifySplitsFinished called (current epoch)
	cursors     map[string]string
	reads       int
	inc         int
	dead        int // incarnation that has crashed (its late hook calls are ignored)
	runners     []string
	assigned    map[string]string // current incarnation: shard -> runner
	expectCur   map[string]string // cursor every restored shard must be handed (incarnation >= 2)
	ckptHad     map[string]bool   // shards in the checkpoint's assigned set
	events      []assignEvent
	errs        []string
	closedAll   bool

	splitter *kinesis.SourceSplitter
	errChan  chan error
}

func (w *kworld) logf(format string, a ...any) {
	s := fmt.Sprintf(format, a...)
	w.mu.Lock()
	w.hist = append(w.hist, s)
	w.mu.Unlock()
	w.c.Logf("[%s] %s", w.name, s)
}

func (w *kworld) witness() map[string]any {
	w.mu.Lock()
	defer w.mu.Unlock()
	var lin []string
	var ids []string
	for id := range w.truth {
		ids = append(ids, id)
	}
	sort.Strings(ids)
	for _, id := range ids {
		t := w.truth[id]
		var ps []string
		for _, p := range t.parents {
			ps = append(ps, short(p))
		}
		lin = append(lin, fmt.Sprintf("%s parents=%v closed=%v finished=%v assigned_to=%q", short(id), ps, t.closed, w.finished[id], w.assigned[id]))
	}
	return map[string]any{"script": w.sc, "sub_run": w.name, "history": append([]string{}, w.hist...), "lineage_from_kinesisfake": lin}
}

func newWorld(c *lib.Ctx, sc kscript, name string) *kworld {
	w := &kworld{c: c, sc: sc, name: name, truth: map[string]*tshard{}, finished: map[string]bool{}, cursors: map[string]string{}, assigned: map[string]string{}, errChan: make(chan error, 16)}
	w.cond = sync.NewCond(&w.mu)
	w.ctx, w.cancel = context.WithCancel(context.Background())
	var fk *kinesisfake.Fake
	w.fakeSrv, fk = startKinesisFake(c)
	_ = fk
	inner := w.fakeSrv.Config.Handler
	forward := func(count bool) http.Handler {
		return http.HandlerFunc(func(rw http.ResponseWriter, rq *http.Request) {
			w.fakeMu.Lock()
			defer w.fakeMu.Unlock()
			if count && strings.HasSuffix(rq.Header.Get("x-amz-target"), ".ListShards") {
				w.mu.Lock()
				w.listArrived++
				w.cond.Broadcast()
				w.mu.Unlock()
			}
			inner.ServeHTTP(rw, rq)
		})
	}
	w.splitSrv = startHTTP(c, forward(true))
	w.harnSrv = startHTTP(c, forward(false))
	w.client = kinesis.NewLocalClient(w.harnSrv.URL)
	stream := "verif"
	n := int32(sc.Shards0)
	_, err := w.client.CreateStream(w.ctx, &awskinesis.CreateStreamInput{StreamName: &stream, ShardCount: &n})
	lib.Must(err)
	d, err := w.client.DescribeStream(w.ctx, &awskinesis.DescribeStreamInput{StreamName: &stream})
	lib.Must(err)
	w.arn = *d.StreamDescription.StreamARN
	w.refreshTruth()
	go func() {
		for {
			select {
			case e := <-w.errChan:
				w.mu.Lock()
				w.errs = append(w.errs, e.Error())
				w.c.Logf("splitter error: %v", e)
				w.mu.Unlock()
			case <-w.ctx.Done():
				return
			}
		}
	}()
	return w
}

func (w *kworld) close() {
	if w.closedAll {
		return
	}
	w.closedAll = true
	if w.splitter != nil {
		w.splitter.Close()
	}
	w.cancel()
	w.splitSrv.Close()
	w.harnSrv.Close()
	w.fakeSrv.Close()
}

// refreshTruth reads the lineage back from kinesisfake.
func (w *kworld) refreshTruth() {
	var out *awskinesis.ListShardsOutput
	var err error
	for try := 0; try < 4; try++ { // loopback transport hiccups (closed keep-alive connection) are retried
		if out, err = w.client.ListShards(w.ctx, &awskinesis.ListShardsInput{StreamARN: &w.arn}); err == nil {
			break
		}
	}
	lib.Must(err)
	w.mu.Lock()
	defer w.mu.Unlock()
	for _, s := range out.Shards {
		if _, ok := w.truth[*s.ShardId]; ok {
			continue
		}
		t := &tshard{id: *s.ShardId, lo: new(big.Int), hi: new(big.Int)}
		t.lo.SetString(*s.HashKeyRange.StartingHashKey, 10)
		t.hi.SetString(*s.HashKeyRange.EndingHashKey, 10)
		for _, p := range []*string{s.ParentShardId, s.AdjacentParentShardId} {
			if p != nil && *p != "" {
				t.parents = append(t.parents, *p)
			}
		}
		w.truth[t.id] = t
	}
	for _, t := range w.truth {
		for _, p := range t.parents {
			if pt := w.truth[p]; pt != nil {
				pt.closed = true
				t.depth = max(t.depth, pt.depth+1)
			}
		}
	}
}

// mustBeClosed: a mutation of the fake that returned a (transport) error still counts when the
// fake applied it; otherwise the case cannot go on.
func (w *kworld) mustBeClosed(err error, id string) {
	if err == nil {
		return
	}
	w.mu.Lock()
	closed := w.truth[id] != nil && w.truth[id].closed
	w.mu.Unlock()
	if !closed {
		w.c.Inconclusive("kinesisfake mutation failed: %v", err)
	}
}

// transportFlake recognises loopback HTTP failures between the splitter and the fake: they are
// not behaviour of the splitter, a sub-run that saw one cannot judge "shard never assigned".
func transportFlake(e string) bool {
	for _, s := range []string{"use of closed network connection", "connection reset", "broken pipe", "EOF", "deserialization failed", "connection refused"} {
		if strings.Contains(e, s) {
			return true
		}
	}
	return false
}

// guard runs f (a call into the splitter that may block on its internal channel) under the
// watchdog.
func (w *kworld) guard(what string, f func()) {
	done := make(chan any, 1)
	go func() {
		defer func() { done <- recover() }()
		f()
	}()
	select {
	case p := <-done:
		if p != nil {
			panic(p)
		}
	case <-time.After(watchdog):
		w.c.Inconclusive("watchdog: %s did not return (sub-run %s)", what, w.name)
	}
}

// barrier returns when everything the splitter's background loop had begun or queued before the
// call has been processed: the loop handles one event at a time and NotifySplitsFinished blocks
// while an earlier notification is still unconsumed, so the third empty notification is only
// accepted after the first one has been handled completely.
func (w *kworld) barrier() {
	s := w.splitter
	for i := 0; i < 3; i++ {
		w.guard("NotifySplitsFinished(barrier)", func() { s.NotifySplitsFinished(w.runners[0], nil) })
	}
}

// fullTick waits for a discovery tick that starts after the call and for its completion.
func (w *kworld) fullTick() {
	w.mu.Lock()
	n0 := w.listArrived
	w.mu.Unlock()
	deadline := time.AfterFunc(watchdog, func() { w.mu.Lock(); w.cond.Broadcast(); w.mu.Unlock() })
	defer deadline.Stop()
	t0 := time.Now()
	w.mu.Lock()
	for w.listArrived == n0 && time.Since(t0) < watchdog {
		w.cond.Wait()
	}
	ok := w.listArrived > n0
	w.mu.Unlock()
	if !ok {
		w.mu.Lock()
		errs := append([]string{}, w.errs...)
		w.mu.Unlock()
		for _, e := range errs {
			if !strings.Contains(e, "context canceled") && !transportFlake(e) {
				w.c.Fail("splitter-error", w.witness(), "no discovery tick any more: the splitter reported %q on its error channel and its discovery loop has stopped", e)
			}
		}
		w.c.Inconclusive("watchdog: no discovery tick within %v (splitter errors: %v)", watchdog, errs)
	}
	w.barrier()
}

// hook is the AssignSplits hook: the observation point of the assignment oracle.
func (w *kworld) hook(inc int) func(map[string][]*workerpb.SourceSplit) {
	return func(as map[string][]*workerpb.SourceSplit) {
		if w.sc.Ticker && w.c.Index%2 == 0 {
			// the job's AssignSplits posts to its task queue and can block for a while; with the real discovery
			// ticker (2 ms) running, ticks fall into the call
			time.Sleep(8 * time.Millisecond)
			w.c.Feat("slow_assign_hook_calls", 1)
		}
		var rs []string
		for r := range as {
			rs = append(rs, r)
		}
		sort.Strings(rs)
		unknown := false
		w.mu.Lock()
		for _, r := range rs {
			for _, sp := range as[r] {
				if w.truth[sp.SplitId] == nil {
					unknown = true
				}
			}
		}
		w.mu.Unlock()
		if unknown {
			w.refreshTruth()
		}
		var line []string
		for _, r := range rs {
			for _, sp := range as[r] {
				line = append(line, fmt.Sprintf("%s->%s cursor=%q", short(sp.SplitId), r, sp.Cursor))
			}
		}
		w.logf("  AssignSplits hook (incarnation %d): %s", inc, strings.Join(line, ", "))
		for _, r := range rs {
			for _, sp := range as[r] {
				w.judgeAssign(inc, r, sp)
			}
		}
	}
}

func (w *kworld) judgeAssign(inc int, runner string, sp *workerpb.SourceSplit) {
	c := w.c
	w.mu.Lock()
	id := sp.SplitId
	t := w.truth[id]
	cur := w.inc
	if inc == w.dead {
		cur = -1
	}
	prev, dup := w.assigned[id]
	fin := w.finished[id]
	var unfinishedParents []string
	if t != nil {
		for _, p := range t.parents {
			if w.truth[p] != nil && !w.finished[p] {
				unfinishedParents = append(unfinishedParents, short(p))
			}
		}
	}
	wantCur, restored := w.expectCur[id]
	validRunner := false
	for _, r := range w.runners {
		if r == runner {
			validRunner = true
		}
	}
	if inc == cur {
		w.assigned[id] = runner
		if !dup && !fin {
			// the reader starts at the cursor it was handed
			w.cursors[id] = string(sp.Cursor)
		}
		w.events = append(w.events, assignEvent{Inc: inc, Runner: runner, Shard: id, Cursor: string(sp.Cursor)})
	}
	w.mu.Unlock()
	c.Feat("assignments", 1)
	if inc != cur {
		// a discovery tick of the closed incarnation that was in flight at Close(): its readers are
		// gone; the life cycle of superseded splitters is C15's subject, not judged here
		c.Feat("late_hook_from_closed_incarnation", 1)
		return
	}
	if t == nil {
		c.Violate("assign-unknown-shard", w.witness(), "assigned %s which kinesisfake does not list", id)
		return
	}
	if !validRunner {
		c.Violate("assign-unknown-runner", w.witness(), "%s assigned to %q, runners are %v", short(id), runner, w.runners)
	}
	if fin {
		c.Violate("finished-shard-reassigned", w.witness(), "%s assigned to %s (cursor %q) although its reader had already reported it finished", short(id), runner, sp.Cursor)
	} else if dup {
		c.Violate("assigned-twice", w.witness(), "%s assigned to %s although incarnation %d already assigned it to %s", short(id), runner, inc, prev)
	}
	if len(unfinishedParents) > 0 {
		c.Violate("child-before-parent", w.witness(), "%s assigned while its parent(s) %v are not finished", short(id), unfinishedParents)
	}
	if !dup && !fin {
		if restored && string(sp.Cursor) != wantCur {
			c.Violate("cursor-not-restored", w.witness(), "%s handed out with cursor %q, the checkpoint holds %q", short(id), sp.Cursor, wantCur)
		}
		if !restored && len(sp.Cursor) != 0 {
			c.Violate("cursor-not-restored", w.witness(), "%s was never read before the checkpoint but is handed out with cursor %q", short(id), sp.Cursor)
		}
		if restored {
			c.Feat("restored_shard_reassigned", 1)
		}
	}
	if len(t.parents) > 0 {
		c.Feat("child_assignments", 1)
	}
}

func (w *kworld) start(ck *snapshotpb.SourceCheckpoint, nRunners int) {
	w.mu.Lock()
	w.inc++
	inc := w.inc
	w.runners = nil
	for i := 0; i < nRunners; i++ {
		w.runners = append(w.runners, fmt.Sprintf("r%d.%d", inc, i))
	}
	w.assigned = map[string]string{}
	w.mu.Unlock()
	w.refreshTruth()
	w.mu.Lock()
	w.discover = map[string]bool{}
	for id := range w.truth {
		w.discover[id] = true
	}
	w.mu.Unlock()
	interval := time.Hour
	if w.sc.Ticker {
		interval = 2 * time.Millisecond
	}
	cfg := kinesis.SourceConfig{StreamARN: w.arn, Client: kinesis.NewLocalClient(w.splitSrv.URL), ShardDiscoveryInterval: interval}
	w.splitter = kinesis.NewSourceSplitter(cfg, append([]string{}, w.runners...), connectors.SourceSplitterHooks{AssignSplits: w.hook(inc)}, w.errChan)
	if ck == nil {
		w.logf("incarnation %d: NewSourceSplitter(runners %v, discovery %v).Start(nil)", inc, w.runners, interval)
	} else {
		w.logf("incarnation %d: NewSourceSplitter(runners %v, discovery %v).Start(checkpoint %d)", inc, w.runners, interval, ck.CheckpointId)
	}
	var err error
	repoCall(w.c, w.witness, func() { err = w.splitter.Start(ck) })
	if err != nil {
		if transportFlake(err.Error()) {
			w.c.Inconclusive("loopback transport error between splitter and kinesisfake: %v", err)
		}
		w.c.Fail("splitter-start-error", w.witness(), "Start returned %v", err)
	}
	w.barrier()
}

// checkpoint assembles what snapshots.jobSnapshot.toProto assembles: the reader states of all
// runners (here: the harness readers) and the splitter's own state.
func (w *kworld) checkpoint(id uint64) (*snapshotpb.SourceCheckpoint, map[string]bool, map[string]string) {
	state := w.splitter.Checkpoint()
	w.mu.Lock()
	defer w.mu.Unlock()
	fin := map[string]bool{}
	for k := range w.finished {
		fin[k] = true
	}
	curs := map[string]string{}
	var ids []string
	for sh := range w.assigned {
		if !w.finished[sh] {
			ids = append(ids, sh)
		}
	}
	sort.Strings(ids)
	ids = lib.Shuffled(w.c.R, ids)
	var states [][]byte
	for _, sh := range ids {
		curs[sh] = w.cursors[sh]
		b, err := gproto.Marshal(&kinesispb.Shard{ShardId: sh, Cursor: w.cursors[sh]})
		lib.Must(err)
		states = append(states, b)
	}
	var st kinesispb.SplitterState
	desc := "undecodable"
	if gproto.Unmarshal(state, &st) == nil {
		var as []string
		for _, a := range st.AssignedShards {
			as = append(as, short(a.ShardId))
		}
		desc = fmt.Sprintf("assigned=%v last_assigned=%s", as, short(st.LastAssignedShardId))
	}
	var cs []string
	for _, sh := range ids {
		cs = append(cs, fmt.Sprintf("%s@%q", short(sh), curs[sh]))
	}
	sort.Strings(cs)
	w.hist = append(w.hist, fmt.Sprintf("Checkpoint() #%d: splitter state {%s}; reader split states %v", id, desc, cs))
	return &snapshotpb.SourceCheckpoint{CheckpointId: id, SourceId: "tbd", SplitStates: states, SplitterState: state}, fin, curs
}

func (w *kworld) restore(ck *snapshotpb.SourceCheckpoint, fin map[string]bool, curs map[string]string, nRunners int) {
	w.logf("crash: Close() incarnation %d; readers, cursors and finished set roll back to checkpoint %d", w.inc, ck.CheckpointId)
	// from here on hook calls of the crashed incarnation (a discovery tick in flight) are not
	// judged: marking it dead and rolling the world back happen in one critical section
	w.mu.Lock()
	w.dead = w.inc
	w.finished = fin
	w.cursors = map[string]string{}
	w.expectCur = map[string]string{}
	w.ckptHad = map[string]bool{}
	for k, v := range curs {
		w.expectCur[k] = v
		w.ckptHad[k] = true
	}
	w.mu.Unlock()
	w.splitter.Close()
	w.c.Feat("restores", 1)
	if len(curs) > 0 {
		w.c.Feat("restores_with_assigned_shards", 1)
	}
	w.start(ck, nRunners)
}

// exec runs one script step if its precondition holds in the REAL state.
func (w *kworld) exec(st kstep) bool {
	w.mu.Lock()
	ta, tb := w.truth[st.A], w.truth[st.B]
	_, asg := w.assigned[st.A]
	fin := w.finished[st.A]
	w.mu.Unlock()
	switch st.Op {
	case "split":
		if ta == nil || ta.closed || ta.depth >= maxDepth {
			w.logf("%v skipped (already applied or not applicable)", st)
			return false
		}
		mid := new(big.Int).Add(ta.lo, ta.hi)
		mid.Rsh(mid, 1)
		ms := mid.String()
		_, err := w.client.SplitShard(w.ctx, &awskinesis.SplitShardInput{StreamARN: &w.arn, ShardToSplit: &st.A, NewStartingHashKey: &ms})
		w.refreshTruth()
		w.mustBeClosed(err, st.A)
		w.logf("%v on kinesisfake", st)
		w.c.Feat("splits", 1)
	case "merge":
		if ta == nil || tb == nil || ta.closed || tb.closed {
			w.logf("%v skipped (already applied or not applicable)", st)
			return false
		}
		_, err := w.client.MergeShards(w.ctx, &awskinesis.MergeShardsInput{StreamARN: &w.arn, ShardToMerge: &st.A, AdjacentShardToMerge: &st.B})
		w.refreshTruth()
		w.mustBeClosed(err, st.A)
		w.logf("%v on kinesisfake", st)
		w.c.Feat("merges", 1)
	case "read":
		if !asg || fin {
			w.logf("%v skipped (shard not held by a reader)", st)
			return false
		}
		w.mu.Lock()
		w.reads++
		w.cursors[st.A] = fmt.Sprintf("seq-%s-%d", short(st.A), w.reads)
		cur := w.cursors[st.A]
		w.mu.Unlock()
		w.logf("reader of %s advances to cursor %q", short(st.A), cur)
	case "finish":
		if !asg || fin || ta == nil || !ta.closed {
			w.logf("%v skipped (shard not held by a reader or not closed)", st)
			return false
		}
		w.finish(st.A)
	case "tick":
		if !w.sc.Ticker {
			return false
		}
		w.fullTick()
		w.logf("a full discovery tick has run")
		w.c.Feat("ticks", 1)
	}
	return true
}

func (w *kworld) finish(id string) {
	w.mu.Lock()
	w.finished[id] = true // from now on the children may be assigned
	runner := w.assigned[id]
	w.mu.Unlock()
	w.logf("reader on %s reaches the end of closed shard %s: NotifySplitsFinished(%s,[%s])", runner, short(id), runner, short(id))
	s := w.splitter
	w.guard("NotifySplitsFinished", func() { s.NotifySplitsFinished(runner, []string{id}) })
	w.barrier()
	w.c.Feat("finishes", 1)
}

// drain finishes everything that can be finished and lets the splitter settle; then every shard
// that is not finished and whose parents are all finished must be held by exactly one reader.
func (w *kworld) drain() {
	w.logf("drain: finish every closed shard a reader holds until nothing changes")
	for round := 0; round < 10; round++ {
		if w.sc.Ticker {
			w.fullTick()
		} else {
			w.barrier()
		}
		w.mu.Lock()
		var todo []string
		for id := range w.assigned {
			if t := w.truth[id]; t != nil && t.closed && !w.finished[id] {
				todo = append(todo, id)
			}
		}
		w.mu.Unlock()
		if len(todo) == 0 {
			break
		}
		sort.Strings(todo)
		for _, id := range todo {
			w.finish(id)
		}
	}
	w.refreshTruth()
	w.mu.Lock()
	var lost []string
	ids := make([]string, 0, len(w.truth))
	for id := range w.truth {
		ids = append(ids, id)
	}
	sort.Strings(ids)
	for _, id := range ids {
		t := w.truth[id]
		if w.finished[id] {
			continue
		}
		if !w.sc.Ticker && !w.discover[id] {
			continue // created after the last Start and no discovery ticker: not yet discoverable
		}
		ready := true
		for _, p := range t.parents {
			if w.truth[p] != nil && !w.finished[p] {
				ready = false
			}
		}
		if _, ok := w.assigned[id]; ready && !ok {
			why := "never assigned"
			if w.ckptHad[id] {
				why = "was held by a reader at the checkpoint"
			} else if w.inc > 1 {
				why = "not in the checkpoint's assigned set"
			}
			lost = append(lost, fmt.Sprintf("%s (%s)", short(id), why))
		}
	}
	errs := append([]string{}, w.errs...)
	w.mu.Unlock()
	for _, e := range errs {
		if transportFlake(e) && !strings.Contains(e, "context canceled") && !w.c.Violated() {
			w.c.Inconclusive("loopback transport error between splitter and kinesisfake: %s", e)
		}
	}
	// after an assignment violation the harness readers no longer mirror what real readers would
	// hold (e.g. a re-assigned finished shard would be read and finished a second time)
	if len(lost) > 0 && !w.c.Violated() {
		w.c.Violate("shard-without-reader", w.witness(), "after every parent was finished and a full discovery round ran, no reader holds %v (incarnation %d)", lost, w.inc)
	}
	// A failed discovery ends the splitter's background loop for good. Errors of a superseded
	// incarnation (its context is cancelled by Close) are expected and only counted.
	var real []string
	for _, e := range errs {
		switch {
		case strings.Contains(e, "context canceled"):
			w.c.Feat("errors_of_closed_incarnations", 1)
		case transportFlake(e):
			if !w.c.Violated() {
				w.c.Inconclusive("loopback transport error between splitter and kinesisfake: %s", e)
			}
		default:
			real = append(real, e)
		}
	}
	if len(real) > 0 && !w.c.Violated() {
		w.c.Violate("splitter-error", w.witness(), "the splitter reported %v on its error channel (its discovery loop has stopped)", real)
	}
}

// ---------------------------------------------------------------- sub-runs

type subrun struct {
	name      string
	restoreAt int // -1: none
	lost      int // steps executed between checkpoint and crash
	perm      []int
	runners2  int
}

func (sr subrun) run(c *lib.Ctx, sc kscript) {
	steps := append([]kstep{}, sc.Steps...)
	if sr.perm != nil {
		var pos []int
		for i, s := range steps {
			if s.Op == "finish" {
				pos = append(pos, i)
			}
		}
		orig := append([]kstep{}, steps...)
		for j, p := range pos {
			steps[p] = orig[pos[sr.perm[j]]]
		}
	}
	w := newWorld(c, sc, sr.name)
	defer w.close()
	c.OnPanic = func() any { return w.witness() }
	for _, st := range sc.Pre {
		w.exec(st)
	}
	w.start(nil, sc.Runners)
	for i := 0; i <= len(steps); i++ {
		if i == sr.restoreAt {
			ck, fin, curs := w.checkpoint(uint64(i + 1))
			for j := i; j < min(i+sr.lost, len(steps)); j++ {
				w.logf("(work lost by the crash) step %d:", j)
				w.exec(steps[j])
			}
			w.restore(ck, fin, curs, sr.runners2)
		}
		if i < len(steps) {
			w.exec(steps[i])
		}
	}
	w.drain()
	c.Feat("subruns", 1)
	w.mu.Lock()
	var sig []string
	for _, e := range w.events {
		sig = append(sig, fmt.Sprintf("%d:%s", e.Inc, short(e.Shard)))
	}
	depth := 0
	for _, t := range w.truth {
		depth = max(depth, t.depth)
	}
	w.mu.Unlock()
	c.AddSig(sr.restoreAt >= 0, strings.Join(sig, " "))
	c.Feat(fmt.Sprintf("lineage_depth_%d", depth), 1)
}

func permutations(n int) [][]int {
	if n <= 1 {
		return nil
	}
	var out [][]int
	var rec func(cur []int, used int)
	rec = func(cur []int, used int) {
		if len(cur) == n {
			out = append(out, append([]int{}, cur...))
			return
		}
		for i := 0; i < n; i++ {
			if used&(1<<i) == 0 {
				rec(append(cur, i), used|1<<i)
			}
		}
	}
	rec(nil, 0)
	return out[1:] // the identity is the base run
}

func kinesisCase(c *lib.Ctx) {
	sc := genScript(c)
	r := c.R
	var runs []subrun
	runs = append(runs, subrun{name: "no restore", restoreAt: -1})
	nfin := 0
	for _, s := range sc.Steps {
		if s.Op == "finish" {
			nfin++
		}
	}
	if nfin >= 2 && nfin <= 4 {
		for i, p := range permutations(nfin) {
			runs = append(runs, subrun{name: fmt.Sprintf("no restore, finish order %v (#%d)", p, i+1), restoreAt: -1, perm: p})
		}
		c.Feat("finish_order_enumerations", 1)
	}
	for k := 0; k <= len(sc.Steps); k++ {
		lost := 0
		if r.Intn(3) == 0 {
			lost = 1 + r.Intn(2)
		}
		r2 := sc.Runners
		if r.Intn(3) == 0 {
			r2 = 1 + r.Intn(4)
		}
		runs = append(runs, subrun{name: fmt.Sprintf("checkpoint+restore before step %d (crash %d steps later, %d runners afterwards)", k, lost, r2), restoreAt: k, lost: lost, runners2: r2})
	}
	if c.Index < 3 {
		var names []string
		for _, x := range runs {
			names = append(names, x.name)
		}
		c.Sample(map[string]any{"script": sc, "sub_runs": names})
	}
	var ops []string
	for _, s := range append(append([]kstep{}, sc.Pre...), sc.Steps...) {
		ops = append(ops, s.String())
	}
	nontrivial := false
	for _, s := range append(append([]kstep{}, sc.Pre...), sc.Steps...) {
		if s.Op == "split" || s.Op == "merge" {
			nontrivial = true
		}
	}
	c.SetSig(nontrivial && nfin > 0, sc.Shards0, sc.Ticker, sc.Runners, strings.Join(ops, " "))
	for _, sr := range runs {
		sr.run(c, sc)
		if c.Violated() {
			break // one witness per case is enough; later sub-runs would repeat it
		}
	}
}
