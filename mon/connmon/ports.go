package main

import (
	"fmt"
	"net/http"
	"net/http/httptest"
	"strings"
	"time"

	"reduction.dev/reduction/connectors/kinesis/kinesisfake"
	"verif/lib"
)

// Thousands of cases each start a few loopback servers; under 16 parallel shards the ephemeral ports can run out for
// a moment (sockets in TIME_WAIT). httptest panics then ("failed to listen on a port"). That is the sandbox, not the
// code under test: the start is retried for a while and the case ends inconclusive if no port becomes free.
func withPort[T any](c *lib.Ctx, start func() T) (out T) {
	deadline := time.Now().Add(60 * time.Second)
	for {
		ok := func() (ok bool) {
			defer func() {
				if p := recover(); p != nil {
					if !strings.Contains(fmt.Sprint(p), "failed to listen on a port") {
						panic(p)
					}
					ok = false
				}
			}()
			out = start()
			return true
		}()
		if ok {
			return out
		}
		if time.Now().After(deadline) {
			c.Inconclusive("no free loopback port for a test server within 60 s (ephemeral ports exhausted)")
		}
		time.Sleep(250 * time.Millisecond)
	}
}

func startHTTP(c *lib.Ctx, h http.Handler) *httptest.Server {
	return withPort(c, func() *httptest.Server { return httptest.NewServer(h) })
}

type fakeAndServer struct {
	srv *httptest.Server
	fk  *kinesisfake.Fake
}

func startKinesisFake(c *lib.Ctx) (*httptest.Server, *kinesisfake.Fake) {
	r := withPort(c, func() fakeAndServer { s, f := kinesisfake.StartFake(); return fakeAndServer{s, f} })
	return r.srv, r.fk
}
