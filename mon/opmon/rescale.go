package main

import (
	"context"
	"encoding/json"
	"errors"
	"fmt"
	"math/rand"
	"os"
	"path/filepath"
	"runtime"
	"sort"
	"strings"
	"sync"
	"time"

	"reduction.dev/reduction/dkv/recovery"
	"reduction.dev/reduction/partitioning"
	"reduction.dev/reduction/proto"
	"reduction.dev/reduction/proto/jobpb"
	"reduction.dev/reduction/proto/snapshotpb"
	"reduction.dev/reduction/proto/workerpb"
	"reduction.dev/reduction/util/sliceu"
	"reduction.dev/reduction/util/vhook"
	"reduction.dev/reduction/workers/operator"
	"verif/lib"
	"verif/ophar"
)

// multiEnv: an assembly of real operators (no source runners: the harness routes), rescaled through
// job-level checkpoints. C06 (rescaling) and C09 (operator level: shared tables, NeedsTable faults).

type opSlot struct {
	node  *ophar.Node
	h     *ophar.Handler
	model *ophar.Model
	mt    ophar.Matcher
	rng   partitioning.KeyGroupRange
	ack   *ophar.Ack // last ack
}

// neighbour answer policy for NeedsTable
type ntPolicy int

const (
	ntTruth ntPolicy = iota
	ntError
	ntDelay
	ntUnreachable
)

type multiEnv struct {
	procMu    sync.Mutex
	procOf    map[string]*int // operator id -> identity of the (simulated) process running it now
	c         *lib.Ctx
	r         *rand.Rand
	senders   []string
	keys      [][]byte
	nss       []string
	eks       [][]byte
	keyGroups int
	quiet     int // index of an operator that receives no events (-1: none)
	maxSize   int
	location  string
	store     *ophar.ShadowStore
	ops       []*opSlot
	byID      map[string]*opSlot
	job       *ophar.JobRec
	vg        *lib.ValueGen
	opsLog    []string
	evN       int
	ckptID    uint64
	gen       int
	pinned    []any
	tuning    vhook.TuningValues
	timerProg func(key []byte, t int64) ophar.Program
	faults    bool
	polMu     sync.Mutex
	policy    map[string]ntPolicy // "from>to"
	ntCalls   map[string]int
	vector    map[string]int64 // latest watermark per sender (broadcast to every operator)
	jobCkpts  []jobCkpt
	acksMu    sync.Mutex
	ackShadow map[string]map[string]ophar.KeyShadow // opID -> shadow at its ack
}

type jobCkpt struct {
	id     uint64
	acks   []ophar.Ack
	shadow map[string]ophar.KeyShadow
	timers map[string]int64
}

func (e *multiEnv) logOp(format string, a ...any) {
	e.opsLog = append(e.opsLog, fmt.Sprintf(format, a...))
	e.c.Logf("op %d: %s", len(e.opsLog), e.opsLog[len(e.opsLog)-1])
}

func (e *multiEnv) wit(extra ...any) map[string]any {
	ops := e.opsLog
	if len(ops) > 300 {
		ops = append([]string{fmt.Sprintf("... %d earlier ops", len(ops)-300)}, ops[len(ops)-300:]...)
	}
	var asm []string
	for _, o := range e.ops {
		asm = append(asm, fmt.Sprintf("%s%v", o.node.ID, o.rng))
	}
	w := map[string]any{"assembly": asm, "key_groups": e.keyGroups, "senders": e.senders, "max_batch": e.maxSize, "tuning": e.tuning, "ops": ops}
	for i := 0; i+1 < len(extra); i += 2 {
		w[fmt.Sprint(extra[i])] = extra[i+1]
	}
	return w
}

func newMultiEnv(c *lib.Ctx, faults bool) *multiEnv {
	r := c.R
	e := &multiEnv{c: c, r: r, quiet: -1, vg: &lib.ValueGen{Writer: "m"}, byID: map[string]*opSlot{}, policy: map[string]ntPolicy{}, ntCalls: map[string]int{},
		vector: map[string]int64{}, faults: faults, ackShadow: map[string]map[string]ophar.KeyShadow{}}
	for i := 0; i < 1+r.Intn(2); i++ {
		e.senders = append(e.senders, fmt.Sprintf("sr%d", i))
		e.vector[e.senders[i]] = 0
	}
	e.keys = lib.KeyUniverse(r, 6+r.Intn(14), 3)
	e.nss = []string{"", "a", "n\x00"}
	e.eks = lib.KeyUniverse(r, 4, 2)
	e.keyGroups = lib.Pick(r, []int{4, 7, 256, 256, 1000})
	e.maxSize = lib.Pick(r, []int{1, 2, 4, 8})
	e.tuning = vhook.TuningValues{
		MemTableSize: uint64(lib.Pick(r, []int{150, 400, 2000, 1 << 20})), MaxWALSize: uint64(lib.Pick(r, []int{300, 1 << 20})),
		TargetFileSize: uint64(lib.Pick(r, []int{250, 1 << 20})), L0TableNumCompactionTrigger: lib.Pick(r, []int{1, 2, 4}),
		TuneCompactor: true, MaxSizeAmplificationPercent: lib.Pick(r, []int{0, 50, 200}), SmallestLevelSize: int64(lib.Pick(r, []int{250, 256 << 20})), LevelSizeMultiplier: 10,
		TimerCacheBytes: uint64(lib.Pick(r, []int{0, 0, 60 * e.keyGroups})),
	}
	vhook.SetTuning(&e.tuning)
	// every operator node is its own process: the repository's per-process count of live Table objects must not
	// protect a table file because a NEIGHBOUR in this test process still has a Table object for it
	e.procOf = map[string]*int{}
	vhook.Set(func(name string, arg any) {
		if name == "operator.filesystem" {
			a := arg.(*operator.VerifFileSystem)
			e.procMu.Lock()
			proc := e.procOf[a.OperatorID]
			e.procMu.Unlock()
			if proc != nil {
				a.FS = lib.ProcFS{Inner: a.FS, Proc: proc}
			}
		}
	})
	e.location = filepath.Join(c.Dir, "store")
	os.MkdirAll(e.location, 0o755)
	e.store = ophar.NewShadowStore()
	e.timerProg = timerProgFor(c.Seed + int64(c.Index))
	e.job = &ophar.JobRec{Handler: func(id string) *ophar.Handler {
		if s := e.byID[id]; s != nil {
			return s.h
		}
		return nil
	}}
	e.job.OnAck = func(a ophar.Ack) {
		if s := e.byID[a.OperatorID]; s != nil {
			rng := partitioning.KeyGroupRange{Start: a.Start, End: a.End}
			snap := s.h.ShadowSnapshot(func(k []byte) bool {
				return rng.IncludesKeyGroup(partitioning.KeyGroup(ophar.KeyGroupOf(k, e.keyGroups)))
			})
			e.acksMu.Lock()
			e.ackShadow[a.OperatorID] = snap
			e.acksMu.Unlock()
		}
	}
	return e
}

func (e *multiEnv) close() {
	for _, o := range e.ops {
		o.node.Kill()
	}
	vhook.SetTuning(nil)
	vhook.Set(nil)
	runtime.KeepAlive(e.pinned)
}

// neighbour adapter -----------------------------------------------------------------------------

type neighbour struct {
	proto.UnimplementedOperator
	e        *multiEnv
	from, to string
}

func (n *neighbour) ID() string   { return n.to }
func (n *neighbour) Host() string { return "host-" + n.to }
func (n *neighbour) NeedsTable(ctx context.Context, uri string) (bool, error) {
	e := n.e
	e.polMu.Lock()
	pol := e.policy[n.from+">"+n.to]
	e.ntCalls[fmt.Sprint(pol)]++
	target := e.byID[n.to]
	e.polMu.Unlock()
	switch pol {
	case ntError:
		return false, errors.New("verif: injected NeedsTable error")
	case ntUnreachable:
		return false, errors.New("verif: neighbour unreachable (connection refused)")
	case ntDelay:
		time.Sleep(time.Duration(200+rand.Intn(800)) * time.Microsecond)
	}
	if target == nil || target.node.Stopped {
		return false, errors.New("verif: neighbour gone")
	}
	return target.node.Op.HandleNeedsTable(uri), nil
}

// assembly management ----------------------------------------------------------------------------

// askNeedsTable asks like the RPC server does: a panic of the handler is a failed request.
func askNeedsTable(n *ophar.Node, uri string) (needs bool, err error) {
	defer func() {
		if p := recover(); p != nil {
			err = fmt.Errorf("request handler panicked: %v", p)
		}
	}()
	return n.Op.HandleNeedsTable(uri), nil
}

// deployAssembly starts n fresh operators and deploys them from the given job checkpoint (nil = empty).
// ackOrder permutes the recorded operator checkpoints (the order in which the job happened to record them).
func (e *multiEnv) deployAssembly(n int, from *jobCkpt, reuseIDs bool) {
	for _, o := range e.ops {
		o.node.Kill()
		e.pinned = append(e.pinned, o.node) // a dead process: none of its cleanups ever runs
	}
	lib.GCSettle()
	e.gen++
	ks := partitioning.NewKeySpace(e.keyGroups, n)
	ranges := ks.KeyGroupRanges()
	ids := make([]string, n)
	for i := range ids {
		ids[i] = fmt.Sprintf("op-g%d-%d", e.gen, i)
		if reuseIDs && i < len(e.ops) {
			ids[i] = e.ops[i].node.ID // a survivor id: same directory
		}
	}
	var ckpts []*snapshotpb.OperatorCheckpoint
	var assignments [][]int
	if from != nil {
		acks := lib.Shuffled(e.r, from.acks) // every order in which the old operators' checkpoints were recorded
		ckRanges := make([]partitioning.KeyGroupRange, len(acks))
		var order []string
		for i, a := range acks {
			ckpts = append(ckpts, &snapshotpb.OperatorCheckpoint{CheckpointId: a.CheckpointID, OperatorId: a.OperatorID, DkvFileUri: a.URI,
				KeyGroupRange: &snapshotpb.KeyGroupRange{Start: int32(a.Start), End: int32(a.End)}})
			ckRanges[i] = partitioning.KeyGroupRange{Start: a.Start, End: a.End}
			order = append(order, fmt.Sprintf("%s%v", a.OperatorID, ckRanges[i]))
		}
		// exactly what jobs.Assembly.Deploy computes
		assignments = partitioning.AssignRanges(ranges, ckRanges)
		e.logOp("rescale %d -> %d operators from job checkpoint %d, recorded order %v, assignment %v", len(from.acks), n, from.id, order, assignments)
		// oracle for the assignment itself: the true overlap relation
		for i, rg := range ranges {
			var want []int
			for j, cr := range ckRanges {
				if cr.Start < rg.End && cr.End > rg.Start {
					want = append(want, j)
				}
			}
			got := append([]int{}, assignments[i]...)
			sort.Ints(got)
			if fmt.Sprint(got) != fmt.Sprint(want) {
				e.c.Fail("assign-ranges", e.wit(), "AssignRanges: new range %v was assigned recorded checkpoints %v, the ones overlapping it are %v (recorded ranges %v)", rg, assignments[i], want, ckRanges)
			}
		}
	} else {
		e.logOp("deploy %d operators (fresh)", n)
	}
	var slots []*opSlot
	e.byID = map[string]*opSlot{}
	for i := 0; i < n; i++ {
		s := &opSlot{rng: ranges[i]}
		s.h = ophar.NewHandlerSharing(ids[i], e.store)
		s.h.TimerProg = e.timerProg
		s.model = ophar.NewModel(e.senders, e.maxSize, false, e.timerProg)
		hh := s.h
		s.model.Observe = func(pos int) *ophar.Ev {
			for _, c := range hh.Calls(0) {
				if pos < len(c.Events) {
					ev := c.Events[pos]
					return &ev
				}
				pos -= len(c.Events)
			}
			return nil
		}
		id := ids[i]
		e.procMu.Lock()
		e.procOf[id] = new(int)
		e.procMu.Unlock()
		s.node = ophar.StartNode(ophar.NodeParams{ID: id, Job: e.job, Handler: s.h, MaxSize: e.maxSize,
			Neighbors: func(senderID string, node *jobpb.NodeIdentity) proto.Operator {
				return &neighbour{e: e, from: id, to: node.Id}
			}})
		slots = append(slots, s)
		e.byID[id] = s
	}
	if from != nil {
		// a new epoch: shadow = cut; every operator's pending timers = the cut's timers of the keys it owns now
		slots[0].h.ResetShadow(from.shadow)
		for i, s := range slots {
			own := map[string]int64{}
			for id, t := range from.timers {
				key := []byte(id[:len(id)-len(fmt.Sprintf("\x00%d", t))])
				if ranges[i].IncludesKeyGroup(partitioning.KeyGroup(ophar.KeyGroupOf(key, e.keyGroups))) {
					own[id] = t
				}
			}
			s.model.Restart(e.senders, own)
		}
		for _, s := range e.senders {
			e.vector[s] = 0
		}
	}
	for i, s := range slots {
		var mine []*snapshotpb.OperatorCheckpoint
		if from != nil {
			mine = sliceu.Pick(ckpts, assignments[i])
		}
		// A neighbour that is deployed earlier may already compact shared tables away and ask this operator, which
		// has not loaded anything yet, whether it needs a table: it cannot know, so it must not answer a definite
		// "no" (an error, or a failing request, keeps the file).
		if from != nil && e.faults {
			needs, err := askNeedsTable(s.node, mine[0].DkvFileUri+".probe.sst")
			if err == nil && !needs {
				e.c.Fail("needs-table-answered-before-deploy", e.wit(), "operator %s has been started but not deployed yet (it is about to restore %d checkpoints); asked NeedsTable it answers a definite false instead of failing: the neighbour that asks deletes the table", ids[i], len(mine))
			}
			e.c.Feat("needs_table_probes_before_deploy", 1)
		}
		if err := s.node.Deploy(ids, e.senders, e.keyGroups, e.location, mine); err != nil {
			e.c.Fail("deploy-error", e.wit(), "HandleDeploy(%s): %v", ids[i], err)
		}
	}
	e.ops = slots
	if e.faults {
		e.polMu.Lock()
		e.policy = map[string]ntPolicy{}
		for _, a := range ids {
			for _, b := range ids {
				if a != b {
					e.policy[a+">"+b] = ntPolicy(e.r.Intn(4))
				}
			}
		}
		e.polMu.Unlock()
	}
	e.c.Feat(fmt.Sprintf("assemblies_of_%d", n), 1)
}

func (e *multiEnv) owner(key []byte) *opSlot {
	kg := partitioning.KeyGroup(ophar.KeyGroupOf(key, e.keyGroups))
	for _, o := range e.ops {
		if o.rng.IncludesKeyGroup(kg) {
			return o
		}
	}
	lib.HarnessBug("no owner for key group %d", kg)
	return nil
}

func (e *multiEnv) check(o *opSlot) {
	if ps := o.h.Problems(); len(ps) > 0 {
		p := ps[0]
		e.c.Fail(p.Kind, e.wit("operator", o.node.ID), "operator %s: %s", o.node.ID, p.Detail)
	}
	want := len(o.model.Batches)
	if !o.h.WaitCalls(want, ophar.Watchdog) {
		e.c.Fail("missing-handler-call", e.wit("operator", o.node.ID), "operator %s: the model predicts %d handler invocations (last: %s %v), the handler saw %d", o.node.ID, want, o.model.Batches[want-1].Why, o.model.Batches[want-1].Events, o.h.NCalls())
	}
	if kind, detail := o.mt.Match(o.model.Batches, o.h.Calls(0), o.model.OpenGroup()); kind != "" {
		e.c.Fail(kind, e.wit("operator", o.node.ID, "model_pending_timers", fmtTimers(o.model.Timers)), "operator %s: %s", o.node.ID, detail)
	}
}

func (e *multiEnv) stepKeyed(key []byte, prog ophar.Program) {
	o := e.owner(key)
	s := lib.Pick(e.r, e.senders)
	e.evN++
	id := fmt.Sprintf("e%d", e.evN)
	ts := e.vector[s] + int64(e.r.Intn(4000))
	e.logOp("%s -> %s: keyed(%q,%s,%s)", s, o.node.ID, key, id, fmtProg(prog))
	if err := o.node.Send(s, ophar.KeyedEvent(key, id, prog, ts)); err != nil {
		e.c.Fail("handle-event-error", e.wit(), "HandleEvent(keyed) on %s: %v", o.node.ID, err)
	}
	o.model.Keyed(key, id, prog, ts)
	e.check(o)
}

func (e *multiEnv) genProgram(o *opSlot) ophar.Program {
	r := e.r
	var p ophar.Program
	for i := 1 + r.Intn(3); i > 0; i-- {
		switch x := r.Intn(10); {
		case x < 6:
			in := ophar.Instr{Op: "PUT", NS: lib.Pick(r, e.nss), EK: lib.Pick(r, e.eks), V: e.vg.Next(r, lib.Pick(r, []int{0, 20, 80}))}
			if r.Intn(5) == 0 {
				in = ophar.Instr{Op: "DEL", NS: in.NS, EK: in.EK}
			}
			p = append(p, in)
		case x < 9:
			p = append(p, ophar.Instr{Op: "TIMER", T: o.model.Composite + int64(1+r.Intn(30))*1000})
		default:
			p = append(p, ophar.Instr{Op: "SINK", V: []byte("s")})
		}
	}
	return p
}

// stepWatermark: a sender's watermark goes to every operator (as a source runner broadcasts it).
func (e *multiEnv) stepWatermark() {
	s := lib.Pick(e.r, e.senders)
	t := e.vector[s] + int64(1+e.r.Intn(25))*1000
	e.vector[s] = t
	e.logOp("%s: watermark(%d) to every operator", s, t)
	for _, o := range e.ops {
		if err := o.node.Send(s, ophar.WatermarkEvent(t)); err != nil {
			e.c.Fail("handle-event-error", e.wit(), "HandleEvent(watermark) on %s: %v", o.node.ID, err)
		}
		o.model.Watermark(s, t)
		e.check(o)
	}
}

// jobCheckpoint: barriers from every sender to every operator; returns the assembled job checkpoint.
func (e *multiEnv) jobCheckpoint() *jobCkpt {
	e.ckptID++
	id := e.ckptID
	e.logOp("job checkpoint %d", id)
	jc := jobCkpt{id: id, shadow: map[string]ophar.KeyShadow{}, timers: map[string]int64{}}
	for _, o := range lib.Shuffled(e.r, e.ops) {
		for i, s := range lib.Shuffled(e.r, e.senders) {
			if i == len(e.senders)-1 {
				o.model.BarrierComplete()
			}
			if err := o.node.Send(s, ophar.BarrierEvent(id)); err != nil {
				e.c.Fail("handle-event-error", e.wit(), "HandleEvent(barrier %d) on %s: %v", id, o.node.ID, err)
			}
		}
		e.check(o)
		var mine *ophar.Ack
		for _, a := range e.job.Acks() {
			if a.CheckpointID == id && a.OperatorID == o.node.ID {
				a := a
				mine = &a
			}
		}
		if mine == nil {
			e.c.Fail("checkpoint-not-acknowledged", e.wit(), "operator %s did not acknowledge checkpoint %d", o.node.ID, id)
		}
		if mine.Start != o.rng.Start || mine.End != o.rng.End {
			e.c.Fail("ack-range", e.wit(), "operator %s acknowledged checkpoint %d with range [%d,%d), it owns %v", o.node.ID, id, mine.Start, mine.End, o.rng)
		}
		o.ack = mine
		jc.acks = append(jc.acks, *mine)
		e.acksMu.Lock()
		for k, v := range e.ackShadow[o.node.ID] {
			jc.shadow[k] = v
		}
		e.acksMu.Unlock()
		for tid, t := range o.model.Timers {
			jc.timers[tid] = t
		}
		e.verifyOperatorCheckpoint(o, *mine)
	}
	e.jobCkpts = append(e.jobCkpts, jc)
	e.c.Feat("job_checkpoints", 1)
	return &e.jobCkpts[len(e.jobCkpts)-1]
}

// verifyOperatorCheckpoint: the operator's checkpoint read back, restricted to the key groups it owns.
func (e *multiEnv) verifyOperatorCheckpoint(o *opSlot, a ophar.Ack) {
	readbackN++
	scratch := filepath.Join(e.c.Dir, fmt.Sprintf("readback-%s-%d-%d", a.OperatorID, a.CheckpointID, readbackN))
	rows, err := ophar.ReadCheckpoint(scratch, []recovery.CheckpointHandle{{CheckpointID: a.CheckpointID, URI: a.URI}})
	if err != nil {
		e.c.Fail("checkpoint-unreadable", e.wit(), "reading checkpoint %d of %s back: %v", a.CheckpointID, a.OperatorID, err)
	}
	got := map[string]ophar.KeyShadow{}
	gotTimers := map[string]int64{}
	foreign := 0
	for _, row := range rows {
		if want := ophar.KeyGroupOf(row.Subject, e.keyGroups); row.KeyGroup != want {
			e.c.Fail("row-under-wrong-key-group", e.wit(), "checkpoint %d of %s: row of subject %q is stored under key group %d, its group is %d", a.CheckpointID, a.OperatorID, row.Subject, row.KeyGroup, want)
		}
		if !o.rng.IncludesKeyGroup(partitioning.KeyGroup(row.KeyGroup)) {
			foreign++ // rows of shared tables that belong to a neighbour: never visible to this operator's handler
			continue
		}
		switch row.Schema {
		case 0:
			ks := got[string(row.Subject)]
			if ks == nil {
				ks = ophar.KeyShadow{}
				got[string(row.Subject)] = ks
			}
			if ks[row.NS] == nil {
				ks[row.NS] = map[string][]byte{}
			}
			v := row.Value
			if v == nil {
				v = []byte{}
			}
			ks[row.NS][string(row.EK)] = v
		case 1:
			gotTimers[fmt.Sprintf("%s\x00%d", row.Subject, row.T)] = row.T
		}
	}
	e.acksMu.Lock()
	want := e.ackShadow[a.OperatorID]
	e.acksMu.Unlock()
	if s1, s2 := fmtShadow(got), fmtShadow(want); s1 != s2 {
		e.c.Fail("checkpoint-state-contents", e.wit(), "checkpoint %d of %s (range %v) holds state %s for its key groups, expected %s", a.CheckpointID, a.OperatorID, o.rng, s1, s2)
	}
	if t1, t2 := fmt.Sprint(fmtTimers(gotTimers)), fmt.Sprint(fmtTimers(o.model.Timers)); t1 != t2 {
		e.c.Fail("checkpoint-timer-contents", e.wit(), "checkpoint %d of %s (range %v) holds timers %s for its key groups, pending timers are %s", a.CheckpointID, a.OperatorID, o.rng, t1, t2)
	}
	e.c.Feat("checkpoints_read_back", 1)
	e.c.Feat("foreign_rows_in_shared_tables", int64(foreign))
}

func (e *multiEnv) history(n int) {
	for i := 0; i < n; i++ {
		if e.r.Intn(7) == 0 {
			e.stepWatermark()
			continue
		}
		key := lib.Pick(e.r, e.keys)
		if e.quiet >= 0 && e.quiet < len(e.ops) && e.owner(key) == e.ops[e.quiet] {
			continue // skewed load: this operator gets no events, so it keeps the tables it restored
		}
		e.stepKeyed(key, e.genProgram(e.owner(key)))
	}
}

func (e *multiEnv) touchAll() {
	for _, k := range e.keys {
		if e.quiet >= 0 && e.quiet < len(e.ops) && e.owner(k) == e.ops[e.quiet] {
			continue
		}
		e.stepKeyed(k, nil)
	}
	// flush pending batches
	for _, o := range e.ops {
		_ = o
	}
}

// retention: the job tells every operator which checkpoints to keep
func (e *multiEnv) retain(ids []uint64) {
	e.logOp("retain %v", ids)
	for _, o := range e.ops {
		err := o.node.Op.HandleRemoveCheckpoints(context.Background(), &workerpb.UpdateRetainedCheckpointsRequest{CheckpointIds: ids})
		if err != nil {
			e.c.Fail("retain-error", e.wit(), "UpdateRetainedCheckpoints(%v) on %s: %v", ids, o.node.ID, err)
		}
	}
	e.c.Feat("retention_updates", 1)
}

// checkFiles (C09): every file referenced by a live operator's latest `checkpoints` document or by its live level set exists.
func (e *multiEnv) checkFiles(when string) {
	var pins []any // described level lists stay referenced until existence was checked
	defer func() { runtime.KeepAlive(pins) }()
	for _, o := range e.ops {
		refs := map[string]string{}
		if db := o.node.Op.VerifDB(); db != nil {
			lay := db.VerifLayout()
			pins = append(pins, lay.Pin)
			for li, lvl := range lay.Levels {
				for _, t := range lvl {
					refs[t.URI] = fmt.Sprintf("live level set of %s (L%d)", o.node.ID, li)
				}
			}
		}
		if o.ack != nil {
			b, err := os.ReadFile(o.ack.URI)
			if err != nil {
				e.c.Fail("checkpoints-file-missing", e.wit(), "%s: checkpoints file of %s: %v", when, o.node.ID, err)
			}
			var doc struct {
				Checkpoints []struct {
					ID   uint64 `json:"id"`
					WALs []struct {
						URI string `json:"uri"`
					} `json:"wals"`
					Levels [][]struct{ URI string } `json:"levels"`
				} `json:"checkpoints"`
			}
			lib.Must(json.Unmarshal(b, &doc))
			for _, cp := range doc.Checkpoints {
				for _, w := range cp.WALs {
					refs[w.URI] = fmt.Sprintf("WAL of retained checkpoint %d of %s", cp.ID, o.node.ID)
				}
				for _, lvl := range cp.Levels {
					for _, t := range lvl {
						if _, ok := refs[t.URI]; !ok {
							refs[t.URI] = fmt.Sprintf("table of retained checkpoint %d of %s", cp.ID, o.node.ID)
						}
					}
				}
			}
		}
		for uri, why := range refs {
			if _, err := os.Stat(strings.TrimPrefix(uri, "file://")); err != nil {
				e.c.Fail("referenced-file-deleted", e.wit("ntcalls", e.ntCalls), "%s: %s is missing (%v), it is referenced as %s", when, uri, err, why)
			}
		}
		e.c.Feat("references_checked", int64(len(refs)))
	}
	e.c.Feat("reference_checks", 1)
}

var readbackN int

func c06Rescale(c *lib.Ctx) {
	e := newMultiEnv(c, false)
	defer e.close()
	c.OnPanic = func() any { return e.wit() }
	r := e.r
	m := 1 + r.Intn(4)
	e.deployAssembly(m, nil, false)
	e.history(40 + r.Intn(120))
	jc := e.jobCheckpoint()
	chain := fmt.Sprint(m)
	for hop := 1 + r.Intn(3); hop > 0; hop-- {
		n := 1 + r.Intn(4)
		if c.Tier == "thorough" && r.Intn(4) == 0 {
			n = 1 + r.Intn(6)
		}
		if n > e.keyGroups {
			n = e.keyGroups
		}
		chain += "->" + fmt.Sprint(n)
		// Operator ids are random per process (ksuid): an id, and with it a directory, survives a rescale only when the
		// same process is redeployed in place — the known finding. Such a member restores whatever checkpoints cover its
		// NEW range, possibly none of its own, and then writes tables under names its previous deployment already used
		// and that other members still read (seen as EOF / unexpected EOF in their compactions, 29 of 22750 thorough
		// cases). While the finding is listed every assembly gets fresh ids.
		reuse := r.Intn(3) == 0
		e.deployAssembly(n, jc, reuse && !lib.Known("in-place-redeploy"))
		e.touchAll() // every restored key is handed to the handler at least once: lost / foreign state shows here
		e.history(20 + r.Intn(80))
		jc = e.jobCheckpoint()
	}
	e.touchAll()
	c.Feat("chains_"+chain, 1)
	c.SetSig(true, chain, e.keyGroups, e.opsLog)
	if c.Index < 3 {
		c.Sample(map[string]any{"chain": chain, "key_groups": e.keyGroups, "senders": e.senders, "ops_prefix": firstOps(e.opsLog, 30), "total_ops": len(e.opsLog)})
	}
}

func c09Operators(c *lib.Ctx) {
	e := newMultiEnv(c, true)
	defer e.close()
	c.OnPanic = func() any { return e.wit("ntcalls", e.ntCalls) }
	r := e.r
	m := 1 + r.Intn(3)
	e.deployAssembly(m, nil, false)
	e.history(60 + r.Intn(120))
	jc := e.jobCheckpoint()
	n := 2 + r.Intn(3)
	if n > e.keyGroups {
		n = e.keyGroups
	}
	e.deployAssembly(n, jc, false) // operators now share the old operators' tables
	if r.Intn(2) == 0 {
		// skewed load: one operator stays quiet (no flush, no compaction: it goes on referencing the shared tables
		// it restored) while its neighbours work on, compact the shared tables away and ask whether they may delete them
		e.quiet = r.Intn(n)
		e.logOp("operator #%d of the new assembly receives no events from now on", e.quiet)
		c.Feat("skewed_load_cases", 1)
	} else {
		e.touchAll()
	}
	e.checkFiles("after rescale")
	// Before the new assembly's first checkpoint every operator still depends on the checkpoints it was restored
	// from: the working operators flush, compact the shared tables away and their table objects are collected
	// while the others' only claim on those tables is the restored (merged) checkpoint.
	e.history(40 + r.Intn(120))
	lib.DKVIdle(ophar.Watchdog)
	lib.GCSettle()
	e.checkFiles("after rescale, more events and forced GC, before the first checkpoint of the new assembly")
	for round := 2 + r.Intn(4); round > 0; round-- {
		e.history(20 + r.Intn(60))
		jc = e.jobCheckpoint()
		e.checkFiles("after job checkpoint")
		if r.Intn(4) > 0 {
			e.retain([]uint64{jc.id})
		}
		lib.DKVIdle(ophar.Watchdog)
		lib.GCSettle()
		e.checkFiles("after retention update and forced GC")
		e.touchAll()
	}
	for k, v := range e.ntCalls {
		c.Feat("needs_table_calls_policy_"+k, int64(v))
	}
	c.SetSig(true, m, n, e.keyGroups, e.opsLog)
	if c.Index < 3 {
		c.Sample(map[string]any{"operators": fmt.Sprintf("%d->%d", m, n), "key_groups": e.keyGroups, "needs_table_policies": "truth/error/delay/unreachable per ordered pair", "ops_prefix": firstOps(e.opsLog, 30), "total_ops": len(e.opsLog)})
	}
}

func firstOps(ops []string, n int) []string {
	if len(ops) > n {
		return ops[:n]
	}
	return ops
}

// c06AssignRanges: AssignRanges against the brute-force overlap relation, for every permutation of `from`.
func c06AssignRanges(c *lib.Ctx) {
	r := c.R
	groups := lib.Pick(r, []int{4, 7, 12, 256, 1000, 65535})
	m := 1 + r.Intn(6)
	n := 1 + r.Intn(6)
	if m > groups {
		m = groups
	}
	if n > groups {
		n = groups
	}
	from := partitioning.NewKeySpace(groups, m).KeyGroupRanges()
	to := partitioning.NewKeySpace(groups, n).KeyGroupRanges()
	perms := 0
	var permute func(k int)
	cur := append([]partitioning.KeyGroupRange{}, from...)
	check := func() {
		perms++
		got := partitioning.AssignRanges(to, cur)
		for i, t := range to {
			var want []int
			for j, f := range cur {
				if f.Start < t.End && f.End > t.Start {
					want = append(want, j)
				}
			}
			g := append([]int{}, got[i]...)
			sort.Ints(g)
			if fmt.Sprint(g) != fmt.Sprint(want) {
				c.Fail("assign-ranges", map[string]any{"to": fmt.Sprint(to), "from": fmt.Sprint(cur)}, "AssignRanges(to=%v, from=%v)[%d] = %v, the recorded ranges overlapping %v are %v", to, cur, i, got[i], t, want)
			}
		}
	}
	permute = func(k int) {
		if k == len(cur) {
			check()
			return
		}
		for i := k; i < len(cur); i++ {
			cur[k], cur[i] = cur[i], cur[k]
			permute(k + 1)
			cur[k], cur[i] = cur[i], cur[k]
		}
	}
	permute(0)
	c.Feat("permutations_checked", int64(perms))
	c.SetSig(m > 1, groups, m, n)
	if c.Index < 3 {
		c.Sample(map[string]any{"groups": groups, "from_operators": m, "to_operators": n, "permutations": perms})
	}
}
