// opmon — monitors around one (or a few) real operator.Operator objects: C03, C10, C11 (operator
// level), C02, C06, C09 (operator level). DESIGN §6.
package main

import (
	"context"
	"fmt"
	"log/slog"
	"math/rand"
	"os"
	"path/filepath"
	"runtime"
	"sort"
	"sync"
	"time"

	"reduction.dev/reduction/dkv/recovery"
	"reduction.dev/reduction/proto/snapshotpb"
	"reduction.dev/reduction/proto/workerpb"
	"reduction.dev/reduction/util/vhook"
	"verif/lib"
	"verif/ophar"
)

// flavour biases the script generator towards the mechanism of one property.
type flavour struct {
	prop         string
	timers       int // weight of TIMER instructions
	watermarks   int // weight of watermark steps
	mutations    int // weight of PUT/DEL
	tinyCache    bool
	manySenders  bool
	reRegister   bool // re-register identical timers many times
	bigNamespace bool
	concurrent   bool // checkpoints with senders parked in alignment (C02)
}

type scriptEnv struct {
	c         *lib.Ctx
	r         *rand.Rand
	fl        flavour
	senders   []string
	keys      [][]byte
	nss       []string
	eks       [][]byte
	keyGroups int
	maxSize   int
	hasDelay  bool
	location  string
	opID      string
	node      *ophar.Node
	h         *ophar.Handler
	job       *ophar.JobRec
	model     *ophar.Model
	vg        *lib.ValueGen
	ops       []string
	matcher   ophar.Matcher
	evN       int
	ckptID    uint64
	lastAck   *ophar.Ack
	cutShadow map[string]ophar.KeyShadow
	cutTimers map[string]int64
	pinned    []any
	blocked   map[string]bool // senders that already sent their barrier of the checkpoint in progress
	completed map[string]bool // senders that sent SourceComplete in this deployment: barriers only from now on
	lagLog    *lib.LagLogHandler
	tuning    vhook.TuningValues
	redeploys int
	hookMu    sync.Mutex
	parked    map[string]chan struct{} // sender -> closed when it parked in alignment
	released  map[string]int
	ackShadow map[string]ophar.KeyShadow // handler shadow at the instant of the last acknowledgement
}

func (e *scriptEnv) logOp(format string, a ...any) {
	e.ops = append(e.ops, fmt.Sprintf(format, a...))
	e.c.Logf("op %d: %s", len(e.ops), e.ops[len(e.ops)-1])
}

func (e *scriptEnv) wit(extra ...any) map[string]any {
	ops := e.ops
	if len(ops) > 300 {
		ops = append([]string{fmt.Sprintf("... %d earlier ops", len(ops)-300)}, ops[len(ops)-300:]...)
	}
	var expTail, gotTail []string
	for i := max(0, len(e.model.Batches)-4); i < len(e.model.Batches); i++ {
		b := e.model.Batches[i]
		expTail = append(expTail, fmt.Sprintf("#%d wm=%d %s: %v", i, b.Watermark, b.Why, b.Events))
	}
	calls := e.h.Calls(0)
	for i := max(0, len(calls)-4); i < len(calls); i++ {
		gotTail = append(gotTail, fmt.Sprintf("#%d wm=%d: %v", i, calls[i].Watermark, calls[i].Events))
	}
	w := map[string]any{"predicted_batches_tail": expTail, "handler_calls_tail": gotTail, "model_pending_batch": fmt.Sprint(e.model.Pending), "senders": e.senders, "key_groups": e.keyGroups, "max_batch": e.maxSize, "batch_delay": e.hasDelay, "tuning": e.tuning, "ops": ops}
	for i := 0; i+1 < len(extra); i += 2 {
		w[fmt.Sprint(extra[i])] = extra[i+1]
	}
	return w
}

func timerProgFor(seed int64) func(key []byte, t int64) ophar.Program {
	return func(key []byte, t int64) ophar.Program {
		h := lib.HashParts(seed, string(key), t)
		var p ophar.Program
		switch h[0] % 4 {
		case 0:
			p = append(p, ophar.Instr{Op: "PUT", NS: "fired", EK: []byte(fmt.Sprint(t)), V: []byte("f")})
		case 1:
			p = append(p, ophar.Instr{Op: "TIMER", T: t + int64(h[1]%7+1)*1000})
		case 2:
			p = append(p, ophar.Instr{Op: "DEL", NS: "fired", EK: []byte(fmt.Sprint(t - 1000))})
		}
		return p
	}
}

func newScriptEnv(c *lib.Ctx, fl flavour) *scriptEnv {
	r := c.R
	e := &scriptEnv{c: c, r: r, fl: fl, vg: &lib.ValueGen{Writer: "o"}, blocked: map[string]bool{}, completed: map[string]bool{}}
	if fl.concurrent && r.Intn(2) == 0 {
		e.lagLog = lib.NewLagLogHandler(r.Int63(), lib.Pick(r, []int{10, 30, 60}))
	}
	ns := 1 + r.Intn(3)
	if fl.manySenders {
		ns = 2 + r.Intn(3)
	}
	for i := 0; i < ns; i++ {
		e.senders = append(e.senders, fmt.Sprintf("sr%d", i))
	}
	e.keys = lib.KeyUniverse(r, 2+r.Intn(7), 3)
	e.nss = []string{"", "a", "ab", "n\x00", "\xff"}
	if fl.bigNamespace {
		big := make([]byte, 255)
		for i := range big {
			big[i] = byte('A' + i%26)
		}
		e.nss = append(e.nss, string(big))
	}
	e.eks = lib.KeyUniverse(r, 5, 2)
	e.keyGroups = lib.Pick(r, []int{1, 2, 4, 7, 64, 256, 256, 1000}) // small even counts: few keys are enough to populate the last key group
	if c.Index%25 == 24 {
		e.keyGroups = 65535 // deploy scans every key group's timers: slow, so only now and then
		if lib.RaceEnabled {
			// one partition object per key group: 10 GB per case under the race detector (16 shards at once were
			// killed by the kernel); the arithmetic at the upper bound is the plain build's business
			e.keyGroups = 4096
		}
	}
	e.maxSize = lib.Pick(r, []int{1, 2, 3, 5, 8, 16})
	e.hasDelay = r.Intn(2) == 0
	e.tuning = vhook.TuningValues{
		MemTableSize: uint64(lib.Pick(r, []int{120, 300, 1000, 1 << 20})), MaxWALSize: uint64(lib.Pick(r, []int{200, 1 << 20})),
		TargetFileSize: uint64(lib.Pick(r, []int{200, 1 << 20})), L0TableNumCompactionTrigger: lib.Pick(r, []int{1, 2, 4}),
		TuneCompactor: true, MaxSizeAmplificationPercent: lib.Pick(r, []int{0, 50, 200}), SmallestLevelSize: int64(lib.Pick(r, []int{200, 256 << 20})), LevelSizeMultiplier: 10,
	}
	if e.keyGroups == 65535 {
		// every deploy scans each of the 65535 key groups: with table files on disk that is minutes per deploy,
		// so these cases keep the state in the memtable (their point is the key-group arithmetic, not the LSM)
		e.tuning.MemTableSize, e.tuning.MaxWALSize, e.tuning.TargetFileSize = 1<<20, 1<<20, 1<<20
	}
	if fl.tinyCache {
		// bytes for the whole operator, divided by the number of key groups it owns
		e.tuning.TimerCacheBytes = uint64(lib.Pick(r, []int{1, 40, 40 * e.keyGroups, 200 * e.keyGroups, 1 << 30}))
	}
	vhook.SetTuning(&e.tuning)
	e.location = filepath.Join(c.Dir, "store")
	os.MkdirAll(e.location, 0o755)
	e.h = ophar.NewHandler("h")
	e.h.TimerProg = timerProgFor(c.Seed + int64(c.Index))
	e.job = &ophar.JobRec{Handler: func(string) *ophar.Handler { return e.h }}
	// the ack is sent from the operator's single event loop: everything the handler returned before is
	// inside the checkpoint, nothing after (M4): freeze the shadow at that instant
	e.job.OnAck = func(ophar.Ack) { e.ackShadow = e.h.ShadowSnapshot(nil) }
	e.model = ophar.NewModel(e.senders, e.maxSize, e.hasDelay, e.h.TimerProg)
	e.model.Observe = func(pos int) *ophar.Ev {
		for _, c := range e.h.Calls(0) {
			if pos < len(c.Events) {
				ev := c.Events[pos]
				return &ev
			}
			pos -= len(c.Events)
		}
		return nil
	}
	e.opID = "op-a"
	e.parked = map[string]chan struct{}{}
	e.released = map[string]int{}
	if fl.concurrent {
		vhook.Set(func(name string, arg any) {
			s, _ := arg.(string)
			switch name {
			case "operator.align.parked":
				e.hookMu.Lock()
				if ch := e.parked[s]; ch != nil {
					close(ch)
					delete(e.parked, s)
				}
				e.hookMu.Unlock()
			case "operator.align.released":
				e.hookMu.Lock()
				e.released[s]++
				e.hookMu.Unlock()
			}
		})
	}
	e.startNode(nil)
	return e
}

func (e *scriptEnv) startNode(ckpts []*snapshotpb.OperatorCheckpoint) {
	delay := time.Duration(0)
	if e.hasDelay {
		delay = time.Hour // the harness timer decides when it fires
	}
	e.completed = map[string]bool{}
	np := ophar.NodeParams{ID: e.opID, Job: e.job, Handler: e.h, MaxSize: e.maxSize, MaxDelay: delay}
	if e.lagLog != nil {
		np.Logger = slog.New(e.lagLog) // a slow log sink: every log call of the operator is a possible delay
	}
	e.node = ophar.StartNode(np)
	if err := e.node.Deploy([]string{e.opID}, e.senders, e.keyGroups, e.location, ckpts); err != nil {
		e.c.Fail("deploy-error", e.wit(), "HandleDeploy: %v", err)
	}
}

func (e *scriptEnv) close() {
	if e.node != nil {
		e.node.Kill()
	}
	vhook.SetTuning(nil)
	vhook.Set(nil)
	runtime.KeepAlive(e.pinned)
}

// check matches new handler calls against the model and collects handler assertion failures.
func (e *scriptEnv) check() {
	if ps := e.h.Problems(); len(ps) > 0 {
		p := ps[0]
		e.c.Fail(p.Kind, e.wit(), "%s", p.Detail)
	}
	calls := e.h.Calls(0)
	if kind, detail := e.matcher.Match(e.model.Batches, calls, e.model.OpenGroup()); kind != "" {
		e.c.Fail(kind, e.wit("model_pending_timers", fmtTimers(e.model.Timers)), "%s", detail)
	}
}

// sync waits until the handler has been invoked as often as the model predicts.
func (e *scriptEnv) sync() {
	want := len(e.model.Batches)
	if !e.h.WaitCalls(want, ophar.Watchdog) {
		got := e.h.NCalls()
		// before calling it a violation make sure nothing is still in flight: a keyed/watermark/barrier
		// HandleEvent has returned, so the event loop has run the step; only a time-out flush is asynchronous
		e.c.Fail("missing-handler-call", e.wit("model_pending_timers", fmtTimers(e.model.Timers)), "the model predicts %d handler invocations so far (last: %s with %v), the handler saw %d", want,
			e.model.Batches[want-1].Why, e.model.Batches[want-1].Events, got)
	}
	e.check()
}

func fmtTimers(m map[string]int64) []string {
	var out []string
	for id, t := range m {
		out = append(out, fmt.Sprintf("%q@%d", id[:len(id)-len(fmt.Sprintf("\x00%d", t))], t))
	}
	sort.Strings(out)
	return out
}

func (e *scriptEnv) freeSenders() []string {
	var out []string
	for _, s := range e.senders {
		if !e.blocked[s] && !e.completed[s] {
			out = append(out, s)
		}
	}
	return out
}

func (e *scriptEnv) genProgram() ophar.Program {
	r := e.r
	var p ophar.Program
	n := 1 + r.Intn(3)
	for i := 0; i < n; i++ {
		total := e.fl.mutations + e.fl.timers + 1
		x := r.Intn(total)
		switch {
		case x < e.fl.mutations:
			in := ophar.Instr{NS: lib.Pick(r, e.nss), EK: lib.Pick(r, e.eks)}
			if r.Intn(4) == 0 {
				in.Op = "DEL"
			} else {
				in.Op = "PUT"
				in.V = e.vg.Next(r, lib.Pick(r, []int{0, 10, 60}))
				if r.Intn(10) == 0 {
					in.V = []byte{}
				}
			}
			p = append(p, in)
		case x < e.fl.mutations+e.fl.timers:
			base := e.model.Composite
			var t int64
			switch r.Intn(6) {
			case 0:
				t = base - int64(r.Intn(3))*1000 // at or below the watermark: must be ignored
				if t <= 0 {
					t = base + 1000
				}
			case 1:
				t = base + 1 // just above
			default:
				t = base + int64(1+r.Intn(40))*1000
			}
			if e.fl.reRegister && len(e.model.Timers) > 0 && r.Intn(2) == 0 {
				// identical re-registration of a pending timer of some key: only meaningful for the same key,
				// so the caller picks the key from the timer id when this instruction leads the program
				for _, tt := range e.model.Timers {
					t = tt
					break
				}
			}
			p = append(p, ophar.Instr{Op: "TIMER", T: t})
		default:
			p = append(p, ophar.Instr{Op: "SINK", V: []byte("s")})
		}
	}
	return p
}

func (e *scriptEnv) stepKeyed() {
	free := e.freeSenders()
	if len(free) == 0 {
		return
	}
	s := lib.Pick(e.r, free)
	key := lib.Pick(e.r, e.keys)
	p := e.genProgram()
	if e.fl.reRegister && e.r.Intn(3) == 0 {
		// re-register one pending timer of this very key 1..50 times
		for id, t := range e.model.Timers {
			k := id[:len(id)-len(fmt.Sprintf("\x00%d", t))]
			key = []byte(k)
			n := 1 + e.r.Intn(4)
			if e.r.Intn(8) == 0 {
				n = 50
			}
			p = nil
			for i := 0; i < n; i++ {
				p = append(p, ophar.Instr{Op: "TIMER", T: t})
			}
			e.c.Feat("identical_timer_reregistrations", int64(n))
			break
		}
	}
	e.evN++
	id := fmt.Sprintf("e%d", e.evN)
	ts := e.model.Vector[s] + int64(e.r.Intn(5000))
	e.logOp("%s: keyed(%q,%s,%s)", s, key, id, fmtProg(p))
	if err := e.node.Send(s, ophar.KeyedEvent(key, id, p, ts)); err != nil {
		e.c.Fail("handle-event-error", e.wit(), "HandleEvent(keyed): %v", err)
	}
	e.model.Keyed(key, id, p, ts)
	e.sync()
}

func fmtProg(p ophar.Program) string {
	s := ""
	for _, in := range p {
		switch in.Op {
		case "PUT":
			s += fmt.Sprintf(" PUT[%q/%q=%q]", in.NS, in.EK, trunc(in.V))
		case "DEL":
			s += fmt.Sprintf(" DEL[%q/%q]", in.NS, in.EK)
		case "TIMER":
			s += fmt.Sprintf(" TIMER@%d", in.T)
		default:
			s += " SINK"
		}
	}
	return s
}

func trunc(b []byte) []byte {
	if len(b) > 14 {
		return append(append([]byte{}, b[:14]...), '~')
	}
	return b
}

func (e *scriptEnv) stepWatermark() {
	free := e.freeSenders()
	if len(free) == 0 {
		return
	}
	s := lib.Pick(e.r, free)
	cur := e.model.Vector[s]
	var t int64
	switch e.r.Intn(5) {
	case 0:
		t = cur // repeated watermark
	case 1:
		t = cur + 1
	case 2:
		t = cur + int64(1+e.r.Intn(200))*1000 // jump over many timers
	default:
		t = cur + int64(1+e.r.Intn(12))*1000
	}
	e.logOp("%s: watermark(%d)", s, t)
	// the operator acts first; the model then follows (it consults the observed order only inside tie groups)
	if err := e.node.Send(s, ophar.WatermarkEvent(t)); err != nil {
		e.c.Fail("handle-event-error", e.wit(), "HandleEvent(watermark): %v", err)
	}
	pend := len(e.model.Timers)
	e.model.Watermark(s, t)
	if fired := pend - len(e.model.Timers); fired > 0 {
		e.c.Feat("timers_due", int64(fired))
		if fired >= 3 {
			e.c.Feat("watermark_jumps_over_>=3_timers", 1)
		}
	}
	e.sync()
}

func (e *scriptEnv) stepTimeout() {
	if e.node.Timer.Armed() && e.r.Intn(5) > 0 {
		e.logOp("batch time-out fires")
		e.model.TimeOut()
		e.node.Timer.Fire()
		e.c.Feat("batch_timeouts", 1)
	} else if n := e.node.Timer.Armings(); n > 0 {
		i := e.r.Intn(n)
		if e.node.Timer.Armed() && i == n-1 {
			return // that one is current, not stale
		}
		e.logOp("stale batch time-out token #%d fires", i)
		e.node.Timer.FireStale(i)
		e.c.Feat("stale_tokens_fired", 1)
	}
	e.sync()
}

// stepSourceComplete: a source runner whose bounded input has ended tells the operator so. From then on it sends
// no records and no watermarks, but it still forwards the barriers of every checkpoint, and the operator still
// waits for them. (At least two runners stay active: the operator stops when the last one completes.)
func (e *scriptEnv) stepSourceComplete() {
	active := 0
	for _, s := range e.senders {
		if !e.completed[s] {
			active++
		}
	}
	free := e.freeSenders()
	if active < 3 || len(free) == 0 || len(e.blocked) > 0 {
		return
	}
	s := lib.Pick(e.r, free)
	e.logOp("%s: source complete", s)
	if len(e.model.Pending) > 0 {
		e.model.Flush("source complete")
	}
	if err := e.node.Send(s, &workerpb.Event{Event: &workerpb.Event_SourceComplete{SourceComplete: &workerpb.SourceCompleteEvent{}}}); err != nil {
		e.c.Fail("handle-event-error", e.wit(), "HandleEvent(source complete from %s): %v", s, err)
	}
	e.completed[s] = true
	e.c.Feat("source_complete_events", 1)
	e.sync()
}

// stepCheckpoint delivers the barriers of one checkpoint in a seeded order; senders that have not
// sent theirs yet keep sending events in between.
func (e *scriptEnv) stepCheckpoint() {
	e.ckptID += uint64(1 + e.r.Intn(2))
	id := e.ckptID
	order := lib.Shuffled(e.r, e.senders)
	e.logOp("checkpoint %d, barrier order %v", id, order)
	for i, s := range order {
		for k := e.r.Intn(3); k > 0 && len(e.freeSenders()) > 0; k-- {
			if e.r.Intn(3) == 0 {
				e.stepWatermark()
			} else {
				e.stepKeyed()
			}
		}
		e.logOp("%s: barrier(%d)", s, id)
		if i == len(order)-1 {
			e.model.BarrierComplete()
		}
		if err := e.node.Send(s, ophar.BarrierEvent(id)); err != nil {
			e.c.Fail("handle-event-error", e.wit(), "HandleEvent(barrier %d from %s): %v", id, s, err)
		}
		e.blocked[s] = true
	}
	e.blocked = map[string]bool{}
	e.sync()
	acks := e.job.Acks()
	if len(acks) == 0 || acks[len(acks)-1].CheckpointID != id {
		e.c.Fail("checkpoint-not-acknowledged", e.wit(), "all barriers of checkpoint %d were delivered and handled but the job saw no acknowledgement for it (acks: %v)", id, acks)
	}
	a := acks[len(acks)-1]
	e.lastAck = &a
	if a.HandlerCalls != len(e.model.Batches) {
		e.c.Fail("cut-position", e.wit(), "checkpoint %d was acknowledged after %d handler invocations, the barrier cut is after %d", id, a.HandlerCalls, len(e.model.Batches))
	}
	e.cutShadow = e.ackShadow
	e.cutTimers = e.model.TimersSnapshot()
	e.c.Feat("checkpoints", 1)
	e.verifyCheckpoint(a)
}

// verifyCheckpoint reads the operator's DKV checkpoint back and compares state rows and timer rows.
func (e *scriptEnv) verifyCheckpoint(a ophar.Ack) {
	scratch := filepath.Join(e.c.Dir, fmt.Sprintf("readback-%d-%d", a.CheckpointID, len(e.ops)))
	rows, err := ophar.ReadCheckpoint(scratch, []recovery.CheckpointHandle{{CheckpointID: a.CheckpointID, URI: a.URI}})
	if err != nil {
		e.c.Fail("checkpoint-unreadable", e.wit(), "reading checkpoint %d back: %v", a.CheckpointID, err)
	}
	got := map[string]ophar.KeyShadow{}
	gotTimers := map[string]int64{}
	for _, row := range rows {
		if want := ophar.KeyGroupOf(row.Subject, e.keyGroups); row.KeyGroup != want {
			e.c.Fail("row-under-wrong-key-group", e.wit(), "checkpoint %d: row of subject %q is stored under key group %d, its group is %d", a.CheckpointID, row.Subject, row.KeyGroup, want)
		}
		switch row.Schema {
		case 0:
			ks := got[string(row.Subject)]
			if ks == nil {
				ks = ophar.KeyShadow{}
				got[string(row.Subject)] = ks
			}
			if ks[row.NS] == nil {
				ks[row.NS] = map[string][]byte{}
			}
			v := row.Value
			if v == nil {
				v = []byte{}
			}
			ks[row.NS][string(row.EK)] = v
		case 1:
			gotTimers[fmt.Sprintf("%s\x00%d", row.Subject, row.T)] = row.T
		}
	}
	if s1, s2 := fmtShadow(got), fmtShadow(e.cutShadow); s1 != s2 {
		e.c.Fail("checkpoint-state-contents", e.wit(), "checkpoint %d holds state %s, the effects of the events before the barriers are %s", a.CheckpointID, s1, s2)
	}
	if t1, t2 := fmt.Sprint(fmtTimers(gotTimers)), fmt.Sprint(fmtTimers(e.cutTimers)); t1 != t2 {
		e.c.Fail("checkpoint-timer-contents", e.wit(), "checkpoint %d holds timers %s, pending timers at the cut are %s", a.CheckpointID, t1, t2)
	}
	e.c.Feat("checkpoints_read_back", 1)
	e.c.Feat("rows_read_back", int64(len(rows)))
}

func fmtShadow(m map[string]ophar.KeyShadow) string {
	var ks []string
	for k := range m {
		ks = append(ks, k)
	}
	sort.Strings(ks)
	s := ""
	for _, k := range ks {
		if len(m[k]) == 0 {
			continue
		}
		s += fmt.Sprintf("{%q %s}", k, m[k])
	}
	return s
}

// stepRedeploy: the operator dies and a fresh one (same or new id) is deployed from the last acknowledged checkpoint.
func (e *scriptEnv) stepRedeploy() {
	if e.lastAck == nil {
		return
	}
	// An idle operator (nothing batched, nobody parked in alignment, no background task) may also be deployed
	// again IN PLACE: the job does that with a member that stays registered while another member is replaced.
	// (With a pending batch or an in-flight checkpoint the known finding in-place-redeploy applies.)
	// (Plain builds only: HandleDeploy replaces the operator's stores under its own mutex while the event loop
	// reads them without it — the race detector reports HandleDeploy <-> processEventBatch, which is part of the
	// known finding in-place-redeploy and not what the race build of this part is looking for.)
	// (Not with a slow log sink either: "idle" is judged from outside — the handler has returned — and an event loop
	// that is delayed at a log call between the handler's return and the application of its mutations is not idle;
	// an in-place redeploy then is the known finding again. Found by C02 thorough #485.)
	if len(e.model.Pending) == 0 && len(e.blocked) == 0 && e.r.Intn(3) == 0 && !lib.RaceEnabled && e.lagLog == nil {
		lib.DKVIdle(ophar.Watchdog)
		e.redeploys++
		e.logOp("redeploy IN PLACE from checkpoint %d as %s (the same operator object receives HandleDeploy again)", e.lastAck.CheckpointID, e.opID)
		e.h.ResetShadow(e.cutShadow)
		e.model.Restart(e.senders, e.cutTimers)
		e.completed = map[string]bool{}
		if err := e.node.Deploy([]string{e.opID}, e.senders, e.keyGroups, e.location, []*snapshotpb.OperatorCheckpoint{{CheckpointId: e.lastAck.CheckpointID, OperatorId: e.lastAck.OperatorID, DkvFileUri: e.lastAck.URI,
			KeyGroupRange: &snapshotpb.KeyGroupRange{Start: int32(e.lastAck.Start), End: int32(e.lastAck.End)}}}); err != nil {
			e.c.Fail("deploy-error", e.wit(), "HandleDeploy (in place): %v", err)
		}
		e.c.Feat("redeploys_in_place", 1)
		return
	}
	old := e.node
	old.Kill()
	e.pinned = append(e.pinned, old) // a dead process: its objects are never collected, none of its cleanups runs
	sameID := e.r.Intn(2) == 0
	if !sameID {
		e.opID = fmt.Sprintf("op-%c", 'b'+e.redeploys)
	}
	e.redeploys++
	e.logOp("redeploy from checkpoint %d as %s (same id: %v)", e.lastAck.CheckpointID, e.opID, sameID)
	e.h.ResetShadow(e.cutShadow)
	e.model.Restart(e.senders, e.cutTimers)
	// handler calls keep their global numbering: predictions continue after the ones matched so far; calls
	// made after the cut by the dead incarnation stay in the record and were matched already
	e.blocked = map[string]bool{}
	// Same id = same directory = a new process of the same operator: none of the previous
	// incarnation's table cleanups may still be pending when file names get reused.
	lib.GCSettle()
	e.startNode([]*snapshotpb.OperatorCheckpoint{{CheckpointId: e.lastAck.CheckpointID, OperatorId: e.lastAck.OperatorID, DkvFileUri: e.lastAck.URI,
		KeyGroupRange: &snapshotpb.KeyGroupRange{Start: int32(e.lastAck.Start), End: int32(e.lastAck.End)}}})
	e.c.Feat("redeploys", 1)
	if sameID {
		e.c.Feat("redeploys_same_id", 1)
	}
}

func (e *scriptEnv) run(nsteps int) {
	fl := e.fl
	for i := 0; i < nsteps; i++ {
		total := 60 + fl.watermarks + 8 + 6 + 3 + 2
		if len(e.senders) >= 3 {
			total += 2
		}
		x := e.r.Intn(total)
		switch {
		case x >= 60+fl.watermarks+8+6+3+2:
			e.stepSourceComplete()
		case x < 60:
			e.stepKeyed()
		case x < 60+fl.watermarks:
			e.stepWatermark()
		case x < 60+fl.watermarks+8:
			e.stepTimeout()
		case x < 60+fl.watermarks+8+6:
			if fl.concurrent && e.r.Intn(5) > 0 {
				e.stepCheckpointConcurrent()
			} else {
				e.stepCheckpoint()
			}
		case x < 60+fl.watermarks+8+6+3:
			e.stepRedeploy()
		default:
			e.logOp("gc")
			runtime.GC()
		}
	}
	// final: drain by watermark jump (every pending timer fires), then a checkpoint, read back
	for _, s := range e.senders {
		if e.completed[s] {
			continue // its watermark stays where it was: timers beyond it stay pending and must be in the checkpoint
		}
		t := e.model.Vector[s] + 1_000_000_000
		e.logOp("%s: final watermark(%d)", s, t)
		if err := e.node.Send(s, ophar.WatermarkEvent(t)); err != nil {
			e.c.Fail("handle-event-error", e.wit(), "HandleEvent(watermark): %v", err)
		}
		e.model.Watermark(s, t)
		e.sync()
	}
	e.stepCheckpoint()
	e.touchAllKeys()
	if fl.concurrent && len(e.senders) >= 2 && e.r.Intn(2) == 0 {
		e.stepSkippedBarrier()
	}
}

// stepSkippedBarrier (C02, always the last step of a case): a checkpoint one runner never takes part in. A non-empty
// proper subset of the runners delivers barrier N; the others never got StartCheckpoint N and their next barrier
// carries a later id. Whatever the operator does with such a barrier (the pinned tree rejects it and stays in
// alignment N), it must not acknowledge a checkpoint id for which some runner has not delivered the barrier:
// that checkpoint has no cut — the runner's events up to its own barrier of that id are not in it.
func (e *scriptEnv) stepSkippedBarrier() {
	order := lib.Shuffled(e.r, e.senders)
	nA := 1 + e.r.Intn(len(order)-1)
	n := e.ckptID + 1
	later := n + uint64(1+e.r.Intn(2))
	e.ckptID = later
	acks0 := len(e.job.Acks())
	delivered := map[uint64]map[string]bool{n: {}, later: {}}
	e.logOp("checkpoint %d reaches only %v; %v send barrier(%d) next", n, order[:nA], order[nA:], later)
	for _, s := range order[:nA] {
		e.logOp("%s: barrier(%d)", s, n)
		if err := e.node.Send(s, ophar.BarrierEvent(n)); err != nil {
			e.c.Fail("handle-event-error", e.wit(), "HandleEvent(barrier %d from %s): %v", n, s, err)
		}
		delivered[n][s] = true
		e.blocked[s] = true
	}
	for _, s := range order[nA:] {
		e.logOp("%s: barrier(%d) [it never saw checkpoint %d]", s, later, n)
		done := make(chan error, 1)
		go func() { done <- e.node.Send(s, ophar.BarrierEvent(later)) }()
		select {
		case err := <-done:
			e.logOp("   -> %v", err)
		case <-time.After(2 * time.Second):
			e.logOp("   -> still being served (parked)") // allowed: nothing is decided by the clock
		}
		delivered[later][s] = true
		e.blocked[s] = true
	}
	for _, a := range e.job.Acks()[acks0:] {
		for _, s := range e.senders {
			if !delivered[a.CheckpointID][s] {
				e.c.Fail("ack-without-every-barrier", e.wit(), "the operator acknowledged checkpoint %d, but runner %s has not delivered barrier %d (barriers delivered: %d from %v, %d from %v): the checkpoint has no cut for that runner",
					a.CheckpointID, s, a.CheckpointID, n, order[:nA], later, order[nA:])
			}
		}
	}
	e.c.Feat("skipped_barrier_episodes", 1)
}

// touchAllKeys sends one no-op event per key so every key's supplied state is compared once more.
func (e *scriptEnv) touchAllKeys() {
	for _, k := range e.keys {
		e.evN++
		id := fmt.Sprintf("touch%d", e.evN)
		s := e.senders[0]
		e.logOp("%s: keyed(%q,%s) [touch]", s, k, id)
		e.model.Keyed(k, id, nil, e.model.Vector[s])
		if err := e.node.Send(s, ophar.KeyedEvent(k, id, nil, e.model.Vector[s])); err != nil {
			e.c.Fail("handle-event-error", e.wit(), "HandleEvent: %v", err)
		}
		e.sync()
	}
	e.stepCheckpoint()
}

// stepCheckpointConcurrent (C02): like stepCheckpoint, but senders that already sent their barrier
// try to deliver their next event concurrently. They must park in alignment (verif hook tells the
// scheduler, no quiet period needed) and their events must reach the handler only after the
// checkpoint has been taken.
func (e *scriptEnv) stepCheckpointConcurrent() {
	if len(e.senders) < 2 {
		e.stepCheckpoint()
		return
	}
	e.ckptID += uint64(1 + e.r.Intn(2))
	id := e.ckptID
	order := lib.Shuffled(e.r, e.senders)
	e.logOp("checkpoint %d, barrier order %v, aligned senders keep sending", id, order)
	type parkedSend struct {
		s    string
		ev   ophar.Ev
		prog ophar.Program
		wm   int64
		isWM bool
		done chan error
	}
	var parked []*parkedSend
	wmMode := e.r.Intn(4) == 0 // either one aligned sender tries a watermark, or several try keyed events
	for i, s := range order {
		for k := e.r.Intn(3); k > 0 && len(e.freeSenders()) > 0; k-- {
			if e.r.Intn(3) == 0 {
				e.stepWatermark()
			} else {
				e.stepKeyed()
			}
		}
		last := i == len(order)-1
		willPark := !last && e.r.Intn(3) != 0 && !(wmMode && len(parked) > 0) && !e.completed[s]
		// batched: the barrier and the sender's next event arrive in ONE batch (the runner's per-operator
		// batcher does not flush on a barrier), so alignment has to take hold in the middle of a batch
		batched := willPark && e.r.Intn(2) == 0
		e.logOp("%s: barrier(%d)", s, id)
		if last {
			e.model.BarrierComplete()
		}
		if !batched {
			if err := e.node.Send(s, ophar.BarrierEvent(id)); err != nil {
				e.c.Fail("handle-event-error", e.wit(), "HandleEvent(barrier %d from %s): %v", id, s, err)
			}
		}
		e.blocked[s] = true
		if !willPark {
			continue
		}
		// this aligned sender immediately tries to deliver its next event
		ps := &parkedSend{s: s, done: make(chan error, 1)}
		var wev = ophar.WatermarkEvent(0)
		if wmMode {
			ps.isWM = true
			ps.wm = e.model.Vector[s] + int64(1+e.r.Intn(60))*1000
			wev = ophar.WatermarkEvent(ps.wm)
			e.logOp("%s: watermark(%d) [sent after its barrier, must wait for the checkpoint]", s, ps.wm)
		} else {
			key := lib.Pick(e.r, e.keys)
			ps.prog = e.genProgram()
			e.evN++
			ps.ev = ophar.Ev{Kind: 'K', Key: key, ID: fmt.Sprintf("e%d", e.evN), T: e.model.Vector[s] + int64(e.r.Intn(5000))}
			wev = ophar.KeyedEvent(key, ps.ev.ID, ps.prog, ps.ev.T)
			e.logOp("%s: keyed(%q,%s,%s) [sent after its barrier, must wait for the checkpoint]", s, key, ps.ev.ID, fmtProg(ps.prog))
		}
		ch := make(chan struct{})
		e.hookMu.Lock()
		e.parked[s] = ch
		e.hookMu.Unlock()
		// the request's context: a third of the parked requests are abandoned by their caller (time-out, cancelled
		// call) while they wait in alignment — the event is still behind its sender's barrier
		rctx, abandon := context.WithCancel(context.Background())
		defer abandon()
		if batched {
			e.logOp("%s: [barrier(%d) and that event travel in one batch]", s, id)
			e.c.Feat("barrier_inside_batch", 1)
			go func() { ps.done <- e.node.SendBatchCtx(rctx, s, ophar.BarrierEvent(id), wev) }()
		} else {
			go func() { ps.done <- e.node.SendBatchCtx(rctx, s, wev) }()
		}
		select {
		case <-ch:
			e.c.Feat("senders_parked_in_alignment", 1)
			if e.r.Intn(3) == 0 {
				e.logOp("%s: [the caller of that request gives up: its context ends while the request waits in alignment]", s)
				abandon()
				e.c.Feat("parked_requests_abandoned_by_caller", 1)
				// an abandoned request must not slip its event in before the checkpoint: give it a moment to try
				select {
				case err := <-ps.done:
					ps.done <- err
					e.c.Fail("post-barrier-event-not-held", e.wit(), "sender %s delivered an event after its barrier %d; its caller gave up while the request was waiting in alignment and HandleEvent returned (%v) although %d barrier(s) are still missing: the event was accepted before checkpoint %d was taken", s, id, err, len(order)-1-i, id)
				case <-time.After(2 * time.Millisecond):
				}
			}
		case err := <-ps.done:
			e.c.Fail("post-barrier-event-not-held", e.wit(), "sender %s delivered an event after its barrier %d and HandleEvent returned (%v) although %d barrier(s) are still missing: the event was accepted before checkpoint %d was taken", s, id, err, len(order)-1-i, id)
		case <-time.After(ophar.Watchdog):
			e.c.Inconclusive("sender %s neither parked nor returned within the watchdog", s)
		}
		parked = append(parked, ps)
	}
	// the last barrier's HandleEvent has returned: checkpoint taken and acknowledged. Released senders finish now.
	acks := e.job.Acks()
	if len(acks) == 0 || acks[len(acks)-1].CheckpointID != id {
		e.c.Fail("checkpoint-not-acknowledged", e.wit(), "all barriers of checkpoint %d were delivered and handled but the job saw no acknowledgement for it (acks: %v)", id, acks)
	}
	a := acks[len(acks)-1]
	if a.HandlerCalls != len(e.model.Batches) {
		e.c.Fail("cut-position", e.wit(), "checkpoint %d was acknowledged after %d handler invocations, the barrier cut is after %d: events delivered after a sender's barrier were applied before the checkpoint (or pre-barrier events were not)", id, a.HandlerCalls, len(e.model.Batches))
	}
	for _, ps := range parked {
		select {
		case err := <-ps.done:
			if err != nil {
				e.c.Fail("handle-event-error", e.wit(), "HandleEvent of released sender %s: %v", ps.s, err)
			}
		case <-time.After(ophar.Watchdog):
			e.c.Inconclusive("released sender %s did not return within the watchdog", ps.s)
		}
	}
	e.blocked = map[string]bool{}
	e.lastAck = &a
	// the cut: state and timers as of the barrier flush (the released events are not in it)
	e.cutShadow = e.ackShadow
	e.cutTimers = e.model.TimersSnapshot()
	// now the released events take effect, in whatever order they got through
	var evs []ophar.Ev
	var progs []ophar.Program
	for _, ps := range parked {
		if !ps.isWM {
			evs = append(evs, ps.ev)
			progs = append(progs, ps.prog)
		}
	}
	for _, ps := range parked {
		if ps.isWM {
			e.model.Watermark(ps.s, ps.wm)
		}
	}
	if len(evs) > 0 {
		e.model.KeyedUnordered(evs, progs)
	}
	e.sync()
	e.c.Feat("checkpoints", 1)
	e.c.Feat("concurrent_checkpoints", 1)
	e.verifyCheckpoint(a)
}
