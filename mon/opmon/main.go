package main

import (
	"log/slog"

	"verif/lib"
	"verif/ophar"
)

func n(q, t int) func(string) int {
	return func(tier string) int {
		if tier == "thorough" {
			return t
		}
		return q
	}
}

var opAssume = []string{
	"events are delivered to the operator one HandleEvent at a time (serialised senders), so the sequential model is the specification; concurrent senders are the subject of the C02 part",
	"the handler is the harness: it asserts the supplied KeyStates against the fold of the mutations it returned (shadow), at the exact observable the property names",
	"a killed operator is a dead process: its objects are pinned and no cleanup of it runs; an IDLE operator object is also deployed again in place (plain builds, a third of the redeploy steps)",
	"timers and watermarks use timestamps > epoch (the statement's domain)",
}

const scriptRule = "scripts of 60..220 steps against one real operator.Operator (local-directory storage, dkv tuned so memtable rotation/flush/compaction happen every few batches): keyed events carrying programs (PUT/DEL over 5 namespaces incl. \"\" and 255 bytes, prefix-related binary entry keys, unique values, empty values; TIMER above/at/below the watermark; SINK), watermarks from 1..4 senders (repeat, +1ns, jumps over many timers), batch sizes {1,2,3,5,8,16}, harness-fired batch time-outs and stale time-out tokens, checkpoints with every barrier order and events of not-yet-aligned senders in between, kill + redeploy of a fresh operator (same id = same directory, or new id) from the last acknowledged checkpoint; oracle after every step: (a) handler-side: supplied KeyStates == shadow for exactly the distinct keys of the batch, (b) the sequence of handler invocations (events per batch, timer tie groups, watermark told) == sequential model, (c) every acknowledged checkpoint read back from its DKV files: state rows == shadow at the cut, timer rows == pending timers at the cut, every row under murmur(key) mod groups; non-trivial = >=1 checkpoint read back and >=10 handler invocations; distinct by script hash"

func main() {
	slog.SetDefault(ophar.QuietLog)
	lib.Main(
		&lib.Prop{ID: "C03", Part: "state", Level: "exploration", NCases: n(60, 3000), Assumptions: opAssume,
			Rule: "[mutation-heavy] " + scriptRule,
			Run: func(c *lib.Ctx) {
				runScript(c, flavour{prop: "C03", mutations: 12, timers: 2, watermarks: 6, bigNamespace: true})
			}},
		&lib.Prop{ID: "C10", Part: "timers", Level: "exploration", NCases: n(60, 3000), Assumptions: opAssume,
			Rule: "[timer-heavy, timer cache tuned to {1 B, 40 B, 40 B/group, 200 B/group, 1 GB} through the verif hook, identical re-registration 1..50 times] " + scriptRule,
			Run: func(c *lib.Ctx) {
				runScript(c, flavour{prop: "C10", mutations: 3, timers: 12, watermarks: 22, tinyCache: true, reRegister: true})
			}},
		&lib.Prop{ID: "C11", Part: "operator-watermarks", Level: "exploration", NCases: n(50, 2500), Assumptions: opAssume,
			Rule: "[2..4 senders, watermark-heavy] " + scriptRule,
			Run: func(c *lib.Ctx) {
				runScript(c, flavour{prop: "C11", mutations: 3, timers: 8, watermarks: 40, manySenders: true, tinyCache: true})
			}},
		&lib.Prop{ID: "C02", Part: "alignment", Level: "exploration", NCases: n(80, 4000),
			Assumptions: append([]string{"the job never starts checkpoint N+1 before N completed, so barriers of two checkpoints never overlap except in the last step (a runner that missed checkpoint N)", "the verif hook in alignSender only reports that a sender parked / was released; a sender that is NOT held is detected by its HandleEvent returning before the last barrier"}, opAssume[1:]...),
			Rule:        "[2..4 senders; 4 of 5 checkpoints are concurrent: after its barrier a sender immediately tries to deliver its next event (several senders with keyed events, or one sender with a watermark whose timers are due) from its own goroutine, exactly like the embedded client] " + scriptRule + "; extra oracle: an aligned sender must park (hook) and not return until the last barrier was handled; the acknowledgement must come after exactly the handler invocations of the pre-barrier events (cut position); the DKV checkpoint named in the ack read back == shadow frozen at the ack; released events reach the handler after the cut in any order among themselves; in half of the aligned-sender episodes barrier and next event travel in ONE batch through the embedded operator client; some parked requests are abandoned by their caller (context cancelled) and their event must still not reach the handler before the cut; half of the cases give the operator a slow log sink (a seeded fraction of its log calls yields or sleeps up to 2 ms: every log call is a possible delay); with >=3 runners one of them may send SourceComplete: it sends no more records or watermarks, its barriers are still awaited; last step of half of the cases: a checkpoint that reaches only some runners (they deliver barrier N) while the others deliver a barrier with a later id next — no acknowledgement may appear for an id whose barrier some runner has not delivered (the only overlap of two checkpoint ids a lost StartCheckpoint can produce)",
			Run: func(c *lib.Ctx) {
				runScript(c, flavour{prop: "C02", mutations: 8, timers: 6, watermarks: 14, manySenders: true, concurrent: true})
			}},
		&lib.Prop{ID: "C06", Part: "assign-ranges", Level: "exploration", NCases: n(300, 20000), Run: c06AssignRanges,
			Rule: "partitioning.AssignRanges(to, from) for key-group counts {4,7,12,256,1000,65535}, 1..6 old and 1..6 new operators, EVERY permutation of the recorded old ranges, compared with the brute-force overlap relation; non-trivial = >=2 old operators; distinct by (groups, m, n)"},
		&lib.Prop{ID: "C06", Part: "rescale", Level: "exploration", NCases: n(40, 2500), Run: c06Rescale,
			Assumptions: append([]string{"no source runners: the harness routes each key to the operator owning its group (routing itself is C05/C04)", "operator count <= key-group count (an assembly with an empty range cannot be deployed)"}, opAssume[1:]...),
			Rule:        "chains M->N(->P->Q) of real operator assemblies (M,N in 1..4, thorough up to 6; key groups {4,7,256,1000}; 1..2 senders; dkv tuned so pre-checkpoint state is in memtables only / flushed / compacted): history of keyed events with programs + watermarks broadcast to every operator, job checkpoint (every operator acknowledges), all operators killed, N fresh operators (new ids; survivor ids = same directory only when the known finding in-place-redeploy is not listed) deployed with exactly the checkpoint assignment jobs.Assembly.Deploy computes (AssignRanges over the acknowledgements in a SEEDED ORDER), every key touched once after the restore, more history, next job checkpoint; oracles: AssignRanges vs brute-force overlap; handler-side KeyStates == shadow (lost or foreign state), per-operator sequential model of handler invocations incl. timers (lost / foreign / duplicated timers), each operator's next checkpoint read back and compared with shadow and pending timers restricted to its key groups; non-trivial = always; distinct by (chain, groups, ops) hash"},
		&lib.Prop{ID: "C09", Part: "operators", Level: "exploration", NCases: n(30, 1500), Run: c09Operators,
			Assumptions: append([]string{"neighbour NeedsTable answers follow a seeded policy per ordered operator pair: truth / error / delay / unreachable", "file existence is checked on the local directory storage (os.Stat)"}, opAssume[1:]...),
			Rule:        "M (1..3) operators -> N (2..4) operators rescale so that tables are shared (optionally with history and GC before the first checkpoint, and a NeedsTable question to a registered but not yet deployed operator, which must fail rather than answer 'not needed'), then 2..5 rounds of history + job checkpoint + retention update to the newest checkpoint + waiting for compactions + forced GC, with every neighbour's NeedsTable answering by policy (truth/error/delay/unreachable in every combination over the ordered pairs); after every round every file referenced by each live operator's saved checkpoints document (WALs and tables of retained checkpoints) or by its live level set (verif accessor) must exist on disk, and every key is touched so the handler-side state oracle reads through the shared tables; non-trivial = always; distinct by ops hash"},
	)
}

func runScript(c *lib.Ctx, fl flavour) {
	e := newScriptEnv(c, fl)
	defer e.close()
	c.OnPanic = func() any { return e.wit() }
	e.run(60 + c.R.Intn(160))
	c.Feat("handler_invocations", int64(e.h.NCalls()))
	c.Feat("events", int64(e.evN))
	c.SetSig(e.h.NCalls() >= 10, fl.prop, e.ops)
	if c.Index < 2 {
		ops := e.ops
		if len(ops) > 40 {
			ops = ops[:40]
		}
		c.Sample(map[string]any{"senders": e.senders, "key_groups": e.keyGroups, "max_batch": e.maxSize, "ops_prefix": ops, "total_ops": len(e.ops)})
	}
}
