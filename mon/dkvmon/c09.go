package main

import (
	"encoding/json"
	"errors"
	"fmt"
	"hash/fnv"
	"runtime"
	"sort"
	"sync"
	"time"

	"reduction.dev/reduction/dkv"
	"reduction.dev/reduction/dkv/recovery"
	"reduction.dev/reduction/dkv/storage"
	"verif/lib"
)

// C09 (dkv level): files referenced by retained checkpoints or live level sets are never deleted or
// rewritten; WAL files of dropped checkpoints are removed (DESIGN §6 C09).

type ckptDoc struct {
	Checkpoints []struct {
		ID   uint64 `json:"id"`
		WALs []struct {
			URI string `json:"uri"`
		} `json:"wals"`
		Levels [][]struct {
			URI string
		} `json:"levels"`
	} `json:"checkpoints"`
}

type liveDB struct {
	name    string
	db      *dkv.DB
	listURI string // URI of its latest saved `checkpoints` file ("" = none saved yet)
	model   *lib.RefMap
	own     func(k []byte) bool
	late    *lateOwn
	view    *lib.GateFS // the file system view (working directory) it was opened on
}

type refMon struct {
	c        *lib.Ctx
	gfs      *lib.GateFS
	firstSig map[string]string // uri -> hash when it first became referenced
	checks   int
}

// check verifies the reference set of the given live databases.
func (m *refMon) check(when string, dbs []*liveDB, wit func() map[string]any) {
	refs := map[string]string{}
	var pins []any // the described level lists stay referenced until existence was checked (no check-then-delete window)
	defer func() { runtime.KeepAlive(pins) }()
	for _, l := range dbs {
		lay := l.db.VerifLayout()
		pins = append(pins, lay.Pin)
		for li, lvl := range lay.Levels {
			for _, t := range lvl {
				refs[t.URI] = fmt.Sprintf("live level set of %s (L%d)", l.name, li)
			}
		}
		if l.listURI == "" {
			continue
		}
		content, ok := m.gfs.Content(l.listURI)
		if !ok {
			m.c.Fail("checkpoints-file-missing", wit(), "%s: the checkpoints file %s of live database %s does not exist", when, l.listURI, l.name)
		}
		var doc ckptDoc
		lib.Must(json.Unmarshal(content, &doc))
		for _, cp := range doc.Checkpoints {
			for _, w := range cp.WALs {
				refs[w.URI] = fmt.Sprintf("WAL of retained checkpoint %d of %s", cp.ID, l.name)
			}
			for _, lvl := range cp.Levels {
				for _, t := range lvl {
					if _, ok := refs[t.URI]; !ok {
						refs[t.URI] = fmt.Sprintf("table of retained checkpoint %d of %s", cp.ID, l.name)
					}
				}
			}
		}
	}
	uris := make([]string, 0, len(refs))
	for u := range refs {
		uris = append(uris, u)
	}
	sort.Strings(uris)
	for _, u := range uris {
		exists, hash := m.gfs.Exists(u)
		if !exists {
			m.c.Fail("referenced-file-deleted", wit(), "%s: %s is missing, it is referenced as %s", when, u, refs[u])
		}
		if first, ok := m.firstSig[u]; !ok {
			m.firstSig[u] = hash
		} else if first != hash {
			m.c.Fail("referenced-file-rewritten", wit(), "%s: %s was rewritten with other content while referenced as %s", when, u, refs[u])
		}
	}
	m.checks++
	m.c.Feat("reference_checks", 1)
	m.c.Feat("references_checked", int64(len(uris)))
}

func walsOf(gfs *lib.GateFS, listURI string) map[uint64][]string {
	out := map[uint64][]string{}
	content, ok := gfs.Content(listURI)
	if !ok {
		return out
	}
	var doc ckptDoc
	lib.Must(json.Unmarshal(content, &doc))
	for _, cp := range doc.Checkpoints {
		for _, w := range cp.WALs {
			out[cp.ID] = append(out[cp.ID], w.URI)
		}
	}
	return out
}

// ---------------------------------------------------------------- family A: one database lifetime

func c09Single(c *lib.Ctx) {
	e := newEnv(c, 3+c.R.Intn(9), 20)
	defer e.close()
	r := e.r
	mon := &refMon{c: c, gfs: e.gfs, firstSig: map[string]string{}}
	me := &liveDB{name: "db", db: e.db, model: e.model}
	live := []*liveDB{me}
	wit := func() map[string]any {
		return e.wit("fs_log_tail", fmtLog(e.gfs.Log(), e.gfs.LogLen()-30, e.gfs.LogLen()))
	}
	var cks []*ckpt
	nsteps := 80 + r.Intn(250)
	for step := 0; step < nsteps; step++ {
		switch x := r.Intn(100); {
		case x < 80:
			e.randomWrite()
			if r.Intn(4) == 0 {
				e.randomRead()
			}
		case x < 87:
			ck := e.takeCheckpoint("sync")
			ck.owner = e.db
			e.awaitHandle(ck)
			me.listURI = ck.h.URI
			cks = append(cks, ck)
			mon.check(fmt.Sprintf("after checkpoint %d", ck.id), live, wit)
		case x < 92:
			var have []*ckpt
			for _, ck := range cks {
				if ck.retained {
					have = append(have, ck)
				}
			}
			if len(have) == 0 {
				continue
			}
			before := walsOf(e.gfs, me.listURI)
			e.retain(have)
			after := walsOf(e.gfs, me.listURI)
			stillNeeded := map[string]bool{}
			for _, ws := range after {
				for _, w := range ws {
					stillNeeded[w] = true
				}
			}
			for id, ws := range before {
				if _, kept := after[id]; kept {
					continue
				}
				for _, w := range ws {
					if ex, _ := e.gfs.Exists(w); ex && !stillNeeded[w] {
						c.Fail("dropped-wal-not-removed", wit(), "after UpdateRetainedCheckpoints returned, WAL %s of dropped checkpoint %d still exists", w, id)
					}
					c.Feat("dropped_wals_checked", 1)
				}
			}
			mon.check("after retention update", live, wit)
		case x < 96:
			e.gcSettle()
			mon.check("after forced GC", live, wit)
		default:
			e.waitTasks()
			e.gcSettle()
			mon.check("quiescent after GC", live, wit)
			e.readAll("quiescent after GC")
		}
	}
	e.waitTasks()
	e.gcSettle()
	mon.check("end", live, wit)
	e.readAll("end")
	// every retained checkpoint must still restore (pins nothing: the source stays alive as `e.db`)
	for _, ck := range cks {
		if ck.retained {
			e.restoreCheck(ck, false)
		}
	}
	c.SetSig(len(cks) > 0 && mon.checks > 3, e.o, fmt.Sprint(e.ops))
	if c.Index < 2 {
		c.Sample(map[string]any{"family": "single lifetime", "options": e.o, "ops_prefix": firstN(e.ops, 30), "total_ops": len(e.ops)})
	}
}

// ---------------------------------------------------------------- family B: restored databases sharing tables

// shareOwn mirrors what the operator's partition does: keys are owned by hash, a table is
// exclusively owned unless a live peer still needs it (peer.NeedsTable).
type shareOwn struct {
	idx, n int
	owns   func(k []byte) bool // when set: replaces the idx/n share (a database that took over several shares)
	peers  func() []*liveDB
	self   func() *liveDB
	asked  *int64
}

// tablesOfHandle: the table files the checkpoint behind a handle references (read from its checkpoints file).
func tablesOfHandle(gfs *lib.GateFS, h recovery.CheckpointHandle) []string {
	content, ok := gfs.Content(h.URI)
	if !ok {
		return nil
	}
	var doc ckptDoc
	lib.Must(json.Unmarshal(content, &doc))
	var out []string
	for _, cp := range doc.Checkpoints {
		if cp.ID != h.CheckpointID {
			continue
		}
		for _, lvl := range cp.Levels {
			for _, t := range lvl {
				out = append(out, t.URI)
			}
		}
	}
	return out
}

// checkNeedsRestored: a database that was opened from checkpoint handles and has not taken a checkpoint of its
// own yet answers NeedsTable with true for every table those checkpoints reference (it is the only thing that
// keeps a neighbour from deleting them).
func checkNeedsRestored(c *lib.Ctx, gfs *lib.GateFS, l *liveDB, hs []recovery.CheckpointHandle, wit func() map[string]any) {
	for i, h := range hs {
		for _, uri := range tablesOfHandle(gfs, h) {
			if !l.db.NeedsTable(uri) {
				c.Fail("needs-table-false-for-restored-table", wit(), "%s was opened from %d checkpoint handle(s); NeedsTable(%s) is false although checkpoint %d of handle #%d (%s) references that table and is this database's only recovery point", l.name, len(hs), uri, h.CheckpointID, i+1, h.URI)
			}
			c.Feat("needs_table_answers_checked", 1)
		}
	}
}

func ownerOf(k []byte, n int) int {
	h := fnv.New32a()
	h.Write(k)
	return int(h.Sum32() % uint32(n))
}

func (s *shareOwn) OwnsKey(key []byte) bool {
	if s.owns != nil {
		return s.owns(key)
	}
	return ownerOf(key, s.n) == s.idx
}

func (s *shareOwn) ExclusivelyOwnsTable(uri string, startKey, endKey []byte) (bool, error) {
	*s.asked++
	for _, p := range s.peers() {
		if p == s.self() {
			continue
		}
		if p.db.NeedsTable(uri) {
			return false, nil
		}
	}
	return true, nil
}

func c09Shared(c *lib.Ctx) { c09SharedMode(c, false) }

// c09ScaleInOwnDir: the shared family with the scale-in phase forced into its rarest shape: one database is ahead
// of its neighbours in WAL numbers (aborted job checkpoints), the in-process successor runs in the directory of one
// of its predecessors, and it takes up to four checkpoints of its own before the inherited one is dropped.
func c09ScaleInOwnDir(c *lib.Ctx) { c09SharedMode(c, true) }

func c09SharedMode(c *lib.Ctx, ownDir bool) {
	e := newEnv(c, 4+c.R.Intn(9), 20)
	defer e.close()
	r := e.r
	mon := &refMon{c: c, gfs: e.gfs, firstSig: map[string]string{}}
	wit := func() map[string]any {
		return e.wit("fs_log_tail", fmtLog(e.gfs.Log(), e.gfs.LogLen()-30, e.gfs.LogLen()))
	}
	// phase 1: the source database builds state reaching SST files, takes checkpoint N
	for i := 30 + r.Intn(150); i > 0; i-- {
		e.randomWrite()
	}
	if r.Intn(2) == 0 {
		e.waitTasks()
	}
	src := e.takeCheckpoint("sync")
	src.owner = e.db
	e.awaitHandle(src)
	e.waitTasks()
	dropSource := !lib.Known("old-instance-gc") && r.Intn(3) > 0
	if !dropSource {
		// the source is a dead process: its objects are never collected (no cleanup of it ever runs)
		e.pinned = append(e.pinned, e.db)
	}
	// phase 2: n databases restored from N, each owning a share of the keys, sharing N's tables
	n := 2 + r.Intn(2)
	var live []*liveDB
	var asked int64
	for i := 0; i < n; i++ {
		view, dir := e.fsView(false)
		l := &liveDB{name: dir, model: lib.NewRefMap(), view: view}
		idx := i
		l.own = func(k []byte) bool { return ownerOf(k, n) == idx }
		for _, kv := range src.snap.All() {
			if l.own(kv.K) {
				l.model.Put(kv.K, kv.V)
			}
		}
		opts := e.dbOpts(view)
		opts.DataOwnership = &shareOwn{idx: i, n: n, peers: func() []*liveDB { return live }, self: func() *liveDB { return l }, asked: &asked}
		e.logOp("restore(%d) into %s owning share %d/%d", src.id, dir, i, n)
		l.db = dkv.Open(opts, []recovery.CheckpointHandle{*src.h})
		live = append(live, l)
		checkNeedsRestored(c, e.gfs, l, []recovery.CheckpointHandle{*src.h}, wit)
	}
	if dropSource {
		// in-place redeploy: the previous database object of the process is dropped once its successors are
		// open (Operator.HandleDeploy keeps the old one referenced until dkv.Open has returned) and is
		// collected while its files are shared with them
		c.Feat("source_instance_dropped_in_process", 1)
		src.owner = nil
		e.setDB(nil) // tasks were waited for above
		e.gcSettle()
	}
	readShare := func(l *liveDB, what string) {
		var ownKeys [][]byte
		for _, k := range e.keys {
			if l.own(k) {
				ownKeys = append(ownKeys, k)
			}
		}
		for _, k := range ownKeys {
			checkGetOn(c, l.db, l.model, k, what+" "+l.name, wit)
		}
		// scans: restrict the expectation to owned keys (a restored database may still hold foreign rows in shared tables)
		var scanErr error
		got := lib.NewRefMap()
		for en := range l.db.ScanPrefix(nil, &scanErr) {
			if l.own(en.Key()) {
				got.Put(en.Key(), en.Value())
			}
		}
		if scanErr != nil {
			c.Fail("scan-error", wit(), "%s %s: ScanPrefix(nil): %v", what, l.name, scanErr)
		}
		if !lib.EqualKVs(got.All(), l.model.All()) {
			c.Fail("scan-mismatch", wit(), "%s %s: owned rows of ScanPrefix(nil) = %v, model %v", what, l.name, lib.FmtKVs(got.All()), lib.FmtKVs(l.model.All()))
		}
	}
	for _, l := range live {
		readShare(l, "after restore")
	}
	mon.check("after restore", live, wit)
	// phase 3: the restored databases work on, compact shared tables away, checkpoint, drop N
	nextID := src.id + 1
	kept := map[*liveDB][]uint64{}
	for _, l := range live {
		kept[l] = []uint64{src.id}
	}
	steps := 40 + r.Intn(200)
	for s := 0; s < steps; s++ {
		l := lib.Pick(r, live)
		switch x := r.Intn(100); {
		case x < 80:
			var ownKeys [][]byte
			for _, k := range e.keys {
				if l.own(k) {
					ownKeys = append(ownKeys, k)
				}
			}
			if len(ownKeys) == 0 {
				continue
			}
			k := lib.Pick(r, ownKeys)
			if r.Intn(4) == 0 {
				e.logOp("%s.del(%q)", l.name, k)
				l.db.Delete(k)
				l.model.Delete(k)
			} else {
				v := e.vg.Next(r, 20)
				e.logOp("%s.put(%q,%q)", l.name, k, v)
				l.db.Put(k, v)
				l.model.Put(k, v)
			}
		case x < 88:
			// a job checkpoint: every live database checkpoints the same id
			id := nextID
			nextID++
			for _, d := range live {
				e.logOp("%s.checkpoint(%d)", d.name, id)
				h, err := d.db.Checkpoint(id)()
				if err != nil {
					c.Fail("checkpoint-error", wit(), "%s checkpoint %d: %v", d.name, id, err)
				}
				d.listURI = h.URI
				kept[d] = append(kept[d], id)
			}
			mon.check(fmt.Sprintf("after job checkpoint %d", id), live, wit)
			c.Feat("job_checkpoints", 1)
		case x < 93:
			// the job tells everybody to retain only the latest (or the latest two)
			ids := kept[l]
			if len(ids) < 2 {
				continue
			}
			keepN := 1 + r.Intn(2)
			if keepN > len(ids) {
				keepN = len(ids)
			}
			keep := ids[len(ids)-keepN:]
			for _, d := range live {
				if d.listURI == "" {
					continue
				}
				e.logOp("%s.retain(%v)", d.name, keep)
				if err := d.db.UpdateRetainedCheckpoints(keep); err != nil {
					c.Fail("retain-error", wit(), "%s: UpdateRetainedCheckpoints(%v): %v", d.name, keep, err)
				}
				kept[d] = append([]uint64{}, keep...)
			}
			mon.check("after retention update", live, wit)
			c.Feat("retention_updates", 1)
		case x < 97:
			for _, d := range live {
				e.waitDB(d.db)
			}
			e.gcSettle()
			mon.check("after forced GC", live, wit)
			for _, d := range live {
				readShare(d, "after forced GC")
			}
		default:
			readShare(l, "during history")
		}
	}
	// phase 4 (half of the cases): scale-in. Every database takes one more checkpoint and dies (a dead process:
	// pinned, none of its cleanups runs). With three databases d1,d2,d3 two successors take over: A, in another
	// process (its table objects do not count as references here), opened from the checkpoints of d1 and d2, and B,
	// in this process, opened from those of d2 and d3 — so A and B share d2's tables, which A knows from its SECOND
	// handle. B works on, compacts shared tables away, its table objects are collected and its cleanups ask A.
	// With two databases one successor is opened from both checkpoints.
	if len(live) >= 2 && (ownDir || r.Intn(2) == 0) {
		// (a third of these cases) one database first takes part in one to three job checkpoints that the others never
		// reach (the job aborts them): its WAL numbers run ahead of its neighbours'
		if ownDir || r.Intn(3) == 0 {
			d := lib.Pick(r, live)
			for k := 1 + r.Intn(3); k > 0; k-- {
				aid := nextID
				nextID++
				e.logOp("%s.checkpoint(%d) (aborted by the job, nobody else takes it)", d.name, aid)
				h, err := d.db.Checkpoint(aid)()
				if err != nil {
					c.Fail("checkpoint-error", wit(), "%s checkpoint %d: %v", d.name, aid, err)
				}
				d.listURI = h.URI
				if r.Intn(2) == 0 {
					key := lib.Pick(r, e.keys)
					if d.own(key) {
						v := e.vg.Next(r, 20)
						d.db.Put(key, v)
						d.model.Put(key, v)
					}
				}
			}
			mon.check("after aborted job checkpoints of one database", live, wit)
			c.Feat("aborted_job_checkpoints_of_one_database", 1)
		}
		id := nextID
		nextID++
		for _, d := range live {
			e.logOp("%s.checkpoint(%d)", d.name, id)
			h, err := d.db.Checkpoint(id)()
			if err != nil {
				c.Fail("checkpoint-error", wit(), "%s checkpoint %d: %v", d.name, id, err)
			}
			d.listURI = h.URI
			kept[d] = append(kept[d], id)
		}
		for _, d := range live {
			e.waitDB(d.db)
			e.pinned = append(e.pinned, d.db) // dead process
		}
		old := lib.Shuffled(r, live)
		handle := func(d *liveDB) recovery.CheckpointHandle {
			return recovery.CheckpointHandle{CheckpointID: id, URI: d.listURI}
		}
		// sameDirAs != nil: the successor runs under the operator id of that predecessor, i.e. in its working directory
		// (Options.ID / a restarted worker): the merged checkpoint's files of that predecessor are its own files.
		successor := func(otherProcess bool, sameDirAs *liveDB, own func(k []byte) bool, srcs ...*liveDB) *liveDB {
			var view *lib.GateFS
			var dir string
			if sameDirAs != nil {
				view, dir = sameDirAs.view, sameDirAs.name
				c.Feat("scale_in_successor_in_predecessor_directory", 1)
			} else {
				view, dir = e.fsView(false)
			}
			names := ""
			var hs []recovery.CheckpointHandle
			mg := &liveDB{model: lib.NewRefMap(), own: own}
			for i, d := range srcs {
				if i > 0 {
					names += "+"
				}
				names += d.name
				hs = append(hs, handle(d))
			}
			mg.name = dir + " (from " + names + ")"
			mg.view = view
			if otherProcess {
				view = view.AsOtherProcess()
				mg.name += " in another process"
			}
			return openSuccessor(e, c, mg, view, hs, wit)
		}
		var next []*liveDB
		if len(old) >= 3 {
			d1, d2, d3 := old[0], old[1], old[2]
			// ownership of keys: A takes d1's and d2's share, B d3's (d2's rows in B are foreign rows of a shared table)
			a := successor(true, nil, func(k []byte) bool { return d1.own(k) || d2.own(k) }, d1, d2)
			var bDir *liveDB
			if ownDir || r.Intn(2) == 0 {
				bDir = lib.Pick(r, []*liveDB{d2, d3})
			}
			b := successor(false, bDir, d3.own, d2, d3)
			for _, kv := range d1.model.All() {
				a.model.Put(kv.K, kv.V)
			}
			for _, kv := range d2.model.All() {
				a.model.Put(kv.K, kv.V)
			}
			for _, kv := range d3.model.All() {
				b.model.Put(kv.K, kv.V)
			}
			next = []*liveDB{a, b}
		} else {
			d1, d2 := old[0], old[1]
			other := !ownDir && r.Intn(2) == 0
			var mDir *liveDB
			if !other && (ownDir || r.Intn(2) == 0) {
				mDir = lib.Pick(r, []*liveDB{d1, d2})
			}
			m := successor(other, mDir, func(k []byte) bool { return d1.own(k) || d2.own(k) }, d1, d2)
			for _, kv := range d1.model.All() {
				m.model.Put(kv.K, kv.V)
			}
			for _, kv := range d2.model.All() {
				m.model.Put(kv.K, kv.V)
			}
			next = []*liveDB{m}
		}
		live = next
		for _, l := range live {
			l := l
			l.late.mu.Lock()
			l.late.p = &shareOwn{owns: l.own, peers: func() []*liveDB { return live }, self: func() *liveDB { return l }, asked: &asked}
			l.late.mu.Unlock()
		}
		e.logOp("scale-in: %d dead databases, successors %v", len(old), len(live))
		mon.check("after scale-in", live, wit)
		// the successor in this process works on until it has compacted and dropped tables
		w := live[len(live)-1]
		for i := 60 + r.Intn(200); i > 0; i-- {
			var ownKeys [][]byte
			for _, k := range e.keys {
				if w.own(k) {
					ownKeys = append(ownKeys, k)
				}
			}
			if len(ownKeys) == 0 {
				break
			}
			k := lib.Pick(r, ownKeys)
			v := e.vg.Next(r, 20)
			w.db.Put(k, v)
			w.model.Put(k, v)
		}
		for _, d := range live {
			e.waitDB(d.db)
		}
		e.gcSettle()
		mon.check("after scale-in, more writes and forced GC", live, wit)
		for _, d := range live {
			readShare(d, "after scale-in and forced GC")
		}
		c.Feat("scale_in_merges", 1)
		// The successors take their first own checkpoint and the job tells them (in a seeded order) to retain only
		// that one: the inherited checkpoint, which carries one WAL per predecessor, is dropped. A WAL of a shared
		// predecessor may already have been removed by the sibling; once everybody has dropped, none of the
		// inherited WALs may be left.
		var inherited []string
		for _, d := range old {
			for cid, ws := range walsOf(e.gfs, d.listURI) {
				if cid == id {
					inherited = append(inherited, ws...)
				}
			}
		}
		if ownDir {
			// up to three more job checkpoints of the successors while the inherited checkpoint is still retained:
			// their WAL numbers pass the numbers the predecessors had reached
			for k := r.Intn(4); k > 0; k-- {
				xid := nextID
				nextID++
				for _, d := range live {
					e.logOp("%s.checkpoint(%d)", d.name, xid)
					h, err := d.db.Checkpoint(xid)()
					if err != nil {
						c.Fail("checkpoint-error", wit(), "%s checkpoint %d: %v", d.name, xid, err)
					}
					d.listURI = h.URI
					for _, key := range e.keys {
						if d.own(key) && r.Intn(3) == 0 {
							v := e.vg.Next(r, 20)
							d.db.Put(key, v)
							d.model.Put(key, v)
						}
					}
				}
				mon.check(fmt.Sprintf("after job checkpoint %d of the successors (inherited checkpoint still retained)", xid), live, wit)
			}
		}
		id2 := nextID
		nextID++
		for _, d := range live {
			e.logOp("%s.checkpoint(%d)", d.name, id2)
			h, err := d.db.Checkpoint(id2)()
			if err != nil {
				c.Fail("checkpoint-error", wit(), "%s checkpoint %d: %v", d.name, id2, err)
			}
			d.listURI = h.URI
		}
		mon.check(fmt.Sprintf("after job checkpoint %d of the successors", id2), live, wit)
		for _, d := range lib.Shuffled(r, live) {
			e.logOp("%s.retain([%d])", d.name, id2)
			if err := d.db.UpdateRetainedCheckpoints([]uint64{id2}); err != nil {
				c.Fail("retain-error", wit(), "%s: UpdateRetainedCheckpoints([%d]): %v", d.name, id2, err)
			}
		}
		// (judged once everybody has applied the update, like the retention updates above: a WAL shared by siblings
		// is removed by the first one that drops the inherited checkpoint; the others list it until they drop it too)
		mon.check("after the successors' retention update", live, wit)
		for _, d := range live {
			e.waitDB(d.db)
		}
		for _, w := range inherited {
			if ex, _ := e.gfs.Exists(w); ex {
				c.Fail("dropped-wal-not-removed", wit(), "every successor has dropped the checkpoint it was restored from (retain only %d), but WAL %s of that inherited checkpoint still exists", id2, w)
			}
			c.Feat("inherited_wals_checked", 1)
		}
		for _, d := range live {
			readShare(d, "after the successors dropped the inherited checkpoints")
		}
	}
	for _, d := range live {
		e.waitDB(d.db)
	}
	e.gcSettle()
	mon.check("end", live, wit)
	for _, d := range live {
		readShare(d, "end")
		e.pinned = append(e.pinned, d.db)
	}
	c.Feat("exclusive_ownership_questions", asked)
	c.SetSig(mon.checks > 3, e.o, n, fmt.Sprint(e.ops))
	if c.Index < 2 {
		c.Sample(map[string]any{"family": "shared restore", "options": e.o, "databases": n, "ops_prefix": firstN(e.ops, 30), "total_ops": len(e.ops)})
	}
	runtime.KeepAlive(live)
}

// openSuccessor opens a database from several checkpoint handles and checks its NeedsTable answers.
func openSuccessor(e *env, c *lib.Ctx, mg *liveDB, view *lib.GateFS, hs []recovery.CheckpointHandle, wit func() map[string]any) *liveDB {
	opts := e.dbOpts(view)
	own := &lateOwn{owns: mg.own}
	opts.DataOwnership = own
	e.logOp("open %s from %d checkpoint handles", mg.name, len(hs))
	mg.db = dkv.Open(opts, hs)
	mg.late = own
	checkNeedsRestored(c, e.gfs, mg, hs, wit)
	return mg
}

// lateOwn is a DataOwnership whose policy is installed after the database was opened (the successors of a
// scale-in refer to each other).
type lateOwn struct {
	mu   sync.Mutex
	owns func(k []byte) bool
	p    *shareOwn
}

func (l *lateOwn) get() *shareOwn {
	l.mu.Lock()
	defer l.mu.Unlock()
	return l.p
}
func (l *lateOwn) OwnsKey(k []byte) bool { return l.owns(k) }
func (l *lateOwn) ExclusivelyOwnsTable(uri string, s, e []byte) (bool, error) {
	if p := l.get(); p != nil {
		return p.ExclusivelyOwnsTable(uri, s, e)
	}
	return false, errors.New("verif: ownership not decided yet")
}

// ---------------------------------------------------------------- known-finding reproducer

// kfOldInstanceGC: deterministic reproducer of the lifecycle defect "the table cleanup of a
// garbage-collected database instance deletes files that a database restored from its checkpoint
// (in the same process) still uses" — what an in-place operator redeploy does.
func kfOldInstanceGC(c *lib.Ctx) {
	mem := storage.NewMemoryFilesystem()
	gfs := lib.NewGateFS(mem.WithWorkingDir("/op"))
	opts := dkv.DBOptions{Logger: quietLog, FileSystem: gfs, MemTableSize: 60}
	old := dkv.Open(opts, nil)
	for i := 0; i < 12; i++ {
		old.Put([]byte(fmt.Sprintf("k%02d", i)), []byte(fmt.Sprintf("v%02d-padding-padding", i)))
	}
	lib.DKVIdle(watchdog)
	lib.Must(old.WaitOnTasks())
	h, err := old.Checkpoint(1)()
	lib.Must(err)
	// redeploy in place: a new database is opened from the checkpoint, the old object is dropped
	redeployed := dkv.Open(opts, []recovery.CheckpointHandle{h})
	old = nil
	for i := 0; i < 10; i++ {
		runtime.GC()
		runtime.Gosched()
	}
	gcRounds()
	ops := []string{"old: 12 puts (memtable 60 B) + WaitOnTasks", "old.Checkpoint(1)", "redeployed = Open(same dir, [checkpoint 1])", "drop old; runtime.GC()", "redeployed.Get(k00..k11)"}
	for i := 0; i < 12; i++ {
		k := []byte(fmt.Sprintf("k%02d", i))
		func() {
			defer func() {
				if r := recover(); r != nil {
					c.Violate("old-instance-gc-deletes-shared-files", ops, "redeployed.Get(%q) panicked: %v", k, r)
				}
			}()
			got, err := redeployed.Get(k)
			if err != nil || got.IsDelete() {
				c.Violate("old-instance-gc-deletes-shared-files", ops, "redeployed.Get(%q): %v (files deleted by the dropped instance's table cleanups: %v)", k, err, len(gfs.DeletesSince(0)))
			}
		}()
		if c.Violated() {
			break
		}
	}
	c.SetSig(true, "kf-old-instance-gc")
	c.Sample(ops)
	runtime.KeepAlive(redeployed)
}

// ---------------------------------------------------------------- late ownership answers

// slowOwn is a DataOwnership whose neighbours take their time: every question is announced and answered only
// when the case allows it ("nobody else needs the table").
type slowOwn struct {
	started chan string
	answer  chan struct{}
	once    sync.Once
}

func (s *slowOwn) OwnsKey([]byte) bool { return true }
func (s *slowOwn) ExclusivelyOwnsTable(uri string, _, _ []byte) (bool, error) {
	select {
	case s.started <- uri:
	default:
	}
	<-s.answer
	return true, nil
}
func (s *slowOwn) letAnswer() { s.once.Do(func() { close(s.answer) }) }

// c09LateAnswer: the table cleanup of a collected database asks the neighbours whether it may delete a table
// of the checkpoint it was restored from; while the (slow) answer is on its way another database of the same
// process opens that still retained checkpoint. The late "nobody needs it" must not delete files the new
// database and the retained checkpoint reference.
func c09LateAnswer(c *lib.Ctx) {
	r := c.R
	var gfs *lib.GateFS
	local := r.Intn(3) == 0
	if local {
		gfs = lib.NewGateFS(storage.NewLocalFilesystem(c.Dir + "/late"))
	} else {
		gfs = lib.NewGateFS(storage.NewMemoryFilesystem().WithWorkingDir("/late"))
	}
	opts := dkv.DBOptions{Logger: quietLog, FileSystem: gfs, MemTableSize: uint64(40 + r.Intn(300)), L0TableNumCompactionTrigger: 999}
	var ops []string
	logOp := func(f string, a ...any) { ops = append(ops, fmt.Sprintf(f, a...)) }
	wit := func() map[string]any {
		return map[string]any{"ops": ops, "local_fs": local, "memtable": opts.MemTableSize}
	}
	c.OnPanic = func() any { return wit() }

	first := dkv.Open(opts, nil)
	n := 10 + r.Intn(40)
	model := map[string]string{}
	for i := 0; i < n; i++ {
		k, v := fmt.Sprintf("k%03d", r.Intn(60)), fmt.Sprintf("v%d-padding-padding", i)
		first.Put([]byte(k), []byte(v))
		model[k] = v
	}
	logOp("first: %d puts", n)
	lib.DKVIdle(watchdog)
	lib.Must(first.WaitOnTasks())
	h, err := first.Checkpoint(1)()
	lib.Must(err)
	lib.DKVIdle(watchdog)
	tables := tablesOfHandle(gfs, h)
	logOp("first.Checkpoint(1): %d tables", len(tables))

	slow := &slowOwn{started: make(chan string, 256), answer: make(chan struct{})}
	defer slow.letAnswer()
	o2 := opts
	o2.DataOwnership = slow
	second := dkv.Open(o2, []recovery.CheckpointHandle{h})
	for k := range model {
		if _, err := second.Get([]byte(k)); err != nil {
			c.Fail("get-lost", wit(), "second.Get(%q): %v", k, err)
		}
		break
	}
	lib.DKVIdle(watchdog)
	logOp("second = Open([checkpoint 1]) with slow neighbours")
	// The writer's object goes first (its successor is open, so its table cleanups delete nothing); the case
	// only goes on once it has really been collected and its cleanups have run.
	firstGone := make(chan struct{})
	runtime.AddCleanup(first, func(ch chan struct{}) { close(ch) }, firstGone)
	first = nil
	collected := false
	for dl := time.Now().Add(3 * time.Second); !collected && time.Now().Before(dl); {
		runtime.GC()
		select {
		case <-firstGone:
			collected = true
		case <-time.After(300 * time.Microsecond):
		}
	}
	if !collected {
		c.Feat("writer_object_not_collected", 1)
		c.SetSig(false, "writer not collected")
		runtime.KeepAlive(second)
		return
	}
	lib.GCSettle()
	logOp("drop first; GC until it is collected and its cleanups have run")
	select {
	case uri := <-slow.started:
		c.Fail("cleanup-asked-while-referenced", wit(), "the table cleanup of the collected writer asked the neighbours about %s although the database opened from its checkpoint is alive", uri)
	default:
	}
	runtime.KeepAlive(second) // not before this point: its cleanups block on the slow answer
	second = nil
	asked := false
	for dl := time.Now().Add(5 * time.Second); !asked && time.Now().Before(dl) && len(tables) > 0; {
		runtime.GC()
		select {
		case <-slow.started:
			asked = true
		case <-time.After(500 * time.Microsecond):
		}
	}
	logOp("drop second; GC until its table cleanup asks the neighbours (asked=%v)", asked)
	if asked {
		c.Feat("cleanups_waiting_for_an_answer", 1)
	}
	third := dkv.Open(opts, []recovery.CheckpointHandle{h})
	logOp("third = Open([checkpoint 1]) while the answer is outstanding")
	if r.Intn(2) == 0 {
		for k, v := range model {
			got, err := third.Get([]byte(k))
			if err != nil || string(got.Value()) != v {
				c.Fail("get-lost", wit(), "third.Get(%q) = %v, %v before the answer arrived; written %q", k, got, err, v)
			}
		}
	}
	slow.letAnswer()
	logOp("neighbours answer: nobody needs the tables")
	for i := 0; i < 6; i++ {
		runtime.GC()
		time.Sleep(300 * time.Microsecond)
	}
	lib.GCSettle()
	// oracle: the retained checkpoint's files exist, the live database reads everything, the checkpoint restores
	for _, uri := range append(tables, h.URI) {
		if ok, how := gfs.Exists(uri); !ok {
			c.Fail("referenced-file-deleted", wit(), "%s is missing (%s); it is referenced by the retained checkpoint 1 and by the live database opened from it", uri, how)
		}
	}
	check := func(db *dkv.DB, name string) {
		defer func() {
			if p := recover(); p != nil {
				c.Fail("referenced-file-deleted", wit(), "%s: reading panicked: %v", name, p)
			}
		}()
		for k, v := range model {
			got, err := db.Get([]byte(k))
			if err != nil || string(got.Value()) != v {
				c.Fail("get-lost", wit(), "%s.Get(%q) = %v, %v; written %q", name, k, got, err, v)
			}
		}
	}
	check(third, "third")
	fourth := dkv.Open(opts, []recovery.CheckpointHandle{h})
	check(fourth, "fourth (opened from the retained checkpoint afterwards)")
	lib.DKVIdle(watchdog)
	c.Feat("tables_of_checkpoint", int64(len(tables)))
	c.SetSig(asked, local, opts.MemTableSize, n)
	if c.Index < 2 {
		c.Sample(ops)
	}
	runtime.KeepAlive(third)
	runtime.KeepAlive(fourth)
}
