package main

import (
	"fmt"
	"time"

	"verif/lib"
)

// C07 "history": free-running background tasks (seeded yields at every hook), reads after every write.
func c07History(c *lib.Ctx) {
	e := newEnv(c, 3+c.R.Intn(10), 30)
	defer e.close()
	r := e.r
	nops := 60 + r.Intn(240)
	for i := 0; i < nops; i++ {
		e.randomWrite()
		for j := r.Intn(3); j > 0; j-- {
			e.randomRead()
		}
		if r.Intn(25) == 0 {
			e.readAll("during history")
		}
		if r.Intn(60) == 0 {
			e.waitTasks()
			e.readAll("after WaitOnTasks")
		}
	}
	e.readAll("end of history, tasks running")
	e.waitTasks()
	e.readAll("end of history, quiescent")
	finishC07(e)
}

func finishC07(e *env) {
	c := e.c
	l := e.db.VerifLayout()
	depth := 0
	for i, lv := range l.Levels {
		if len(lv) > 0 {
			depth = i
		}
	}
	c.Feat(fmt.Sprintf("final_depth_%d", depth), 1)
	c.AddSig(e.sched.TraceHash())
	c.SetSig(e.rotations >= 2 && !e.needParked || e.parked > 0, e.o, fmt.Sprint(e.ops))
	if c.Index < 2 {
		ops := e.ops
		if len(ops) > 30 {
			ops = ops[:30]
		}
		c.Sample(map[string]any{"options": e.o, "ops_prefix": ops, "total_ops": len(e.ops), "hook_trace_prefix": firstN(e.sched.Trace(), 20)})
	}
}

func firstN(xs []string, n int) []string {
	if len(xs) > n {
		return xs[:n]
	}
	return xs
}

var gatePoints = []struct{ at, after string }{
	{"dkv.flush.start", "dkv.flush.after-swap"},
	{"dkv.flush.before-swap", "dkv.flush.after-swap"},
	{"dkv.compact.before-swap", "dkv.compact.after-swap"},
}

// C07 "gated": deterministic hand-off windows. Episodes: arm a gate at a hook point, run foreground
// ops (at most three memtable rotations while the gate is closed — the task queues are shared and
// bounded), read everything while the background task is parked, optionally let the task swap
// *inside* a read (between the level-list snapshot and the memtable read), release, read again.
func c07Gated(c *lib.Ctx) {
	e := newEnv(c, 3+c.R.Intn(8), 10)
	defer e.close()
	e.needParked = true
	r := e.r
	episodes := 2 + r.Intn(5)
	for ep := 0; ep < episodes; ep++ {
		// some free-running history first so levels get populated
		for i := r.Intn(40); i > 0; i-- {
			e.randomWrite()
			if r.Intn(3) == 0 {
				e.randomRead()
			}
		}
		gp := lib.Pick(r, gatePoints)
		e.logOp("arm(%s)", gp.at)
		g := e.sched.Arm(gp.at)
		for i := 4 + r.Intn(40); i > 0 && e.backlogOK(); i-- {
			e.randomWrite()
			if r.Intn(3) == 0 {
				e.randomRead()
			}
		}
		if !g.Arrived(30 * time.Millisecond) {
			// nothing reached the point in this episode (e.g. no compaction needed)
			e.logOp("disarm(%s): not reached", gp.at)
			e.sched.Disarm(g)
			c.Feat("gate_not_reached", 1)
			continue
		}
		c.Feat("parked_at_"+gp.at, 1)
		e.parked++
		e.logOp("parked(%s)", gp.at)
		e.readAll("background task parked at " + gp.at)
		// a few more writes on top (bounded rotations), then reads
		for i := r.Intn(6); i > 0 && e.backlogOK(); i-- {
			e.randomWrite()
		}
		e.readAll("background task parked at " + gp.at + ", after more writes")
		switch r.Intn(3) {
		case 0:
			// the swap happens inside a Get, after it took the level list
			k := lib.Pick(r, e.keys)
			e.logOp("get(%q) with %s released inside the read window", k, gp.at)
			e.windowRead("dkv.get.window", gp.after, g, func() { e.get(k) })
			c.Feat("swap_inside_get_window", 1)
		case 1:
			p := lib.Pick(r, e.prefixes)
			e.logOp("scan(%q) with %s released inside the read window", p, gp.at)
			e.windowRead("dkv.scan.window", gp.after, g, func() { e.scan(p) })
			c.Feat("swap_inside_scan_window", 1)
		default:
			e.logOp("release(%s)", gp.at)
			g.Release()
		}
		e.readAll("after release of " + gp.at)
		if r.Intn(2) == 0 {
			e.waitTasks()
			e.readAll("quiescent after " + gp.at)
		}
	}
	e.waitTasks()
	e.readAll("end, quiescent")
	finishC07(e)
}

// windowRead runs read(); when the read reaches its window hook, the parked background task is
// released and the read waits until the task has swapped its result in.
func (e *env) windowRead(readHook, afterHook string, g *lib.Gate, read func()) {
	timedOut := false
	e.sched.Once(readHook, func(any) {
		e.c.Feat("window_swap_executed", 1)
		done := e.sched.HitWaiter(afterHook)
		g.Release()
		select {
		case <-done:
		case <-time.After(watchdog):
			timedOut = true
		}
	})
	read()
	e.sched.ClearOnce(readHook)
	g.Release()
	if timedOut {
		e.c.Inconclusive("released task did not reach %s within the watchdog", afterHook)
	}
}
