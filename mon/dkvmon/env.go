// dkvmon — C07, C08, C09(dkv level), C18(concurrent form): monitors over a live dkv.DB (DESIGN §6).
package main

import (
	"bytes"
	"errors"
	"fmt"
	"io"
	"log/slog"
	"math/rand"
	"runtime"
	"sync/atomic"
	"time"

	"reduction.dev/reduction/dkv"
	"reduction.dev/reduction/dkv/kv"
	"reduction.dev/reduction/dkv/recovery"
	"reduction.dev/reduction/dkv/storage"
	"reduction.dev/reduction/util/vhook"
	"verif/lib"
)

// watchdog for waiting on other goroutines; its firing is "inconclusive", never a violation.
const watchdog = 20 * time.Second

var quietLog = slog.New(slog.NewTextHandler(io.Discard, nil))

type optClass struct {
	Mem, WAL, Target uint64
	L0               int
	Amp              int
	Smallest         int64
	Mult             int
	Local            bool
}

func pickOpts(r *rand.Rand) optClass {
	return optClass{
		Mem:      uint64(lib.Pick(r, []int{40, 90, 200, 600, 1 << 20})),
		WAL:      uint64(lib.Pick(r, []int{64, 300, 1 << 20, 1 << 20})),
		Target:   uint64(lib.Pick(r, []int{60, 300, 1 << 20})),
		L0:       lib.Pick(r, []int{1, 2, 2, 4}),
		Amp:      lib.Pick(r, []int{0, 50, 50, 200}),
		Smallest: int64(lib.Pick(r, []int{60, 600, 256 << 20})),
		Mult:     lib.Pick(r, []int{1, 10}),
		Local:    r.Intn(6) == 0,
	}
}

type ckpt struct {
	id       uint64
	snap     *lib.RefMap
	wait     func() (recovery.CheckpointHandle, error)
	h        *recovery.CheckpointHandle
	logPos   int // GateFS log length when the handle was returned
	state    string
	retained bool
	restores int
	owner    *dkv.DB // the database whose checkpoint list holds it
}

type env struct {
	c        *lib.Ctx
	r        *rand.Rand
	o        optClass
	gfs      *lib.GateFS
	mem      *storage.MemoryFilesystem
	db       *dkv.DB
	schedDB  atomic.Pointer[dkv.DB] // copy of db read by hook callbacks on other goroutines
	model    *lib.RefMap
	keys     [][]byte
	prefixes [][]byte
	vg       *lib.ValueGen
	ops      []string
	sched    *lib.Sched
	ckpts    []*ckpt
	nextCkpt uint64
	pinned   []any
	dirN     int
	dir      string // working dir of the current db

	// structural coverage
	rotations  int
	chain      int
	parked     int
	needParked bool
}

func newEnv(c *lib.Ctx, nkeys int, yieldP int) *env {
	r := c.R
	e := &env{c: c, r: r, o: pickOpts(r), model: lib.NewRefMap(), vg: &lib.ValueGen{Writer: "d"}, nextCkpt: uint64(1 + r.Intn(3))}
	e.keys = lib.KeyUniverse(r, nkeys, 3)
	c.OnPanic = func() any { return e.wit("fs_log_tail", fmtLog(e.gfs.Log(), e.gfs.LogLen()-40, e.gfs.LogLen())) }
	e.prefixes = lib.Prefixes(e.keys)
	vhook.SetTuning(&vhook.TuningValues{TuneCompactor: true, MaxSizeAmplificationPercent: e.o.Amp, SmallestLevelSize: e.o.Smallest, LevelSizeMultiplier: e.o.Mult})
	if e.o.Local {
		e.gfs = lib.NewGateFS(storage.NewLocalFilesystem(c.Dir + "/d0"))
	} else {
		e.mem = storage.NewMemoryFilesystem()
		e.gfs = lib.NewGateFS(e.mem.WithWorkingDir("/d0"))
	}
	e.dir = "d0"
	e.sched = lib.NewSched(r.Int63(), yieldP)
	e.sched.Install()
	e.setDB(e.open(e.gfs, nil))
	e.sched.SetFilter(func(name string, arg any) bool { return arg == any(e.schedDB.Load()) })
	return e
}

// setDB replaces the database under test; hook callbacks on the database's task goroutines compare
// against the atomic copy.
func (e *env) setDB(db *dkv.DB) {
	e.db = db
	e.schedDB.Store(db)
}

// fsView returns a GateFS view on another working directory sharing log and state.
func (e *env) fsView(sameDir bool) (*lib.GateFS, string) {
	if sameDir {
		return e.gfs, e.dir
	}
	e.dirN++
	d := fmt.Sprintf("d%d", e.dirN)
	if e.o.Local {
		return e.gfs.WithInner(storage.NewLocalFilesystem(e.c.Dir + "/" + d)), d
	}
	return e.gfs.WithInner(e.mem.WithWorkingDir("/" + d)), d
}

func (e *env) dbOpts(fs storage.FileSystem) dkv.DBOptions {
	return dkv.DBOptions{Logger: quietLog, FileSystem: fs, MemTableSize: e.o.Mem, MaxWALSize: e.o.WAL, TargetFileSize: e.o.Target, L0TableNumCompactionTrigger: e.o.L0}
}

func (e *env) open(fs storage.FileSystem, hs []recovery.CheckpointHandle) *dkv.DB {
	return dkv.Open(e.dbOpts(fs), hs)
}

func (e *env) close() {
	e.sched.ReleaseAll()
	// nothing may outlive the case: drain the tasks of every database it created
	lib.DKVIdle(watchdog)
	e.sched.Uninstall()
	vhook.SetTuning(nil)
	runtime.KeepAlive(e.pinned)
}

func (e *env) wit(extra ...any) map[string]any {
	ops := e.ops
	if len(ops) > 400 {
		ops = append([]string{fmt.Sprintf("... %d earlier ops", len(ops)-400)}, ops[len(ops)-400:]...)
	}
	w := map[string]any{"options": e.o, "ops": ops}
	for i := 0; i+1 < len(extra); i += 2 {
		w[fmt.Sprint(extra[i])] = extra[i+1]
	}
	return w
}

func (e *env) logOp(format string, a ...any) {
	e.ops = append(e.ops, fmt.Sprintf(format, a...))
	e.c.Logf("op %d: %s", len(e.ops), e.ops[len(e.ops)-1])
}

// ---- foreground operations on the primary db, each followed by its oracle

func (e *env) put(k []byte) {
	v := e.vg.Next(e.r, lib.Pick(e.r, []int{0, 8, 30}))
	if e.r.Intn(12) == 0 {
		v = []byte{}
	}
	e.logOp("put(%q,%q)", k, v)
	before := e.db.VerifLayout().MemTables
	e.db.Put(k, v)
	e.model.Put(k, v)
	e.noteRotation(before)
}

func (e *env) del(k []byte) {
	e.logOp("del(%q)", k)
	before := e.db.VerifLayout().MemTables
	e.db.Delete(k)
	e.model.Delete(k)
	e.noteRotation(before)
}

func (e *env) noteRotation(before int) {
	// a rotation appends a memtable; a concurrent dequeue can hide it, which only under-counts
	if e.db.VerifLayout().MemTables > before {
		e.rotations++
		e.c.Feat("rotations", 1)
	}
}

func (e *env) stateFeatures(prefix string) {
	l := e.db.VerifLayout()
	if l.MemTables > 1 {
		e.c.Feat(prefix+"_with_sealed_memtable", 1)
	}
	if len(l.Levels) > 0 && len(l.Levels[0]) >= 2 {
		e.c.Feat(prefix+"_with_L0>=2", 1)
	}
	for i := 1; i < len(l.Levels); i++ {
		if len(l.Levels[i]) >= 2 {
			e.c.Feat(prefix+"_with_multi_table_level", 1)
			break
		}
	}
	for i := 1; i < len(l.Levels)-1; i++ {
		if len(l.Levels[i]) >= 1 {
			e.c.Feat(prefix+"_with_middle_level", 1)
			break
		}
	}
}

func checkGetOn(c *lib.Ctx, db *dkv.DB, model *lib.RefMap, k []byte, what string, wit func() map[string]any) {
	got, err := db.Get(k)
	want, ok := model.Get(k)
	switch {
	case err != nil && !errors.Is(err, kv.ErrNotFound):
		c.Fail("get-error", wit(), "%s: Get(%q): %v", what, k, err)
	case ok && (err != nil || got.IsDelete()):
		c.Fail("get-lost", wit(), "%s: Get(%q) reports absent/deleted, latest write is %q", what, k, want)
	case ok && !bytes.Equal(got.Value(), want):
		c.Fail("get-stale", wit(), "%s: Get(%q) = %q (seq %d), latest write is %q", what, k, got.Value(), got.SeqNum(), want)
	case !ok && err == nil && !got.IsDelete():
		c.Fail("get-resurrected", wit(), "%s: Get(%q) = %q (seq %d), key was deleted/never written", what, k, got.Value(), got.SeqNum())
	}
}

func checkScanOn(c *lib.Ctx, db *dkv.DB, model *lib.RefMap, p []byte, what string, wit func() map[string]any) {
	var scanErr error
	var got []lib.KV
	for en := range db.ScanPrefix(p, &scanErr) {
		got = append(got, lib.KV{K: en.Key(), V: en.Value()})
	}
	if scanErr != nil {
		c.Fail("scan-error", wit(), "%s: ScanPrefix(%q): %v", what, p, scanErr)
	}
	if want := model.Scan(p); !lib.EqualKVs(got, want) {
		c.Fail("scan-mismatch", wit(), "%s: ScanPrefix(%q) = %v, live keys are %v", what, p, lib.FmtKVs(got), lib.FmtKVs(want))
	}
}

func (e *env) get(k []byte) {
	e.logOp("get(%q)", k)
	e.stateFeatures("get")
	checkGetOn(e.c, e.db, e.model, k, "live db", func() map[string]any { return e.wit() })
	e.c.Feat("gets", 1)
}

func (e *env) scan(p []byte) {
	e.logOp("scan(%q)", p)
	e.stateFeatures("scan")
	checkScanOn(e.c, e.db, e.model, p, "live db", func() map[string]any { return e.wit() })
	e.c.Feat("scans", 1)
}

func (e *env) readAll(what string) {
	e.logOp("readall[%s]", what)
	e.stateFeatures("readall")
	for _, k := range e.keys {
		checkGetOn(e.c, e.db, e.model, k, what, func() map[string]any { return e.wit() })
	}
	for _, p := range e.prefixes {
		checkScanOn(e.c, e.db, e.model, p, what, func() map[string]any { return e.wit() })
	}
	e.c.Feat("full_reads", 1)
}

// fullCompare compares a whole database with a model snapshot.
func fullCompare(c *lib.Ctx, db *dkv.DB, model *lib.RefMap, keys, prefixes [][]byte, what string, wit func() map[string]any) {
	for _, k := range keys {
		checkGetOn(c, db, model, k, what, wit)
	}
	checkScanOn(c, db, model, nil, what, wit)
	for _, p := range prefixes {
		checkScanOn(c, db, model, p, what, wit)
	}
}

// backlogOK: the task queues are process-global channels of capacity 5; while a gate holds a task
// the foreground must not fill them (it would block forever). Exact counts come from hooks.
func (e *env) backlogOK() bool {
	flushBacklog := e.sched.Count("dkv.rotate") - e.sched.Count("dkv.flush.start")
	compactBacklog := e.sched.Count("dkv.flush.after-swap") - e.sched.Count("dkv.compact.start")
	return flushBacklog < 3 && compactBacklog < 3
}

func (e *env) randomWrite() {
	k := lib.Pick(e.r, e.keys)
	if e.r.Intn(4) == 0 {
		e.del(k)
	} else {
		e.put(k)
	}
}

func (e *env) randomRead() {
	if e.r.Intn(4) == 0 {
		e.scan(lib.Pick(e.r, e.prefixes))
	} else {
		e.get(lib.Pick(e.r, e.keys))
	}
}

// waitTasks waits for background tasks of the primary db (watchdog → inconclusive).
func (e *env) waitTasks() {
	e.logOp("wait-on-tasks")
	idle, err := lib.WaitDB(e.db, watchdog)
	if !idle {
		e.c.Inconclusive("background tasks did not finish within the watchdog")
	}
	if err != nil {
		e.c.Fail("background-task-error", e.wit(), "WaitOnTasks: %v", err)
	}
}

func gcRounds() {
	for i := 0; i < 3; i++ {
		runtime.GC()
		runtime.Gosched()
		time.Sleep(200 * time.Microsecond)
	}
}
