package main

import (
	"fmt"
	"runtime"
	"sync/atomic"
	"time"

	"reduction.dev/reduction/dkv"
	"reduction.dev/reduction/dkv/recovery"
	"reduction.dev/reduction/dkv/storage"
	"verif/lib"
)

// C08: checkpoints restore exactly the state at the call (DESIGN §6 C08).

func (e *env) takeCheckpoint(state string) *ckpt {
	id := e.nextCkpt
	e.nextCkpt += uint64(1 + e.r.Intn(2))
	e.logOp("checkpoint(%d) [%s]", id, state)
	ck := &ckpt{id: id, snap: e.model.Clone(), state: state, retained: true}
	ck.wait = e.db.Checkpoint(id)
	e.ckpts = append(e.ckpts, ck)
	e.c.Feat("checkpoints_"+state, 1)
	return ck
}

func (e *env) awaitHandle(ck *ckpt) {
	if ck.h != nil {
		return
	}
	type res struct {
		h   recovery.CheckpointHandle
		err error
	}
	ch := make(chan res, 1)
	go func() { h, err := ck.wait(); ch <- res{h, err} }()
	select {
	case r := <-ch:
		if r.err != nil {
			e.c.Fail("checkpoint-error", e.wit(), "checkpoint %d: %v", ck.id, r.err)
		}
		ck.h = &r.h
		ck.logPos = e.gfs.LogLen()
		e.logOp("handle(%d)", ck.id)
	case <-time.After(watchdog):
		e.c.Inconclusive("checkpoint %d save did not finish within the watchdog", ck.id)
	}
}

// restoreAndCompare opens a database from the handle on fs and compares it with the snapshot.
func (e *env) restoreAndCompare(ck *ckpt, fs storage.FileSystem, what string) *dkv.DB {
	db2 := e.open(fs, []recovery.CheckpointHandle{*ck.h})
	fullCompare(e.c, db2, ck.snap, e.keys, e.prefixes, what, func() map[string]any {
		return e.wit("checkpoint", ck.id, "taken_in_state", ck.state)
	})
	ck.restores++
	e.c.Feat("restores_compared", 1)
	return db2
}

func (e *env) restoreCheck(ck *ckpt, sameDir bool) (*dkv.DB, string) {
	view, dir := e.fsView(sameDir)
	e.logOp("restore(%d) into %s", ck.id, dir)
	db2 := e.restoreAndCompare(ck, view, fmt.Sprintf("db restored from checkpoint %d into %s", ck.id, dir))
	e.pinned = append(e.pinned, db2)
	e.waitDB(db2)
	return db2, dir
}

func (e *env) crashImages(ck *ckpt, maxImages int) {
	n := e.gfs.LogLen()
	from := ck.logPos
	if n-from > maxImages {
		// sample: the first few operations after the handle and the most recent ones
		for _, k := range []int{from, from + 1, from + 2, from + 3, n - 2, n - 1, n} {
			e.crashImageAt(ck, k)
		}
		for i := 0; i < maxImages-7; i++ {
			e.crashImageAt(ck, from+e.r.Intn(n-from+1))
		}
		return
	}
	for k := from; k <= n; k++ {
		e.crashImageAt(ck, k)
	}
}

func (e *env) crashImageAt(ck *ckpt, k int) {
	img := e.gfs.CrashImage(k)
	db := dkv.Open(e.dbOpts(img), []recovery.CheckpointHandle{*ck.h})
	fullCompare(e.c, db, ck.snap, e.keys, e.prefixes, fmt.Sprintf("db restored from checkpoint %d on the crash image after storage operation %d", ck.id, k), func() map[string]any {
		return e.wit("checkpoint", ck.id, "crash_after_op", k, "fs_log_tail", fmtLog(e.gfs.Log(), ck.logPos, k))
	})
	e.c.Feat("crash_images_compared", 1)
	e.waitDB(db)
}

// waitDB: restored databases enqueue their flushes on the process-global task queues; they must
// be drained before the primary parks a task again.
func (e *env) waitDB(db *dkv.DB) {
	idle, err := lib.WaitDB(db, watchdog)
	if !idle {
		e.c.Inconclusive("restored db tasks did not finish within the watchdog")
	}
	if err != nil {
		e.c.Fail("background-task-error", e.wit(), "restored db: WaitOnTasks: %v", err)
	}
}

func fmtLog(log []lib.FSEvent, from, to int) []string {
	var out []string
	for i := max(0, from-3); i < to && i < len(log); i++ {
		out = append(out, fmt.Sprintf("#%d %s %s %s", i, log[i].Op, log[i].URI, log[i].Hash))
	}
	return out
}

func (e *env) retainedWithHandle() []*ckpt {
	var out []*ckpt
	for _, ck := range e.ckpts {
		if ck.retained && ck.h != nil {
			out = append(out, ck)
		}
	}
	return out
}

// ckptsOfPrimary: retained checkpoints that live in the primary db's checkpoint list.
func (e *env) ckptsOfPrimary() []*ckpt {
	var out []*ckpt
	for _, ck := range e.ckpts {
		if ck.retained && ck.h != nil && ck.owner == e.db {
			out = append(out, ck)
		}
	}
	return out
}

func c08Case(c *lib.Ctx) {
	e := newEnv(c, 3+c.R.Intn(9), 20)
	defer e.close()
	r := e.r
	nsteps := 60 + r.Intn(200)
	maxCk := 2 + r.Intn(4)
	taken := 0
	if r.Intn(6) == 0 {
		// a long lineage: WAL and table numbers beyond one digit before the restores start
		k := 8 + r.Intn(7)
		for i := 0; i < k; i++ {
			e.randomWrite()
			taken++
			e.checkpointEpisode()
			if cks := e.ckptsOfPrimary(); i%3 == 2 && len(cks) > 0 {
				e.retain(cks)
			}
		}
		maxCk = taken + 3 + r.Intn(3)
		c.Feat("long_lineage_cases", 1)
	}
	for step := 0; step < nsteps; step++ {
		switch x := r.Intn(100); {
		case x < 70:
			e.randomWrite()
			if r.Intn(3) == 0 {
				e.randomRead()
			}
		case x < 78 && taken < maxCk:
			taken++
			e.checkpointEpisode()
		case x < 86:
			if cks := e.retainedWithHandle(); len(cks) > 0 {
				ck := lib.Pick(r, cks)
				e.quiesceForRestore()
				db2, dir := e.restoreCheck(ck, false)
				if e.chain < 4 && r.Intn(3) == 0 {
					e.waitTasks()
					e.promoteTo(db2, dir, ck, false)
				}
			}
		case x < 89:
			// same-directory restore: what a surviving operator (same id) does after a redeploy
			if cks := e.ckptsOfPrimary(); len(cks) > 0 && e.chain < 4 {
				ck := lib.Pick(r, cks)
				e.waitTasks()
				// Same directory = a new process of the same operator: the previous incarnation's
				// objects are gone, so no table cleanup of it may still be pending when the new
				// database starts reusing file names (an in-process redeploy is C09's subject).
				e.gcSettle()
				db2, dir := e.restoreCheck(ck, true)
				e.promoteTo(db2, dir, ck, true)
				c.Feat("same_dir_restores", 1)
			}
		case x < 93:
			if cks := e.ckptsOfPrimary(); len(cks) > 0 {
				e.retain(cks)
			}
		case x < 96:
			e.logOp("gc")
			gcRounds()
		default:
			if cks := e.retainedWithHandle(); len(cks) > 0 {
				ck := lib.Pick(r, cks)
				e.quiesceForRestore()
				e.logOp("crash-images(%d)", ck.id)
				e.crashImages(ck, 12)
			}
		}
	}
	// final: every retained checkpoint still restores to its snapshot, on the live storage and on crash images
	e.waitTasks()
	gcRounds()
	for _, ck := range e.retainedWithHandle() {
		e.restoreCheck(ck, false)
		e.crashImages(ck, 30)
	}
	e.readAll("end")
	// Overwrites of write-once files are only recorded here: a same-directory restore legitimately
	// reuses names of files that only abandoned checkpoints referenced. Whether a *needed* file was
	// replaced is decided by the restore comparisons above and by the C09 monitor.
	c.Feat("write_once_files_rewritten", int64(len(e.gfs.Overwrites())))
	c.AddSig(e.sched.TraceHash())
	c.SetSig(taken > 0 && len(e.ckpts) > 0 && e.ckpts[0].restores > 0, e.o, fmt.Sprint(e.ops))
	if c.Index < 2 {
		c.Sample(map[string]any{"options": e.o, "ops_prefix": firstN(e.ops, 40), "total_ops": len(e.ops)})
	}
}

func (e *env) promoteTo(db2 *dkv.DB, dir string, ck *ckpt, sameDir bool) {
	e.logOp("promote(restored from %d, dir %s)", ck.id, dir)
	e.pinned = append(e.pinned, e.db)
	old := e.db
	// The job restores from its latest checkpoint only: the other checkpoints of the abandoned
	// incarnation are garbage from now on (the new database may delete files they share).
	for _, o := range e.ckpts {
		if o != ck && o.owner == old {
			o.retained = false
		}
	}
	ck.owner = db2 // the restored database holds ck in its own list
	e.setDB(db2)
	e.dir = dir
	e.model = ck.snap.Clone()
	e.chain++
	e.c.Feat(fmt.Sprintf("chain_depth_%d", e.chain), 1)
	e.sched.SetFilter(func(name string, arg any) bool { return arg == any(db2) })
}

func (e *env) quiesceForRestore() {
	// a restored database replays its WAL through Put and may enqueue flushes on the process-global
	// queues: no gate may be closed while that happens
	e.sched.ReleaseAll()
}

func (e *env) retain(cks []*ckpt) {
	// keep a non-empty seeded subset, always including the newest
	keep := map[uint64]bool{cks[len(cks)-1].id: true}
	for _, ck := range cks[:len(cks)-1] {
		if e.r.Intn(2) == 0 {
			keep[ck.id] = true
		}
	}
	var ids []uint64
	for _, ck := range cks {
		if keep[ck.id] {
			ids = append(ids, ck.id)
		}
	}
	e.logOp("retain(%v)", ids)
	if err := e.db.UpdateRetainedCheckpoints(ids); err != nil {
		e.c.Fail("retain-error", e.wit(), "UpdateRetainedCheckpoints(%v): %v", ids, err)
	}
	for _, ck := range e.ckpts {
		if ck.owner == e.db && !keep[ck.id] {
			ck.retained = false
		}
	}
	e.c.Feat("retention_updates", 1)
}

func (e *env) checkpointEpisode() {
	r := e.r
	mode := r.Intn(7)
	if mode == 6 && len(e.ckptsOfPrimary()) == 0 {
		mode = 0
	}
	switch mode {
	case 6: // a retention update's save of the checkpoints file is slow (held) while the next checkpoint is taken and saved
		cks := e.ckptsOfPrimary()
		keep := map[uint64]bool{cks[len(cks)-1].id: true}
		for _, ck := range cks[:len(cks)-1] {
			if r.Intn(2) == 0 {
				keep[ck.id] = true
			}
		}
		var ids []uint64
		for _, ck := range cks {
			if keep[ck.id] {
				ids = append(ids, ck.id)
			}
		}
		var nth atomic.Int32
		rel := e.gfs.HoldSaves(func(name string) bool { return name == "checkpoints" && nth.Add(1) == 1 })
		e.logOp("retain(%v) [its save of the checkpoints file is held]", ids)
		done := make(chan error, 1)
		db := e.db
		go func() { done <- db.UpdateRetainedCheckpoints(ids) }()
		parked := e.gfs.WaitParked(1, 2*time.Second)
		// DB.Checkpoint registers the checkpoint in the list under the list's mutex, which the retention update
		// holds while it saves: the call itself may block until the held save is released, so it runs on its own
		// goroutine (the model snapshot and the bookkeeping are taken here, at the call).
		id := e.nextCkpt
		e.nextCkpt += uint64(1 + e.r.Intn(2))
		e.logOp("checkpoint(%d) [during-slow-retention-save]", id)
		ck := &ckpt{id: id, snap: e.model.Clone(), state: "during-slow-retention-save", retained: true, owner: e.db}
		e.ckpts = append(e.ckpts, ck)
		e.c.Feat("checkpoints_during-slow-retention-save", 1)
		called := make(chan func() (recovery.CheckpointHandle, error), 1)
		go func() { called <- db.Checkpoint(id) }()
		saved := make(chan struct{})
		go func() {
			w := <-called
			called <- w
			w()
			close(saved)
		}()
		if parked {
			select {
			case <-saved:
				e.c.Feat("checkpoint_saved_while_retention_save_in_flight", 1)
			case <-time.After(3 * time.Millisecond):
			}
		}
		rel()
		select {
		case <-saved:
		case <-time.After(watchdog):
			e.c.Inconclusive("checkpoint %d did not finish within the watchdog", id)
		}
		ck.wait = <-called
		select {
		case err := <-done:
			if err != nil {
				e.c.Fail("retain-error", e.wit(), "UpdateRetainedCheckpoints(%v): %v", ids, err)
			}
		case <-time.After(watchdog):
			e.c.Inconclusive("the held retention update did not return within the watchdog")
		}
		for _, o := range e.ckpts {
			if o.owner == e.db && o != ck && !keep[o.id] {
				o.retained = false
			}
		}
		e.c.Feat("retention_updates", 1)
		e.awaitHandle(ck)
	case 0: // synchronous, like the operator
		ck := e.takeCheckpoint("sync")
		ck.owner = e.db
		e.awaitHandle(ck)
	case 1: // asynchronous: writes continue while the save runs
		ck := e.takeCheckpoint("async-writes-during-save")
		ck.owner = e.db
		for i := r.Intn(12); i > 0; i-- {
			e.randomWrite()
		}
		e.awaitHandle(ck)
	case 2, 3: // the save task is held before the WAL save / before the list save while writes and flushes go on
		pt := "dkv.checkpoint.before-wal-save"
		if mode == 3 {
			pt = "dkv.checkpoint.before-list-save"
		}
		g := e.sched.Arm(pt)
		ck := e.takeCheckpoint("save-held-at-" + pt)
		ck.owner = e.db
		if g.Arrived(watchdog) {
			for i := 2 + r.Intn(25); i > 0; i-- {
				e.randomWrite()
				if r.Intn(4) == 0 {
					e.randomRead()
				}
			}
			if r.Intn(2) == 0 {
				e.waitTasksExceptCheckpoint()
			}
		}
		g.Release()
		e.awaitHandle(ck)
	case 4, 5: // a flush is in flight (parked) when Checkpoint is called
		gp := gatePoints[r.Intn(2)]
		g := e.sched.Arm(gp.at)
		for i := 4 + r.Intn(30); i > 0 && e.backlogOK() && !g.HasArrived(); i-- {
			e.randomWrite()
		}
		state := "flush-not-reached"
		if g.Arrived(20 * time.Millisecond) {
			state = "flush-parked-at-" + gp.at
			for i := r.Intn(5); i > 0 && e.backlogOK(); i-- {
				e.randomWrite()
			}
		}
		ck := e.takeCheckpoint(state)
		ck.owner = e.db
		if r.Intn(2) == 0 {
			e.awaitHandle(ck) // the save does not need the flush queue
		}
		for i := r.Intn(6); i > 0 && e.backlogOK(); i-- {
			e.randomWrite()
		}
		e.sched.Disarm(g)
		g.Release()
		e.awaitHandle(ck)
	}
	// directly after another checkpoint
	if r.Intn(4) == 0 {
		ck := e.takeCheckpoint("directly-after-checkpoint")
		ck.owner = e.db
		e.awaitHandle(ck)
	}
}

// waitTasksExceptCheckpoint waits for flush/compaction tasks (the checkpoint save is not in the group).
func (e *env) waitTasksExceptCheckpoint() { e.waitTasks() }

// gcSettle forces collection rounds until no further table cleanup deletes a file.
func (e *env) gcSettle() {
	e.logOp("gc-settle")
	lib.GCSettle() // sentinel cleanups: the cleanup queue has drained three times
	stable := 0
	last := e.gfs.LogLen()
	for i := 0; i < 60 && stable < 5; i++ {
		runtime.GC()
		time.Sleep(500 * time.Microsecond)
		if n := e.gfs.LogLen(); n == last {
			stable++
		} else {
			stable, last = 0, n
		}
	}
}
