package main

import "verif/lib"

func n(q, t int) func(string) int {
	return func(tier string) int {
		if tier == "thorough" {
			return t
		}
		return q
	}
}

var c07Assume = []string{
	"single foreground client (the operator's event loop is the only caller of Put/Delete/Get/ScanPrefix), so the sequential map is the specification",
	"Get returning a tombstone entry and Get returning ErrNotFound both mean absent",
	"wall clock is used only for watchdogs (inconclusive), never for verdicts",
}

func main() {
	lib.Main(
		&lib.Prop{ID: "C07", Part: "history", Level: "exploration", NCases: n(1200, 20000), Run: c07History, Assumptions: c07Assume,
			Rule: "random put/delete histories (60..300 writes over 3..12 prefix-related binary keys, unique values) on a real dkv.DB with option classes memtable {40..1M} x WAL {64,300,1M} x target file {60,300,1M} x L0 trigger {1,2,4} x amplification {0,50,200}% x smallest level {60,600,256M} on memory and local file systems; background flush/compaction free-running with seeded yields at every verif hook; Get/ScanPrefix after every write compared with a sequential map, full read-all at seeded points, with tasks running and quiescent; non-trivial = >=2 memtable rotations; distinct by (options, op list) hash; hook-order traces counted separately"},
		&lib.Prop{ID: "C07", Part: "gated", Level: "exploration", NCases: n(1000, 16000), Run: c07Gated, Assumptions: c07Assume,
			Rule: "same histories with 2..6 gate episodes: a flush is parked before it starts / after writing its tables but before the swap, or a compaction before its swap; full read-all while parked (sealed memtable present, table written but not swapped, >=2 overlapping L0 tables), then either the task is released INSIDE a Get/ScanPrefix between its level-list snapshot and its memtable read (the read then waits for the swap) or released normally; read-all after; <=3 rotations while a gate is closed; non-trivial = >=1 episode actually parked; distinct by (options, op list) hash"},
		&lib.Prop{ID: "C18", Part: "live-db", Level: "exploration", NCases: n(300, 6000), Run: c07Gated, Assumptions: c07Assume,
			Rule: "the concurrent form of C18 inside a live dkv.DB: the gated histories of C07 (a compaction parked before its swap while flushes keep adding level-0 tables, a flush parked before its swap, swaps released inside read windows), every Get/ScanPrefix compared with the sequential map before, during and after each compaction swap; non-trivial = >=1 episode actually parked; distinct by (options, op list) hash"},
		&lib.Prop{ID: "C08", Part: "checkpoints", Level: "fault_enumeration", NCases: n(300, 8000), Run: c08Case,
			Assumptions: append([]string{"database objects whose checkpoints are still retained stay referenced (dropping them is C09's subject)", "files are published atomically at Save; a crash image is the set of files durable after the first k storage operations", "a second Checkpoint is only called after the previous save completed (the operator waits synchronously)", "after a restore the job abandons the other checkpoints of the previous incarnation"}, c07Assume...),
			Rule:        "C07 histories with Checkpoint injected at seeded points in seven modes (synchronous; writes during the save; save task held before the WAL save / before the list save while writes and flushes continue; flush parked before start / before swap when Checkpoint is called; directly after another checkpoint; a retention update's save of the checkpoints document held while the next checkpoint is taken and saved); 1 case in 6 starts with a lineage of 8..14 checkpoints (file numbers beyond one digit), with UpdateRetainedCheckpoints, forced GC rounds, restores into another directory and into the SAME directory, promotion of the restored db (chains up to depth 4) and, for every retained checkpoint, restores on CRASH IMAGES cut after individual storage operations following the handle (all when <=30, else first/last + seeded sample); every restored db is compared with the model snapshot taken at the Checkpoint call (Get over the universe, ScanPrefix(nil) and every prefix); non-trivial = >=1 checkpoint restored and compared; distinct by (options, op list) hash"},
		&lib.Prop{ID: "C09", Part: "single", Level: "exploration", NCases: n(150, 4000), Run: c09Single,
			Assumptions: []string{"every storage operation goes through the instrumented FileSystem (existence and content hash come from its log)", "forced GC rounds: a cleanup that has not run yet can only hide a violation, never fabricate one"},
			Rule:        "one database lifetime: write histories with synchronous checkpoints, UpdateRetainedCheckpoints over seeded subsets, forced GC rounds until the delete log is stable, under the C07 option classes; after every checkpoint / retention update / GC round the reference set = tables of the live level set (verif accessor) + WAL and table URIs of every checkpoint in the latest saved `checkpoints` document is checked to exist with the content hash it had when first referenced; after a retention update WAL files referenced only by dropped checkpoints must be gone; retained checkpoints are restored at the end; non-trivial = >=1 checkpoint and >3 reference checks; distinct by (options, ops) hash"},
		&lib.Prop{ID: "C09", Part: "shared", Level: "exploration", NCases: n(150, 4000), Run: c09Shared,
			Assumptions: []string{"a source database whose object is dropped BEFORE its successors are open is a dead process (pinned, no cleanup runs); in two thirds of the cases the source object is dropped in process once its successors are open (an in-place redeploy keeps the old database referenced until dkv.Open returned) and collected", "ownership policy of the harness mirrors the operator partition: exclusive unless a live peer's NeedsTable says true"},
			Rule:        "2..3 databases restored from one checkpoint of a source database (state in SST files), each owning a hash share of the keys and sharing the checkpoint's tables; they write, compact the shared tables away, take job checkpoints (same id everywhere), receive retention updates that drop the shared checkpoint, with forced GC rounds; after every such step the reference set of ALL live databases is checked as in part single and every database's owned rows are compared with its model; every table of every checkpoint handle a database was restored from must be reported by its NeedsTable; scale-in phase: the databases become dead processes and two successors are restored from two of their checkpoints each (other-process views of the storage); non-trivial = >3 reference checks; distinct by (options, n, ops) hash"},
		&lib.Prop{ID: "C09", Part: "scale-in-own-dir", Level: "exploration", NCases: n(120, 3000), Run: c09ScaleInOwnDir,
			Assumptions: []string{"an operator id (= working directory) may be reused by the process that takes over after a scale-in (Options.ID, a restarted worker): the merged checkpoint then names files of the successor's own directory", "a job checkpoint that only one operator reached is aborted by the job; its database keeps it until the next retention update"},
			Rule:        "part shared with the scale-in phase always run in its rarest shape: one of the 2..3 databases first takes 1..3 checkpoints the others never reach (its WAL numbers run ahead), all take the scale-in checkpoint and die, the in-process successor is opened from two handles (seeded order) IN THE DIRECTORY of one of its predecessors, works on, takes 0..3 job checkpoints while the inherited checkpoint is still retained and one more after which only that one is retained; the reference set (existence + content hash since first referenced) is checked after every step, inherited WALs must be gone at the end, owned rows are compared with the model; non-trivial = >3 reference checks; distinct by (options, n, ops) hash"},
		&lib.Prop{ID: "C09", Part: "late-answer", Level: "exploration", NCases: n(30, 600), Run: c09LateAnswer,
			Assumptions: []string{"forced GC rounds: a cleanup that has not run yet can only hide a violation, never fabricate one (a case in which no cleanup asked is counted as trivial)"},
			Rule:        "a database writes tables and takes checkpoint 1; a second database is opened from it with neighbours that answer slowly; both objects are dropped one after the other and collected until the second one's table cleanup waits for the neighbours' answer; a third database of the same process opens the still retained checkpoint; then the answer 'nobody needs the table' arrives. Every file of checkpoint 1 must still exist, the third database and a fourth one opened afterwards read every key; non-trivial = a cleanup was waiting for its answer when the third database was opened; distinct by (fs, memtable, puts)"},
		&lib.Prop{ID: "C09", Part: "kf-old-instance-gc", Level: "exploration", NCases: n(1, 1), Run: kfOldInstanceGC,
			Rule: "regression part of the repaired finding old-instance-gc (fix 7f5fd67): in-place redeploy (new database opened from the old one's checkpoint in the same process, old object dropped, GC) — the dropped instance's table cleanups must not delete files the new database uses"},
	)
}
