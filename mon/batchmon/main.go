// batchmon — C20: batching never loses, duplicates or reorders items (DESIGN §6 C20).
//
// Parts:
//
//	batcher-single     one event-loop goroutine uses batching.EventBatcher the way operator.processEvents does
//	batcher-porcupine  2..4 goroutines (adder, time-out consumer, explicit flushers) + Porcupine
//	fetcher            batching.ReorderFetcher: one result per input, in input order
package main

import (
	"fmt"
	"runtime"
	"sync"
	"sync/atomic"
	"time"

	"reduction.dev/reduction/clocks"
	"verif/lib"
)

func n(q, t int) func(string) int {
	return func(tier string) int {
		if tier == "thorough" {
			return t
		}
		return q
	}
}

const level = "exploration"

// wall-clock watchdog: only ever ends a case as inconclusive
const watchdog = 8 * time.Second

var batcherAssume = []string{
	"items carry unique increasing ids, so every handed-out item identifies its Add",
	"an explicit Flush(CurrentBatch) and a Flush with the token of the batch that is still current hand out the whole pending batch (that is what 'flush' means in the statement); IsFull() == (pending items >= max(MaxSize,1)) is checked as a separate violation kind 'isfull-mismatch'",
	"the token a time-out delivers is treated as opaque: the harness timer wraps the callback it is given and learns, when the callback returns, which Set call (hence which batch-starting Add) the received token belongs to",
	"time-out callbacks run on their own goroutine like time.AfterFunc; Set is never invoked synchronously",
	"wall clock only paces real-timer cases and feeds watchdogs (inconclusive); verdicts are order-independent facts about ids",
}

func main() {
	lib.Main(
		&lib.Prop{ID: "C20", Part: "batcher-single", Level: level, NCases: n(600, 20000), Run: batcherSingle, Assumptions: batcherAssume,
			Rule: "one goroutine plays operator.processEvents on a real batching.EventBatcher[int]: scripts of 5..64 Add(id) each followed by IsFull -> Flush(CurrentBatch), explicit flushes (checkpoint barrier), timer expiries and consumption of BatchTimedOut -> Flush(token), MaxSize in {0,1,2,3,4,8}, MaxDelay 0 or >0. 4 of 5 cases use a harness clocks.Timer fired at seeded script positions (expired callbacks stay parked on the channel, so stale tokens of already flushed batches are delivered later, several can be pending); every 5th case uses clocks.SystemTimer with 1..200 us delays and a feeder goroutine with seeded pauses feeding the loop's select. Oracle: the batches in hand-out order are contiguous id runs that tile 1..n exactly after draining all pending tokens and one final explicit flush; a non-empty Flush(token) whose batch-starting item was already handed out is a violation; handed-out slices must not change afterwards. non-trivial = >=2 kinds of flush trigger used and >=1 stale token consumed (timer cases); distinct by (params, script) hash"},
		&lib.Prop{ID: "C20", Part: "batcher-porcupine", Level: level, NCases: n(300, 10000), Run: batcherPorcupine,
			Assumptions: append([]string{
				"every EventBatcher method takes the batcher mutex and production calls it from two goroutines (sourcerunner.batchingOperator: Add/IsFull/Flush(Current) on the sender, Flush(token) on the time-out goroutine; ReorderFetcher: Flush(Current) from both), so linearizability against the sequential batcher is the promised behaviour; a second adder is used in a minority of >=3-client cases",
				"exactly one goroutine consumes BatchTimedOut (as in production), which makes token -> Set-call attribution exact",
				"Porcupine Unknown (10 s) => inconclusive",
			}, batcherAssume...),
			Rule: "2..4 goroutines on one EventBatcher[int]: client 0 adds 3..14 ids (Add; IsFull -> Flush(Current)), client 1 consumes BatchTimedOut and calls Flush(token), further clients call Flush(Current)/IsFull or are a second adder; seeded yields and tick rendezvous between calls plus seeded yields inside the harness timer's Set/Stop (= inside the batcher's critical sections, so other clients really call in meanwhile); harness timer fired by the Set call itself or by a clock goroutine at seeded points, or clocks.SystemTimer with 1..100 us; <=60 operations recorded with logical call/return stamps; after all pending tokens are drained one final Flush(Current). Oracle: Porcupine against a sequential batcher model (pending list, index of the Set call that armed the current batch), plus a direct multiset check (every id handed out exactly once). non-trivial = >=1 pair of overlapping operations of different clients and >=1 token flush; distinct by (params, plans) hash, observed histories hashed separately"},
		&lib.Prop{ID: "C20", Part: "fetcher", Level: level, NCases: n(400, 12000), Run: fetcherCase,
			Assumptions: []string{
				"FetchBatch never fails and returns exactly one result per input (the handler contract); results carry the input id",
				"one goroutine calls ReorderFetcher.Add/Flush (sourcerunner.processEvents), one consumes Output; the fetcher's own time-out goroutine is the second flusher",
				"'lost' is decided logically: all fetches returned, the adder finished, no goroutine is inside ReorderFetcher.flush or its fetch closure (or all of them are parked for good in ReorderBuffer.Reserve with no fetch alive to drain) and fewer than n results were emitted; wall clock only feeds the watchdog (inconclusive)",
			},
			Rule: "ReorderFetcher[int,res] over a real EventBatcher. mode perm (index%4==0): k<=4 batches kept outstanding by gated FetchBatch calls, flushed by size / time-out / explicit Flush, released in EVERY permutation (33 (k,perm) pairs enumerated by index), output awaited after each release. mode latency (index%4==1,2): 8..80 items, MaxSize 1..5, BufferSize {0,1,2,4,8} (back-pressure in Reserve), per-fetch latency from a seeded plan (none / yields / 1..300 us), time-outs from clocks.SystemTimer 1..150 us or a harness timer fired between Adds, so size- and time-out-triggered flushes overlap. mode overtake (index%4==3): a time-out flush is started and, through verif hook batching.fetcher.between-flush-and-reserve when present (else seeded yields), held between batcher.Flush and buffer.Reserve while the Add caller fills and flushes the next batch. In a third of the latency cases 1..4 fetches fail (error, no results): the error channel gets one error per failed fetch and every later batch still comes out. Oracle: emitted id sequence == added id sequence without the inputs of failed fetches, nothing emitted afterwards. non-trivial = >=1 fetch completion inversion or >=1 time-out flush overlapping an Add; distinct by (mode, params, plan) hash"},
	)
}

// ---- timers ---------------------------------------------------------------------------------

// logicalTimer is a clocks.Timer whose expiry is decided by the case: Fire() runs the armed
// callback on a fresh goroutine (like time.AfterFunc) and disarms.
type logicalTimer struct {
	mu    sync.Mutex
	armed func()
	fired int
}

func (t *logicalTimer) Set(d time.Duration, do func()) {
	t.mu.Lock()
	t.armed = do
	t.mu.Unlock()
}

func (t *logicalTimer) Stop() {
	t.mu.Lock()
	t.armed = nil
	t.mu.Unlock()
}

func (t *logicalTimer) Fire() bool {
	t.mu.Lock()
	do := t.armed
	t.armed = nil
	if do != nil {
		t.fired++
	}
	t.mu.Unlock()
	if do == nil {
		return false
	}
	go do()
	return true
}

func (t *logicalTimer) Armed() bool {
	t.mu.Lock()
	defer t.mu.Unlock()
	return t.armed != nil
}

func (t *logicalTimer) Fired() int {
	t.mu.Lock()
	defer t.mu.Unlock()
	return t.fired
}

// recTimer wraps the timer handed to the batcher (logicalTimer or clocks.SystemTimer). It numbers
// the Set calls and wraps every callback so that, when the callback returns (its token has been
// received), the index of its Set call is pushed on done. With a single consumer of
// BatchTimedOut this attributes every received token to the Set call that produced it.
type recTimer struct {
	inner clocks.Timer
	mu    sync.Mutex
	sets  int
	// onSet runs inside Set (on the goroutine calling Add, under the batcher mutex).
	onSet func(k int)
	// fireNow: for a logical inner timer, expire immediately after Set k (plan decided by the case).
	fireNow func(k int) bool
	// pauses: seeded yields executed INSIDE Set / Stop, i.e. while the batcher holds its mutex: they
	// stretch the critical sections so that other goroutines really call in meanwhile.
	pauses   []int
	npause   atomic.Int64
	done     chan int
	started  atomic.Int64
	finished atomic.Int64
	stops    atomic.Int64
}

func newRecTimer(inner clocks.Timer) *recTimer {
	return &recTimer{inner: inner, done: make(chan int, 4096)}
}

func (t *recTimer) Set(d time.Duration, do func()) {
	t.mu.Lock()
	k := t.sets
	t.sets++
	t.mu.Unlock()
	if t.onSet != nil {
		t.onSet(k)
	}
	t.yield()
	t.inner.Set(d, func() {
		t.started.Add(1)
		do()
		select {
		case t.done <- k:
		default: // cannot happen with <= 4096 Set calls per case; never block a repo goroutine
		}
		t.finished.Add(1)
	})
	if t.fireNow != nil && t.fireNow(k) {
		if lt, ok := t.inner.(*logicalTimer); ok {
			lt.Fire()
		}
	}
}

func (t *recTimer) Stop() {
	t.stops.Add(1)
	t.inner.Stop()
	t.yield()
}

func (t *recTimer) yield() {
	if len(t.pauses) > 0 {
		pause(t.pauses[int(t.npause.Add(1))%len(t.pauses)])
	}
}

func (t *recTimer) Sets() int {
	t.mu.Lock()
	defer t.mu.Unlock()
	return t.sets
}

// settle waits (bounded, wall clock, no verdict) until every started callback has finished.
func (t *recTimer) settle(rounds int) bool {
	calm := 0
	for i := 0; i < rounds; i++ {
		if t.started.Load() == t.finished.Load() {
			calm++
			if calm >= 3 {
				return true
			}
		} else {
			calm = 0
		}
		time.Sleep(100 * time.Microsecond)
	}
	return false
}

// ---- small helpers --------------------------------------------------------------------------

// pause kinds for seeded yields: 0 none, 1 Gosched, 2 three Gosched, >=3 sleep (k-2)*5 us
func pause(k int) {
	switch {
	case k <= 0:
	case k == 1:
		runtime.Gosched()
	case k == 2:
		for i := 0; i < 3; i++ {
			runtime.Gosched()
		}
	default:
		time.Sleep(time.Duration(k-2) * 5 * time.Microsecond)
	}
}

func ids(xs []int) string { return fmt.Sprint(xs) }

func firstN[T any](xs []T, n int) []T {
	if len(xs) > n {
		return xs[:n]
	}
	return xs
}
