package main

import (
	"context"
	"fmt"
	"slices"
	"time"

	"reduction.dev/reduction/batching"
	"reduction.dev/reduction/clocks"
	"verif/lib"
)

// singleLoop is the state of the one goroutine that plays the operator's event loop.
type singleLoop struct {
	c       *lib.Ctx
	b       *batching.EventBatcher[int]
	rt      *recTimer
	maxSize int // effective (>=1)
	params  any
	ops     []string
	added   int // last id added
	next    int // next id expected to be handed out
	curAdd  int // id being added (read by the timer's onSet on the same goroutine)
	armX    map[int]int
	handed  [][]int // the slices the batcher returned
	copies  [][]int // their contents at hand-out time
	recv    int     // tokens received
	nSize   int
	nTimed  int
	nExpl   int
	nStale  int
	nEmptyT int
}

func (s *singleLoop) logf(format string, args ...any) {
	s.ops = append(s.ops, fmt.Sprintf(format, args...))
	s.c.Logf("  "+format, args...)
}

func (s *singleLoop) witness(extra string) any {
	h := slices.Clone(s.ops)
	if extra != "" {
		h = append(h, extra)
	}
	return map[string]any{"params": s.params, "history": h}
}

// took checks one handed-out batch: it must be exactly the next ids in order.
func (s *singleLoop) took(what string, out []int) {
	if len(out) == 0 {
		return
	}
	s.handed = append(s.handed, out)
	s.copies = append(s.copies, slices.Clone(out))
	for i, v := range out {
		want := s.next + i
		if v == want && v <= s.added {
			continue
		}
		kind := "batch-not-contiguous"
		switch {
		case v > s.added || v < 1:
			kind = "item-never-added"
		case v < s.next:
			kind = "item-duplicated"
		}
		s.c.Fail(kind, s.witness(fmt.Sprintf("%s -> %v", what, out)),
			"%s handed out %v; position %d holds id %d, expected %d (ids 1..%d added, 1..%d already handed out)", what, out, i, v, want, s.added, s.next-1)
	}
	s.next += len(out)
}

func (s *singleLoop) add() {
	s.added++
	s.curAdd = s.added
	s.b.Add(s.added)
	full := s.b.IsFull()
	pending := s.added - (s.next - 1)
	s.logf("add(%d) isfull->%v", s.added, full)
	if full != (pending >= s.maxSize) {
		s.c.Fail("isfull-mismatch", s.witness(""), "IsFull()=%v with %d pending items and MaxSize %d", full, pending, s.maxSize)
	}
	if full { // operator.handleUserEvent
		out := s.b.Flush(batching.CurrentBatch)
		s.logf("flush(current)[size] -> %v", out)
		if len(out) == 0 {
			s.c.Fail("flush-current-empty", s.witness(""), "IsFull() was true but Flush(CurrentBatch) handed out nothing")
		}
		s.nSize++
		s.took("size-triggered Flush(CurrentBatch)", out)
	}
}

func (s *singleLoop) explicit(why string) {
	pending := s.added - (s.next - 1)
	out := s.b.Flush(batching.CurrentBatch)
	s.logf("flush(current)[%s] -> %v", why, out)
	if len(out) > 0 {
		s.nExpl++
	}
	s.took("explicit Flush(CurrentBatch)", out)
	if len(out) != pending {
		s.c.Fail("flush-current-partial", s.witness(""), "explicit Flush(CurrentBatch) with %d pending items handed out %d", pending, len(out))
	}
}

// timedOut handles one token taken from BatchTimedOut (operator.processEvents, second select arm).
func (s *singleLoop) timedOut(tok batching.BatchToken, k int, checkRule bool) {
	s.recv++
	x, known := s.armX[k]
	stale := known && x < s.next
	out := s.b.Flush(tok)
	s.logf("recv token %d (timer set #%d, armed by add(%d)%s) flush(token) -> %v", int64(tok), k, x, map[bool]string{true: ", batch already handed out", false: ""}[stale], out)
	if checkRule && known {
		if stale {
			s.nStale++
			if len(out) > 0 {
				s.c.Fail("stale-token-flushed", s.witness(""),
					"the token of the batch started by add(%d) was delivered after that batch had been handed out (ids 1..%d), yet Flush(token) handed out %v", x, s.next-1, out)
			}
		} else if len(out) == 0 {
			s.nEmptyT++ // current batch's token flushed nothing: not lost (final flush), counted only
		}
	}
	if len(out) > 0 {
		s.nTimed++
	}
	s.took("Flush(token)", out)
}

func (s *singleLoop) finish(params any, nontrivial bool) {
	c := s.c
	if s.next != s.added+1 {
		c.Fail("items-lost", s.witness(""), "after the final explicit flush ids %d..%d were never handed out", s.next, s.added)
	}
	for i := range s.handed {
		if !slices.Equal(s.handed[i], s.copies[i]) {
			c.Fail("batch-mutated-after-handout", s.witness(""), "batch handed out as %v later reads %v", s.copies[i], s.handed[i])
		}
	}
	c.Feat("flush_size", int64(s.nSize))
	c.Feat("flush_timeout", int64(s.nTimed))
	c.Feat("flush_explicit", int64(s.nExpl))
	c.Feat("stale_token_consumed", int64(s.nStale))
	c.Feat("live_token_flushed_nothing", int64(s.nEmptyT))
	c.Feat("timer_sets", int64(s.rt.Sets()))
	c.Feat("timer_stops", s.rt.stops.Load())
	c.Feat("items", int64(s.added))
	c.SetSig(nontrivial, params, fmt.Sprint(s.ops))
	if c.Index < 3 || c.Index%5 == 4 && c.Index < 15 {
		c.Sample(map[string]any{"params": params, "history_prefix": firstN(s.ops, 40), "total_steps": len(s.ops)})
	}
}

func batcherSingle(c *lib.Ctx) {
	r := c.R
	real := c.Index%5 == 4
	maxSize := lib.Pick(r, []int{0, 1, 2, 3, 4, 8})
	nAdds := 5 + r.Intn(60)
	var maxDelay time.Duration
	switch {
	case real:
		maxDelay = time.Duration(1+r.Intn(200)) * time.Microsecond
	case r.Intn(8) == 0:
		maxDelay = 0
	default:
		maxDelay = time.Millisecond // never elapses by itself: the logical timer decides
	}
	ctx, cancel := context.WithCancel(context.Background())
	defer cancel()
	lt := &logicalTimer{}
	var inner clocks.Timer = lt
	if real {
		inner = &clocks.SystemTimer{}
	}
	rt := newRecTimer(inner)
	s := &singleLoop{c: c, rt: rt, maxSize: max(maxSize, 1), next: 1, armX: map[int]int{}}
	rt.onSet = func(k int) { s.armX[k] = s.curAdd } // same goroutine as Add
	s.b = batching.NewEventBatcher[int](ctx, batching.EventBatcherParams{MaxDelay: maxDelay, MaxSize: maxSize, Timer: rt})
	c.OnPanic = func() any { return s.witness("panic") }
	params := map[string]any{"max_size": maxSize, "max_delay": maxDelay.String(), "timer": map[bool]string{true: "clocks.SystemTimer", false: "harness"}[real], "adds": nAdds}
	c.Logf("params %v", params)
	s.params = params

	if !real {
		// a failing case must not leave expired callbacks parked on the channel
		defer func() {
			for i := lt.Fired() - s.recv; i > 0; i-- {
				select {
				case <-s.b.BatchTimedOut:
				case <-time.After(20 * time.Millisecond):
					return
				}
			}
		}()
		// deterministic script on one goroutine
		for s.added < nAdds {
			pending := lt.Fired() - s.recv
			switch x := r.Intn(100); {
			case x < 58:
				s.add()
			case x < 74:
				if lt.Fire() {
					s.logf("timer expires (set #%d)", rt.Sets()-1)
				}
			case x < 88:
				if pending > 0 {
					s.recvOne(true)
				}
			default:
				s.explicit("barrier")
			}
		}
		if r.Intn(2) == 0 && lt.Fire() {
			s.logf("timer expires (set #%d)", rt.Sets()-1)
		}
		// drain every parked callback, then the final flush (handleSourceComplete)
		for lt.Fired()-s.recv > 0 {
			s.recvOne(true)
		}
		s.explicit("final")
		kinds := 0
		for _, v := range []int{s.nSize, s.nTimed, s.nExpl} {
			if v > 0 {
				kinds++
			}
		}
		s.finish(params, kinds >= 2 && (s.nStale > 0 || maxDelay == 0))
		return
	}

	// real timer: a feeder goroutine plays the senders, the loop selects like processEvents
	type ev struct{ kind int } // 0 add, 1 explicit flush
	plan := make([]ev, 0, nAdds+8)
	pauses := make([]int, 0, nAdds+8)
	for a := 0; a < nAdds; {
		if r.Intn(12) == 0 {
			plan = append(plan, ev{1})
		} else {
			plan = append(plan, ev{0})
			a++
		}
		pauses = append(pauses, lib.Pick(r, []int{0, 0, 0, 1, 2, 3, 5, 10, 30}))
	}
	events := make(chan ev)
	go func() {
		for i, e := range plan {
			pause(pauses[i])
			select {
			case events <- e:
			case <-ctx.Done():
				return
			}
		}
		close(events)
	}()
	dog := time.After(watchdog)
loop:
	for {
		select {
		case e, ok := <-events:
			if !ok {
				break loop
			}
			if e.kind == 0 {
				s.add()
			} else {
				s.explicit("barrier")
			}
		case tok := <-s.b.BatchTimedOut:
			s.timedOut(tok, s.waitDone(), true)
		case <-dog:
			c.Inconclusive("watchdog in the real-timer event loop")
		}
	}
	s.explicit("final")
	// callbacks that fired before the final flush stopped the timer still hold a (stale) token
	for calm, spins := 0, 0; calm < 4 && spins < 20000; spins++ {
		select {
		case tok := <-s.b.BatchTimedOut:
			s.timedOut(tok, s.waitDone(), true)
			calm = 0
		default:
			if rt.started.Load() == rt.finished.Load() {
				calm++
			} else {
				calm = 0
			}
			time.Sleep(50 * time.Microsecond)
		}
	}
	cancel() // callbacks starting from now on return without sending
	for i := 0; i < 50 && rt.started.Load() != rt.finished.Load(); i++ {
		select {
		case tok := <-s.b.BatchTimedOut:
			s.timedOut(tok, -1, false)
		default:
			time.Sleep(50 * time.Microsecond)
		}
	}
	if out := s.b.Flush(batching.CurrentBatch); len(out) != 0 {
		c.Fail("item-never-added", s.witness(""), "Flush(CurrentBatch) after the final flush handed out %v", out)
	}
	s.finish(params, s.nTimed > 0 && (s.nSize > 0 || s.nExpl > 1))
}

// recvOne blocks for the token of a callback known to be parked on BatchTimedOut.
func (s *singleLoop) recvOne(rule bool) {
	select {
	case tok := <-s.b.BatchTimedOut:
		s.timedOut(tok, s.waitDone(), rule)
	case <-time.After(watchdog):
		s.c.Inconclusive("an expired timer callback never delivered its token")
	}
}

func (s *singleLoop) waitDone() int {
	select {
	case k := <-s.rt.done:
		return k
	case <-time.After(watchdog):
		s.c.Inconclusive("the time-out callback did not return after its token was received")
		return -1
	}
}
