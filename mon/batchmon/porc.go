package main

import (
	"context"
	"fmt"
	"runtime"
	"sort"
	"strconv"
	"strings"
	"sync"
	"sync/atomic"
	"time"

	"github.com/anishathalye/porcupine"
	"reduction.dev/reduction/batching"
	"reduction.dev/reduction/clocks"
	"verif/lib"
)

const (
	opAdd = iota
	opIsFull
	opFlush
)

// pIn / pOut: inputs and outputs of the recorded operations. For opFlush, X is the index of the
// timer Set call the token came from, or -1 for CurrentBatch.
type pIn struct {
	Kind int
	X    int
}
type pOut struct {
	Full  bool
	Items string // "3,4,5," ("" = nothing handed out)
}

// pState is the sequential batcher: pending ids, how many batches armed a timer so far and the
// Set index of the current batch.
type pState struct {
	batch  string
	n      int
	curArm int
	arms   int
}

func batcherModel(maxSize int, timed bool) porcupine.Model {
	return porcupine.Model{
		Init: func() any { return pState{curArm: -1} },
		Step: func(state, input, output any) (bool, any) {
			s, in, out := state.(pState), input.(pIn), output.(pOut)
			switch in.Kind {
			case opAdd:
				if s.n == 0 && timed {
					s.curArm = s.arms
					s.arms++
				}
				s.batch += strconv.Itoa(in.X) + ","
				s.n++
				return true, s
			case opIsFull:
				return out.Full == (s.n >= maxSize), s
			default:
				if s.n == 0 || (in.X != -1 && in.X != s.curArm) {
					return out.Items == "", s
				}
				if out.Items != s.batch {
					return false, s
				}
				s.batch, s.n, s.curArm = "", 0, -1
				return true, s
			}
		},
		DescribeOperation: func(input, output any) string { return descOp(input.(pIn), output.(pOut)) },
	}
}

func descOp(in pIn, out pOut) string {
	switch in.Kind {
	case opAdd:
		return fmt.Sprintf("Add(%d)", in.X)
	case opIsFull:
		return fmt.Sprintf("IsFull()->%v", out.Full)
	default:
		tok := "CurrentBatch"
		if in.X >= 0 {
			tok = fmt.Sprintf("token of timer set #%d", in.X)
		}
		return fmt.Sprintf("Flush(%s)->[%s]", tok, strings.TrimSuffix(out.Items, ","))
	}
}

func itemsOf(xs []int) string {
	var sb strings.Builder
	for _, x := range xs {
		sb.WriteString(strconv.Itoa(x))
		sb.WriteByte(',')
	}
	return sb.String()
}

// pClient records the operations of one goroutine.
type pClient struct {
	id     int
	ops    []porcupine.Operation
	clock  *atomic.Int64
	budget *atomic.Int64
	b      *batching.EventBatcher[int]
}

func (p *pClient) can() bool { return p.budget.Add(-1) >= 0 }

func (p *pClient) add(x int) {
	call := p.clock.Add(1)
	p.b.Add(x)
	p.ops = append(p.ops, porcupine.Operation{ClientId: p.id, Input: pIn{opAdd, x}, Call: call, Output: pOut{}, Return: p.clock.Add(1)})
}

func (p *pClient) isFull() bool {
	call := p.clock.Add(1)
	f := p.b.IsFull()
	p.ops = append(p.ops, porcupine.Operation{ClientId: p.id, Input: pIn{opIsFull, 0}, Call: call, Output: pOut{Full: f}, Return: p.clock.Add(1)})
	return f
}

func (p *pClient) flush(tok batching.BatchToken, k int) []int {
	call := p.clock.Add(1)
	out := p.b.Flush(tok)
	p.ops = append(p.ops, porcupine.Operation{ClientId: p.id, Input: pIn{opFlush, k}, Call: call, Output: pOut{Items: itemsOf(out)}, Return: p.clock.Add(1)})
	return out
}

type step struct{ Kind, Pause int } // Kind: opAdd / opIsFull / opFlush(Current); for the clock: 0 = fire

func batcherPorcupine(c *lib.Ctx) {
	r := c.R
	nClients := 2 + r.Intn(3)
	maxSize := 1 + r.Intn(4)
	real := c.Index%4 == 3
	maxDelay := time.Millisecond
	if real {
		maxDelay = time.Duration(1+r.Intn(100)) * time.Microsecond
	}
	pauses := []int{0, 0, 1, 1, 2, 3, 4, 6, -1, -1, -1}
	// pause kind -1: spin until the clock goroutine bumps the shared tick, so that several clients
	// leave the rendezvous together
	var tick atomic.Int64
	var clientsDone atomic.Bool
	rendezvous := func(k int) {
		if k >= 0 {
			pause(k)
			return
		}
		seen := tick.Load()
		for i := 0; i < 20000 && tick.Load() == seen; i++ {
			if i%64 == 63 {
				runtime.Gosched()
			}
		}
	}
	// plans (all randomness is drawn here, before any goroutine starts)
	type plan struct {
		Role  string
		Steps []step
	}
	plans := make([]plan, nClients)
	mk := func(role string, nSteps int) plan {
		p := plan{Role: role}
		for i := 0; i < nSteps; i++ {
			k := opAdd
			if role == "flusher" {
				k = lib.Pick(r, []int{opFlush, opFlush, opIsFull})
			}
			p.Steps = append(p.Steps, step{k, lib.Pick(r, pauses)})
		}
		return p
	}
	plans[0] = mk("adder", 3+r.Intn(12))
	plans[1] = plan{Role: "timeout-consumer"}
	for i := 2; i < nClients; i++ {
		if r.Intn(4) == 0 {
			plans[i] = mk("adder", 2+r.Intn(6))
		} else {
			plans[i] = mk("flusher", 2+r.Intn(8))
		}
	}
	var clockPlan []step
	for i := 4 + r.Intn(20); i > 0 && !real; i-- {
		clockPlan = append(clockPlan, step{0, lib.Pick(r, pauses)})
	}
	var timerPauses []int // yields inside Set/Stop = inside the batcher's critical sections
	for i := 0; i < 8; i++ {
		timerPauses = append(timerPauses, lib.Pick(r, []int{0, 1, 1, 2, 3}))
	}
	fireNowPlan := make([]bool, 64)
	for i := range fireNowPlan {
		fireNowPlan[i] = !real && r.Intn(3) == 0
	}
	params := map[string]any{"clients": nClients, "max_size": maxSize, "max_delay": maxDelay.String(),
		"timer": map[bool]string{true: "clocks.SystemTimer", false: "harness"}[real]}

	ctx, cancel := context.WithCancel(context.Background())
	defer cancel()
	lt := &logicalTimer{}
	var inner clocks.Timer = lt
	if real {
		inner = &clocks.SystemTimer{}
	}
	rt := newRecTimer(inner)
	rt.fireNow = func(k int) bool { return k < len(fireNowPlan) && fireNowPlan[k] }
	rt.pauses = timerPauses
	b := batching.NewEventBatcher[int](ctx, batching.EventBatcherParams{MaxDelay: maxDelay, MaxSize: maxSize, Timer: rt})
	var clock, budget atomic.Int64
	budget.Store(59) // + the final flush = 60
	clients := make([]*pClient, nClients)
	for i := range clients {
		clients[i] = &pClient{id: i, clock: &clock, budget: &budget, b: b}
	}

	var wg sync.WaitGroup
	allIDs := map[int]bool{}
	nextID := 1
	for i, pl := range plans {
		if pl.Role == "timeout-consumer" {
			continue
		}
		p, pl := clients[i], pl
		var myIDs []int
		for _, st := range pl.Steps {
			if st.Kind == opAdd && pl.Role == "adder" {
				myIDs = append(myIDs, nextID)
				nextID++
			}
		}
		wg.Add(1)
		go func() {
			defer wg.Done()
			ai := 0
			for _, st := range pl.Steps {
				rendezvous(st.Pause)
				switch {
				case pl.Role == "adder":
					// sourcerunner.batchingOperator.HandleEvent / operator.handleUserEvent
					if !p.can() {
						return
					}
					p.add(myIDs[ai])
					ai++
					if !p.can() {
						return
					}
					if p.isFull() {
						if !p.can() {
							return
						}
						p.flush(batching.CurrentBatch, -1)
					}
				case st.Kind == opIsFull:
					if !p.can() {
						return
					}
					p.isFull()
				default:
					if !p.can() {
						return
					}
					p.flush(batching.CurrentBatch, -1)
				}
			}
		}()
	}
	// the time-out consumer (batchingOperator's goroutine / processEvents' second select arm)
	var received atomic.Int64
	stopConsumer := make(chan struct{})
	consumerDone := make(chan struct{})
	var consumerErr atomic.Value
	go func() {
		defer close(consumerDone)
		p := clients[1]
		for {
			select {
			case tok := <-b.BatchTimedOut:
				var k int
				select {
				case k = <-rt.done:
				case <-time.After(watchdog):
					consumerErr.Store("the time-out callback did not return after its token was received")
					return
				}
				if p.can() {
					p.flush(tok, k)
				}
				received.Add(1)
			case <-stopConsumer:
				return
			}
		}
	}()
	// the clock goroutine: expires the harness timer at seeded points
	clockDone := make(chan struct{})
	go func() {
		defer close(clockDone)
		for _, st := range clockPlan {
			tick.Add(1)
			pause(max(st.Pause, 0) + 1)
			lt.Fire()
		}
		for !clientsDone.Load() {
			tick.Add(1)
			pause(1)
		}
	}()

	fin := make(chan struct{})
	go func() { wg.Wait(); clientsDone.Store(true); <-clockDone; close(fin) }()
	select {
	case <-fin:
	case <-time.After(watchdog):
		c.Inconclusive("clients did not finish (watchdog)")
	}
	// drain: every expired callback delivers its token before the final flush
	if real {
		rt.settle(200)
	} else {
		for t0 := time.Now(); received.Load() < int64(lt.Fired()); {
			if consumerErr.Load() != nil || time.Since(t0) > watchdog {
				close(stopConsumer)
				c.Inconclusive("pending tokens were not consumed: %v", consumerErr.Load())
			}
			time.Sleep(20 * time.Microsecond)
		}
	}
	// final flush by client 0 (its goroutine has ended); the consumer may still be busy in real mode
	clients[0].flush(batching.CurrentBatch, -1)
	if real {
		rt.settle(100)
		cancel()
		rt.settle(100)
	}
	close(stopConsumer)
	<-consumerDone
	if e := consumerErr.Load(); e != nil {
		c.Inconclusive("%v", e)
	}

	// ---- oracle
	var hist []porcupine.Operation
	for _, p := range clients {
		hist = append(hist, p.ops...)
	}
	sort.Slice(hist, func(i, j int) bool { return hist[i].Call < hist[j].Call })
	lines := make([]string, len(hist))
	for i, o := range hist {
		lines[i] = fmt.Sprintf("[%d,%d] client%d(%s) %s", o.Call, o.Return, o.ClientId, plans[o.ClientId].Role, descOp(o.Input.(pIn), o.Output.(pOut)))
	}
	wit := map[string]any{"params": params, "history": lines}
	if c.Verbose {
		for _, l := range lines {
			c.Logf("  %s", l)
		}
	}
	// direct: every added id handed out exactly once
	seen := map[int]int{}
	tokenFlushes, staleTokens, overlaps := 0, 0, 0
	for _, o := range hist {
		in, out := o.Input.(pIn), o.Output.(pOut)
		if in.Kind == opAdd {
			allIDs[in.X] = true
		}
		if in.Kind == opFlush {
			if in.X >= 0 {
				if out.Items != "" {
					tokenFlushes++
				} else {
					staleTokens++
				}
			}
			for _, f := range strings.Split(strings.TrimSuffix(out.Items, ","), ",") {
				if f == "" {
					continue
				}
				v, _ := strconv.Atoi(f)
				seen[v]++
			}
		}
	}
	for v, k := range seen {
		if !allIDs[v] {
			c.Violate("item-never-added", wit, "id %d was handed out but never added", v)
		} else if k > 1 {
			c.Violate("item-duplicated", wit, "id %d was handed out %d times", v, k)
		}
	}
	for v := range allIDs {
		if seen[v] == 0 {
			c.Violate("items-lost", wit, "id %d was added but never handed out (final Flush(CurrentBatch) included)", v)
		}
	}
	for i := range hist {
		for j := i + 1; j < len(hist) && hist[j].Call < hist[i].Return; j++ {
			if hist[j].ClientId != hist[i].ClientId {
				overlaps++
			}
		}
	}
	res, _ := porcupine.CheckOperationsVerbose(batcherModel(maxSize, true), hist, 10*time.Second)
	switch res {
	case porcupine.Illegal:
		c.Violate("not-linearizable", wit, "no sequential order of the %d recorded Add/IsFull/Flush operations explains their results", len(hist))
	case porcupine.Unknown:
		if !c.Violated() {
			c.Inconclusive("porcupine timed out on %d operations", len(hist))
		}
	}
	c.Feat("ops", int64(len(hist)))
	c.Feat("overlapping_op_pairs", int64(overlaps))
	c.Feat("token_flush_nonempty", int64(tokenFlushes))
	c.Feat("token_flush_empty", int64(staleTokens))
	c.Feat("timer_sets", int64(rt.Sets()))
	c.AddSig(fmt.Sprint(lines))
	c.SetSig(overlaps > 0 && tokenFlushes+staleTokens > 0, params, fmt.Sprint(plans), fmt.Sprint(clockPlan), fmt.Sprint(fireNowPlan), fmt.Sprint(timerPauses))
	if c.Index < 3 {
		c.Sample(map[string]any{"params": params, "roles": []string{plans[0].Role, plans[1].Role}, "history": firstN(lines, 40)})
	}
}
