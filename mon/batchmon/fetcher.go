package main

import (
	"context"
	"fmt"
	"runtime"
	"slices"
	"strings"
	"sync"
	"sync/atomic"
	"time"

	"reduction.dev/reduction/batching"
	"reduction.dev/reduction/clocks"
	"verif/lib"
)

// verif hook H7 (DESIGN §4): in ReorderFetcher.flush between batcher.Flush and buffer.Reserve.
const hookBetween = "batching.fetcher.between-flush-and-reserve"

type res struct{ ID, Batch int }

type fgate struct {
	idx     int
	items   []int
	release chan struct{}
	once    sync.Once
}

func (g *fgate) open() { g.once.Do(func() { close(g.release) }) }

type fenv struct {
	c        *lib.Ctx
	params   any
	stopCons func() // stops the Output consumer goroutine and waits for it (idempotent)
	rf       *batching.ReorderFetcher[int, res]
	mu       sync.Mutex
	log      []string
	arrivals []*fgate
	complete []int // arrival indexes in order of FetchBatch return
	outs     []int
	gated    bool
	latency  []int
	added    atomic.Int64
	failAt   map[int]bool // arrival indexes whose fetch fails (returns an error and no results)
	failed   map[int]bool // ids of inputs whose fetch failed
	errsSent int
}

func (f *fenv) logf(format string, args ...any) {
	f.mu.Lock()
	f.logLocked(format, args...)
	f.mu.Unlock()
}

func (f *fenv) logLocked(format string, args ...any) {
	if len(f.log) < 600 {
		f.log = append(f.log, fmt.Sprintf(format, args...))
	}
	f.c.Logf("  "+format, args...)
}

func (f *fenv) fetch(ctx context.Context, items []int) ([]res, error) {
	g := &fgate{items: slices.Clone(items), release: make(chan struct{})}
	f.mu.Lock()
	g.idx = len(f.arrivals)
	f.arrivals = append(f.arrivals, g)
	f.logLocked("fetch#%d called with %v", g.idx, items)
	f.mu.Unlock()
	if f.gated {
		select {
		case <-g.release:
		case <-time.After(watchdog):
		}
	} else if len(f.latency) > 0 {
		pause(f.latency[g.idx%len(f.latency)])
	}
	out := make([]res, len(items))
	for i, id := range items {
		out[i] = res{ID: id, Batch: g.idx}
	}
	f.mu.Lock()
	f.complete = append(f.complete, g.idx)
	if f.failAt[g.idx] && f.errsSent < 8 {
		// a failed fetch: its inputs get no result, everything else still comes out in order
		f.errsSent++
		for _, id := range items {
			f.failed[id] = true
		}
		f.logLocked("fetch#%d fails", g.idx)
		f.mu.Unlock()
		return nil, fmt.Errorf("verif: injected fetch error for batch #%d", g.idx)
	}
	f.logLocked("fetch#%d returns", g.idx)
	f.mu.Unlock()
	return out, nil
}

func (f *fenv) witness() any {
	f.mu.Lock()
	defer f.mu.Unlock()
	var batches []string
	for _, g := range f.arrivals {
		batches = append(batches, fmt.Sprintf("fetch#%d=%v", g.idx, g.items))
	}
	return map[string]any{"params": f.params, "history": slices.Clone(f.log), "fetch_batches": batches, "fetch_return_order": slices.Clone(f.complete), "output_ids": slices.Clone(f.outs)}
}

// checkPrefix fails when the emitted ids are not 1,2,3,... (inputs whose fetch failed have no result). It
// returns the number of inputs accounted for: results emitted + inputs of failed fetches.
func (f *fenv) checkPrefix() int {
	f.mu.Lock()
	bad, m := -1, len(f.outs)+len(f.failed)
	next := 1
	for i, v := range f.outs {
		for f.failed[next] {
			next++
		}
		if v != next {
			bad = i
			break
		}
		next++
	}
	var got int
	if bad >= 0 {
		got = f.outs[bad]
	}
	f.mu.Unlock()
	if bad >= 0 {
		kind := "output-out-of-order"
		if got < next {
			kind = "output-duplicated"
		}
		f.c.Fail(kind, f.witness(), "Output position %d carries the result of input %d, expected input %d (one result per input whose fetch succeeded, in input order)", bad, got, next)
	}
	return m
}

// snapshot of the goroutines that are inside this package's ReorderFetcher.flush / its fetch closure
type gsnap struct{ fetchAlive, flushing, parkedInReserve int }

func fetcherGoroutines() gsnap {
	buf := make([]byte, 1<<20)
	for {
		n := runtime.Stack(buf, true)
		if n < len(buf) {
			buf = buf[:n]
			break
		}
		buf = make([]byte, 2*len(buf))
	}
	var s gsnap
	for _, g := range strings.Split(string(buf), "\n\n") {
		if !strings.Contains(g, "batching.(*ReorderFetcher[") {
			continue
		}
		switch {
		case strings.Contains(g, "]).flush.func1"):
			s.fetchAlive++
		case strings.Contains(g, "]).flush("):
			s.flushing++
			head, _, _ := strings.Cut(g, "\n")
			if strings.Contains(head, "[chan send") && strings.Contains(g, "]).Reserve(") {
				s.parkedInReserve++
			}
		}
	}
	return s
}

// awaitOutputs waits until `want` results were emitted (checking order all the way). When the
// fetcher has provably come to rest with fewer results it fails the case.
func (f *fenv) awaitOutputs(want int, adderDone func() bool, why string) {
	t0 := time.Now()
	for spins := 0; ; spins++ {
		if f.checkPrefix() >= want {
			return
		}
		if spins > 20 && spins%20 == 0 {
			f.restOrFail(adderDone(), want, why)
		}
		if time.Since(t0) > watchdog {
			f.c.Inconclusive("watchdog: %d of %d results after %s", f.checkPrefix(), want, why)
		}
		if spins < 10 {
			runtime.Gosched()
		} else {
			time.Sleep(20 * time.Microsecond)
		}
	}
}

// restOrFail: logical end-of-activity predicate (no wall clock): no fetch goroutine exists, and
// every goroutine inside flush is parked for good in Reserve (slots are only freed by fetch
// goroutines, which only flush can start).
func (f *fenv) restOrFail(adderDone bool, want int, why string) bool {
	s := fetcherGoroutines()
	if s.fetchAlive != 0 || s.flushing != s.parkedInReserve {
		return false
	}
	// at rest. The consumer goroutine is stopped first: only one receiver may be active, or a result
	// it holds but has not recorded yet would look lost / overtaken.
	if s.parkedInReserve > 0 {
		f.stopCons()
		f.drainOutput()
		m := f.checkPrefix()
		f.c.Fail("fetcher-stalled", f.witness(), "%s: %d goroutine(s) are parked in ReorderBuffer.Reserve, no fetch is in flight that could free a slot; %d results emitted", why, s.parkedInReserve, m)
	}
	if !adderDone {
		return false
	}
	f.stopCons()
	f.drainOutput()
	if m := f.checkPrefix(); m < want {
		f.c.Fail("output-lost", f.witness(), "%s: every fetch returned and no goroutine is left inside the fetcher, but only %d of %d inputs are accounted for (results emitted + inputs of failed fetches)", why, m, want)
	}
	return true
}

func (f *fenv) drainOutput() {
	for {
		select {
		case r := <-f.rf.Output:
			f.mu.Lock()
			f.outs = append(f.outs, r.ID)
			f.logLocked("output %d (fetch#%d)", r.ID, r.Batch)
			f.mu.Unlock()
		default:
			return
		}
	}
}

func (f *fenv) awaitArrivals(k int, why string) {
	t0 := time.Now()
	for spins := 0; ; spins++ {
		f.mu.Lock()
		m := len(f.arrivals)
		f.mu.Unlock()
		if m >= k {
			return
		}
		if time.Since(t0) > watchdog {
			f.c.Inconclusive("watchdog: fetch #%d was never started (%s)", k-1, why)
		}
		if spins < 10 {
			runtime.Gosched()
		} else {
			time.Sleep(10 * time.Microsecond)
		}
	}
}

var (
	hookOnce    sync.Once
	hookPresent bool
)

// probeHook: is the H7 point compiled into the repository? One size-triggered flush tells.
func probeHook() bool {
	hookOnce.Do(func() {
		s := lib.NewSched(1, 0)
		s.Install()
		defer s.Uninstall()
		ctx, cancel := context.WithCancel(context.Background())
		defer cancel()
		rf := batching.NewReorderFetcher(ctx, batching.NewReorderFetcherParams[int, res]{
			Batcher:    batching.NewEventBatcher[int](ctx, batching.EventBatcherParams{MaxSize: 1}),
			FetchBatch: func(ctx context.Context, in []int) ([]res, error) { return make([]res, len(in)), nil },
			ErrChan:    make(chan error, 1), BufferSize: 1,
		})
		rf.Add(ctx, 1)
		select {
		case <-rf.Output:
		case <-time.After(watchdog):
		}
		hookPresent = s.Count(hookBetween) > 0
	})
	return hookPresent
}

var perms = func() [][]int {
	var out [][]int
	var rec func(cur []int, rest []int)
	rec = func(cur, rest []int) {
		if len(rest) == 0 {
			out = append(out, slices.Clone(cur))
			return
		}
		for i := range rest {
			nr := append(slices.Clone(rest[:i]), rest[i+1:]...)
			rec(append(cur, rest[i]), nr)
		}
	}
	for k := 1; k <= 4; k++ {
		base := make([]int, k)
		for i := range base {
			base[i] = i
		}
		rec(nil, base)
	}
	return out // 1 + 2 + 6 + 24 = 33
}()

func fetcherCase(c *lib.Ctx) {
	r := c.R
	hook := probeHook()
	mode := []string{"perm", "latency", "latency", "overtake"}[c.Index%4]
	f := &fenv{c: c, failAt: map[int]bool{}, failed: map[int]bool{}}
	c.OnPanic = f.witness

	// ---- parameters
	var (
		maxSize, bufSize int
		maxDelay         time.Duration
		real             bool
		perm             []int
	)
	switch mode {
	case "perm":
		perm = perms[(c.Index/4)%len(perms)]
		maxSize = 1 + r.Intn(3)
		bufSize = len(perm) + lib.Pick(r, []int{0, 0, 1, 3})
		maxDelay = time.Millisecond
		f.gated = true
	case "latency":
		maxSize = 1 + r.Intn(5)
		bufSize = lib.Pick(r, []int{0, 1, 2, 4, 8})
		switch r.Intn(10) {
		case 0:
			maxDelay = 0
		case 1, 2, 3:
			maxDelay = time.Millisecond // harness timer
		default:
			real = true
			maxDelay = time.Duration(1+r.Intn(150)) * time.Microsecond
		}
		for i := 0; i < 16; i++ {
			f.latency = append(f.latency, lib.Pick(r, []int{0, 0, 1, 2, 3, 5, 10, 20, 60}))
		}
		if r.Intn(3) == 0 { // some fetches fail: later batches must still come out, in order
			for i := 0; i < 1+r.Intn(4); i++ {
				f.failAt[r.Intn(12)] = true
			}
		}
	default:
		maxSize = 2 + r.Intn(3)
		bufSize = lib.Pick(r, []int{2, 4, 8})
		maxDelay = time.Millisecond
		for i := 0; i < 8; i++ {
			f.latency = append(f.latency, lib.Pick(r, []int{0, 0, 1, 3}))
		}
	}
	params := map[string]any{"mode": mode, "max_size": maxSize, "buffer_size": bufSize, "max_delay": maxDelay.String(),
		"timer": map[bool]string{true: "clocks.SystemTimer", false: "harness"}[real], "hook": hook}
	if perm != nil {
		params["release_order"] = perm
	}
	c.Logf("params %v", params)
	f.params = params

	sched := lib.NewSched(r.Int63(), lib.Pick(r, []int{0, 0, 30, 60}))
	sched.SetFilter(func(name string, arg any) bool { return name == hookBetween })
	sched.Install()
	defer sched.Uninstall()

	ctx, cancel := context.WithCancel(context.Background())
	lt := &logicalTimer{}
	var inner clocks.Timer = lt
	if real {
		inner = &clocks.SystemTimer{}
	}
	rt := newRecTimer(inner)
	for i := 0; i < 8 && mode != "perm"; i++ { // yields inside Set / Stop (Stop runs at the end of batcher.Flush)
		rt.pauses = append(rt.pauses, lib.Pick(r, []int{0, 0, 1, 2, 3}))
	}
	errCh := make(chan error, 16)
	f.rf = batching.NewReorderFetcher(ctx, batching.NewReorderFetcherParams[int, res]{
		Batcher:    batching.NewEventBatcher[int](ctx, batching.EventBatcherParams{MaxDelay: maxDelay, MaxSize: maxSize, Timer: rt}),
		FetchBatch: f.fetch,
		ErrChan:    errCh,
		BufferSize: bufSize,
	})
	stopConsumer := make(chan struct{})
	consumerDone := make(chan struct{})
	go func() { // sourcerunner's output goroutine
		defer close(consumerDone)
		for {
			select {
			case x := <-f.rf.Output:
				f.mu.Lock()
				f.outs = append(f.outs, x.ID)
				f.logLocked("output %d (fetch#%d)", x.ID, x.Batch)
				f.mu.Unlock()
			case <-stopConsumer:
				return
			}
		}
	}()
	var stopOnce sync.Once
	stopCons := func() { stopOnce.Do(func() { close(stopConsumer); <-consumerDone }) }
	f.stopCons = stopCons
	defer func() {
		// leave nothing parked behind, whatever the verdict
		f.mu.Lock()
		gs := slices.Clone(f.arrivals)
		f.mu.Unlock()
		for _, g := range gs {
			g.open()
		}
		sched.ReleaseAll()
		stopCons()
		if real {
			rt.settle(30)
		}
		cancel()
		out := f.rf.Output
		go func() {
			for {
				select {
				case <-out:
				case <-time.After(30 * time.Millisecond):
					return
				}
			}
		}()
	}()

	// In a third of the cases every Add / Flush call gets a context of its own that ends as soon as the call has
	// returned, while the fetcher lives on (the source runner calls with its deployment context, the time-out
	// flushes run under the fetcher's own): a result must reach Output whatever happened to the context of the
	// call that started its fetch, or of any other call.
	perCall := r.Intn(3) == 0
	if perCall {
		c.Feat("cases_with_per_call_contexts", 1)
	}
	callCtx := func() (context.Context, func()) {
		if !perCall {
			return ctx, func() {}
		}
		return context.WithCancel(ctx)
	}
	flushCall := func() {
		cx, end := callCtx()
		f.rf.Flush(cx)
		end()
	}
	add := func(id int) {
		f.logf("add(%d)", id)
		cx, end := callCtx()
		f.rf.Add(cx, id)
		end()
		f.added.Store(int64(id))
	}
	var adderFinished atomic.Bool
	total := 0
	timeoutFlushes, overtakes, blocked := 0, 0, 0

	switch mode {
	case "perm":
		// main is the Add caller: with BufferSize >= k no Reserve can block
		k := len(perm)
		sizes := make([]int, k)
		bounds := make([]int, k+1)
		for i := 0; i < k; i++ {
			trig := "size"
			if maxSize > 1 && r.Intn(2) == 0 {
				trig = lib.Pick(r, []string{"timeout", "explicit"})
			}
			sizes[i] = maxSize
			if trig != "size" {
				sizes[i] = 1 + r.Intn(maxSize-1)
			}
			for j := 0; j < sizes[i]; j++ {
				total++
				add(total)
			}
			switch trig {
			case "timeout":
				if lt.Fire() {
					f.logf("timer expires")
					timeoutFlushes++
				} else {
					f.logf("flush() [timer was not armed]")
					flushCall()
				}
			case "explicit":
				f.logf("flush()")
				flushCall()
			}
			bounds[i+1] = total
			f.awaitArrivals(i+1, "batch "+trig)
			f.mu.Lock()
			got := f.arrivals[i].items
			f.mu.Unlock()
			if len(got) != sizes[i] || got[0] != bounds[i]+1 || got[len(got)-1] != bounds[i+1] {
				c.Fail("fetch-input-wrong", f.witness(), "fetch #%d was given %v, expected ids %d..%d", i, got, bounds[i]+1, bounds[i+1])
			}
		}
		adderFinished.Store(true)
		released := make([]bool, k)
		for _, j := range perm {
			f.logf("release fetch#%d", j)
			f.mu.Lock()
			g := f.arrivals[j]
			f.mu.Unlock()
			g.open()
			released[j] = true
			p := 0
			for p < k && released[p] {
				p++
			}
			f.awaitOutputs(bounds[p], adderFinished.Load, fmt.Sprintf("releasing fetch#%d", j))
			pause(2)
		}
	case "latency":
		plan := make([][2]int, 8+r.Intn(73))
		for i := range plan {
			plan[i] = [2]int{lib.Pick(r, []int{0, 0, 0, 1, 2, 3, 4, 8, 20}), r.Intn(16)}
		}
		total = len(plan)
		go func() {
			for i, st := range plan {
				pause(st[0])
				add(i + 1)
				switch {
				case st[1] == 0:
					f.logf("flush()")
					flushCall()
				case st[1] < 5 && !real && lt.Fire():
					f.logf("timer expires")
				}
			}
			f.logf("flush() [final]")
			flushCall()
			adderFinished.Store(true)
		}()
	default: // overtake
		rounds := 1 + r.Intn(3)
		type round struct{ head, yield, tail int }
		var rs []round
		for i := 0; i < rounds; i++ {
			rs = append(rs, round{1 + r.Intn(maxSize-1), r.Intn(5), r.Intn(3)})
		}
		for _, rd := range rs {
			f.checkPrefix()
			for j := 0; j < rd.head || !lt.Armed(); j++ { // ends with a non-empty batch and an armed timer
				total++
				add(total)
			}
			var g *lib.Gate
			if hook {
				g = sched.Arm(hookBetween)
			}
			if !lt.Fire() {
				c.Inconclusive("harness: timer not armed after %d adds into an empty batcher", rd.head)
			}
			f.logf("timer expires")
			timeoutFlushes++
			if hook {
				if !g.Arrived(watchdog) {
					c.Inconclusive("the time-out flush never reached %s", hookBetween)
				}
				f.logf("time-out goroutine parked between batcher.Flush and buffer.Reserve")
			} else {
				pause(rd.yield)
			}
			// the Add caller fills and flushes the next batch meanwhile
			first := total + 1
			total += maxSize + rd.tail
			last := total
			done := make(chan struct{})
			go func() {
				defer close(done)
				for id := first; id <= last; id++ {
					add(id)
				}
			}()
			if hook {
				select {
				case <-done:
					overtakes++
					f.logf("Add caller flushed ids %d.. while the time-out flush was parked", first)
				case <-time.After(400 * time.Microsecond):
					blocked++
				}
				f.logf("release time-out goroutine")
				g.Release()
			}
			select {
			case <-done:
			case <-time.After(watchdog):
				if !f.restOrFail(false, total, "Add caller blocked") {
					c.Inconclusive("watchdog: Add caller did not return")
				}
			}
		}
		f.logf("flush() [final]")
		flushCall()
		adderFinished.Store(true)
	}

	// ---- common end: all results, in order, nothing more
	f.awaitOutputs(total, adderFinished.Load, "the final flush")
	t0 := time.Now()
	for !f.restOrFail(adderFinished.Load(), total, "end of case") {
		if time.Since(t0) > watchdog {
			c.Inconclusive("watchdog: fetcher goroutines did not come to rest")
		}
		time.Sleep(20 * time.Microsecond)
	}
	stopCons()
	f.drainOutput()
	if m := f.checkPrefix(); m != total {
		c.Fail("output-duplicated", f.witness(), "%d inputs are accounted for (results emitted + inputs of failed fetches), %d were added", m, total)
	}
	gotErrs := 0
	for more := true; more; {
		select {
		case <-errCh:
			gotErrs++
		default:
			more = false
		}
	}
	f.mu.Lock()
	sentErrs, failedInputs := f.errsSent, len(f.failed)
	f.mu.Unlock()
	if gotErrs != sentErrs {
		c.Fail("fetch-error", f.witness(), "%d fetches failed, the error channel got %d errors", sentErrs, gotErrs)
	}
	c.Feat("fetches_failed", int64(sentErrs))
	c.Feat("inputs_of_failed_fetches", int64(failedInputs))

	f.mu.Lock()
	inversions := 0
	for i := range f.complete {
		for j := i + 1; j < len(f.complete); j++ {
			if f.complete[i] > f.complete[j] {
				inversions++
			}
		}
	}
	nb := len(f.arrivals)
	logCopy := slices.Clone(f.log)
	f.mu.Unlock()
	c.Feat("items", int64(total))
	c.Feat("batches", int64(nb))
	c.Feat("fetch_completion_inversions", int64(inversions))
	c.Feat("timer_sets", int64(rt.Sets()))
	c.Feat("timer_callbacks_run", rt.started.Load())
	c.Feat("timeout_flush_forced", int64(timeoutFlushes))
	c.Feat("hook_hits", int64(sched.Count(hookBetween)))
	c.Feat("overtake_completed_while_parked", int64(overtakes))
	c.Feat("overtake_blocked_until_release", int64(blocked))
	c.Feat("mode_"+mode, 1)
	c.AddSig(sched.TraceHash(), fmt.Sprint(f.complete))
	nontrivial := mode == "perm" || inversions > 0 || overtakes+blocked > 0 || (mode == "latency" && rt.started.Load() > 0) || (mode == "overtake" && timeoutFlushes > 0)
	c.SetSig(nontrivial, fmt.Sprint(params), fmt.Sprint(f.latency), total)
	if c.Index < 4 {
		c.Sample(map[string]any{"params": params, "inputs": total, "history_prefix": firstN(logCopy, 40)})
	}
}
