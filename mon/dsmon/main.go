// dsmon — C19: in-memory ordered structures versus a sorted-slice reference (DESIGN §6 C19).
package main

import (
	"bytes"
	"cmp"
	"fmt"
	"iter"
	"math/rand"
	"slices"
	"sort"

	"reduction.dev/reduction/dkv/mergesort"
	"reduction.dev/reduction/dkv/ziptree"
	"reduction.dev/reduction/util/ds"
	"reduction.dev/reduction/util/iteru"
	"reduction.dev/reduction/util/sliceu"
	"verif/lib"
)

func n(q, t int) func(string) int {
	return func(tier string) int {
		if tier == "thorough" {
			return t
		}
		return q
	}
}

const level = "exploration"

var assume = []string{"single-threaded use of every structure (as in the repository)", "reference = naive sorted slice / linear scan"}

func main() {
	lib.Main(
		&lib.Prop{ID: "C19", Part: "ziptree", Level: level, NCases: n(1500, 120000), Run: zipTree, Assumptions: assume,
			Rule: "random Put/Get/AscendPrefix(+early break, + a second pass over the same sequence value, + a Put between obtaining and ranging over it) sequences (<=60 ops) over <=12 prefix-related binary keys, run against dkv/ziptree and a sorted slice; non-trivial = at least one replacement and one prefix iteration over >=2 nodes; distinct by op-sequence hash"},
		&lib.Prop{ID: "C19", Part: "heap", Level: level, NCases: n(1500, 120000), Run: heap, Assumptions: assume,
			Rule: "Push/Pop/Peek/Fix(after priority change)/Size sequences on ds.Heap with an index assigner; after every op: min equals reference min, every element's assigned index equals its position (checked through Fix of that index being a no-op on order) ; non-trivial = >=1 Fix that moved and >=1 duplicate priority"},
		&lib.Prop{ID: "C19", Part: "ppq", Level: level, NCases: n(1500, 120000), Run: ppq, Assumptions: assume,
			Rule: "Push/Pop/Peek/Delete/IsEmpty sequences on ds.PartitionedPriorityQueue over 1..5 in-memory partitions (some staying empty; half of the queues are built over partitions that already hold items); pops must come in global priority order; non-trivial = >=2 non-empty partitions and >=1 Delete of a partition minimum"},
		&lib.Prop{ID: "C19", Part: "sortedcache", Level: level, NCases: n(1500, 120000), Run: sortedCache, Assumptions: assume,
			Rule: "Push(incl. duplicates)/Pop/PopLast/Delete/Peek/IsEmpty/IsFull sequences on ds.SortedCache with max size 1..40 bytes; IsFull must equal (sum of lengths of contents >= max); non-trivial = >=1 duplicate push and >=1 IsFull flip"},
		&lib.Prop{ID: "C19", Part: "set", Level: level, NCases: n(1500, 120000), Run: set, Assumptions: assume,
			Rule: "Add/Added/Without/Diff/Has/All/Size/Slice on ds.Set versus an insertion-ordered slice, persistence of receivers of Added/Without/Diff checked; non-trivial = >=1 persistent op and >=1 duplicate add"},
		&lib.Prop{ID: "C19", Part: "sortedmap", Level: level, NCases: n(1500, 120000), Run: sortedMap, Assumptions: assume,
			Rule: "Set/Get/Has/Delete/Keys/Values/All/Size on ds.SortedMap[string,int] versus a sorted slice; non-trivial = >=1 overwrite and >=1 delete of a present key"},
		&lib.Prop{ID: "C19", Part: "merge", Level: level, NCases: n(1500, 120000), Run: merge, Assumptions: assume,
			Rule: "mergesort.Merge (dedupe by key, pick highest version) and iteru.MergeSorted (keep duplicates) over 0..6 sorted inputs (some empty, shared keys, several versions of a key inside one input) versus sort+dedupe of the concatenation, full consumption and early break; non-trivial = a key present in >=2 inputs"},
		&lib.Prop{ID: "C19", Part: "searchunique", Level: level, NCases: n(1, 1), Run: searchUniqueExhaustive, Assumptions: assume,
			Rule: "sliceu.SearchUnique: EXHAUSTIVE over slice lengths 0..12, every present position and every absent gap (before, between, after); result must be (index,true) for present and (_,false) for absent"},
		&lib.Prop{ID: "C19", Part: "searchunique-rand", Level: level, NCases: n(500, 40000), Run: searchUniqueRandom, Assumptions: assume,
			Rule: "sliceu.SearchUnique over random strictly increasing int slices of length 0..200 with a range comparator (like sst.Table.RangeKeyCompare): disjoint [lo,hi] ranges, targets inside a range, in gaps, outside"},
	)
}

type op struct {
	Op  string `json:"op"`
	K   string `json:"k,omitempty"`
	V   string `json:"v,omitempty"`
	Got string `json:"got,omitempty"`
}

// ---------------------------------------------------------------- zip tree

func zipTree(c *lib.Ctx) {
	r := c.R
	keys := lib.KeyUniverse(r, 2+r.Intn(11), 3)
	prefixes := lib.Prefixes(keys)
	tree := ziptree.New()
	ref := lib.NewRefMap()
	vg := &lib.ValueGen{Writer: "z"}
	var ops []op
	nops := 5 + r.Intn(56)
	repl, iter2 := 0, 0
	for i := 0; i < nops; i++ {
		switch x := r.Intn(10); {
		case x < 5:
			k, v := lib.Pick(r, keys), vg.Next(r, 0)
			ops = append(ops, op{Op: "put", K: lib.Q(k), V: string(v)})
			old, had := ref.Put(k, v)
			replaced := tree.Put(ziptree.NewNode(k, v, i))
			if had != (replaced != nil) {
				c.Fail("ziptree-put-replaced", ops, "Put(%q) replaced=%v, reference had key=%v", k, replaced != nil, had)
			}
			if had {
				repl++
				if !bytes.Equal(replaced.Value, old) || !bytes.Equal(replaced.Key, k) {
					c.Fail("ziptree-put-replaced", ops, "Put(%q) returned old node %q=%q, reference old value %q", k, replaced.Key, replaced.Value, old)
				}
			}
		case x < 8:
			k := lib.Pick(r, keys)
			if r.Intn(4) == 0 {
				k = lib.Pick(r, prefixes)
			}
			ops = append(ops, op{Op: "get", K: lib.Q(k)})
			node, ok := tree.Get(k)
			want, wok := ref.Get(k)
			if ok != wok || (ok && (!bytes.Equal(node.Value, want) || !bytes.Equal(node.Key, k))) {
				c.Fail("ziptree-get", ops, "Get(%q) = (%v,%v), reference (%q,%v)", k, nodeStr(node), ok, want, wok)
			}
		default:
			p := lib.Pick(r, prefixes)
			limit := -1
			if r.Intn(3) == 0 {
				limit = r.Intn(3)
			}
			ops = append(ops, op{Op: "ascend", K: lib.Q(p), V: fmt.Sprint(limit)})
			var got []lib.KV
			seq := tree.AscendPrefix(p)
			for node := range seq {
				if limit >= 0 && len(got) >= limit {
					break
				}
				got = append(got, lib.KV{K: node.Key, V: node.Value})
			}
			want := ref.Scan(p)
			full := want
			if limit >= 0 && len(want) > limit {
				want = want[:limit]
			}
			if len(want) >= 2 {
				iter2++
			}
			if !lib.EqualKVs(got, want) {
				c.Fail("ziptree-ascend", ops, "AscendPrefix(%q) limit %d = %v, reference %v", p, limit, lib.FmtKVs(got), lib.FmtKVs(want))
			}
			// the same sequence value iterated once more (after a complete pass or after an early break) starts
			// from the beginning again and yields everything: an iter.Seq is not a one-shot cursor
			if r.Intn(2) == 0 {
				var again []lib.KV
				for node := range seq {
					again = append(again, lib.KV{K: node.Key, V: node.Value})
				}
				if !lib.EqualKVs(again, full) {
					c.Fail("ziptree-ascend", ops, "AscendPrefix(%q): a second pass over the same sequence (first pass limit %d) = %v, reference %v", p, limit, lib.FmtKVs(again), lib.FmtKVs(full))
				}
			}
		}
	}
	// final full iteration
	var got []lib.KV
	for node := range tree.AscendPrefix(nil) {
		got = append(got, lib.KV{K: node.Key, V: node.Value})
	}
	if !lib.EqualKVs(got, ref.All()) {
		c.Fail("ziptree-ascend", ops, "final AscendPrefix(nil) = %v, reference %v", lib.FmtKVs(got), lib.FmtKVs(ref.All()))
	}
	c.Feat("ops", int64(nops))
	c.Feat("replacements", int64(repl))
	c.Feat("multi_node_iterations", int64(iter2))
	c.SetSig(repl > 0 && iter2 > 0, fmt.Sprint(ops))
	if c.Index < 3 {
		c.Sample(ops)
	}
}

func nodeStr(n *ziptree.Node) string {
	if n == nil {
		return "nil"
	}
	return fmt.Sprintf("%q=%q", n.Key, n.Value)
}

// ---------------------------------------------------------------- heap

type hitem struct {
	id  int
	pri int
	idx int
}

func heap(c *lib.Ctx) {
	r := c.R
	h := ds.NewHeap(func(a, b *hitem) int { return cmp.Compare(a.pri, b.pri) }, r.Intn(4))
	useIdx := r.Intn(5) > 0
	if useIdx {
		h.SetIndexAssigner(func(it *hitem, i int) { it.idx = i })
	}
	var ref []*hitem // unordered
	var ops []string
	nops := 5 + r.Intn(56)
	pris := 1 + r.Intn(6)
	moved, dups := 0, 0
	nextID := 0
	refMin := func() int {
		m := ref[0].pri
		for _, it := range ref {
			m = min(m, it.pri)
		}
		return m
	}
	for i := 0; i < nops; i++ {
		switch x := r.Intn(10); {
		case x < 4 || len(ref) == 0 && x < 7:
			it := &hitem{id: nextID, pri: r.Intn(pris), idx: -7}
			nextID++
			for _, o := range ref {
				if o.pri == it.pri {
					dups++
					break
				}
			}
			ops = append(ops, fmt.Sprintf("push(%d,p%d)", it.id, it.pri))
			h.Push(it)
			ref = append(ref, it)
		case x < 7:
			ops = append(ops, "pop")
			got, ok := h.Pop()
			if ok != (len(ref) > 0) {
				c.Fail("heap-pop", ops, "Pop ok=%v with %d reference elements", ok, len(ref))
			}
			if ok {
				if got.pri != refMin() {
					c.Fail("heap-pop", ops, "Pop returned priority %d, reference minimum %d", got.pri, refMin())
				}
				j := slices.Index(ref, got)
				if j < 0 {
					c.Fail("heap-pop", ops, "Pop returned an element (%d) that is not in the heap", got.id)
				}
				ref = slices.Delete(ref, j, j+1)
			}
		case x < 8:
			ops = append(ops, "peek")
			got, ok := h.Peek()
			if ok != (len(ref) > 0) || (ok && got.pri != refMin()) {
				c.Fail("heap-peek", ops, "Peek = (%v,%v), reference size %d", got, ok, len(ref))
			}
		default:
			if !useIdx || len(ref) == 0 {
				ops = append(ops, "fix(-1)")
				h.Fix(-1)
				continue
			}
			it := lib.Pick(r, ref)
			old := it.pri
			it.pri = r.Intn(pris)
			ops = append(ops, fmt.Sprintf("fix(%d: p%d->p%d @%d)", it.id, old, it.pri, it.idx))
			before := it.idx
			h.Fix(it.idx)
			if it.idx != before {
				moved++
			}
		}
		if h.Size() != len(ref) || h.IsEmpty() != (len(ref) == 0) {
			c.Fail("heap-size", ops, "Size=%d IsEmpty=%v, reference %d", h.Size(), h.IsEmpty(), len(ref))
		}
		if len(ref) > 0 {
			got, _ := h.Peek()
			if got.pri != refMin() {
				c.Fail("heap-order", ops, "after op minimum is %d, reference %d", got.pri, refMin())
			}
		}
		if useIdx {
			// assigned indexes must be a permutation of 0..n-1
			seen := make([]bool, len(ref))
			for _, it := range ref {
				if it.idx < 0 || it.idx >= len(ref) || seen[it.idx] {
					c.Fail("heap-index", ops, "element %d has assigned index %d (size %d, duplicate=%v)", it.id, it.idx, len(ref), it.idx >= 0 && it.idx < len(ref))
				}
				seen[it.idx] = true
			}
		}
	}
	// drain: must be sorted and a permutation of ref
	var drained []int
	for {
		it, ok := h.Pop()
		if !ok {
			break
		}
		drained = append(drained, it.pri)
	}
	want := make([]int, 0, len(ref))
	for _, it := range ref {
		want = append(want, it.pri)
	}
	sort.Ints(want)
	if !slices.Equal(drained, want) {
		c.Fail("heap-drain", ops, "drain gives %v, reference %v", drained, want)
	}
	c.Feat("ops", int64(nops))
	c.Feat("fix_moved", int64(moved))
	c.SetSig(moved > 0 && dups > 0, fmt.Sprint(ops))
	if c.Index < 3 {
		c.Sample(ops)
	}
}

// ---------------------------------------------------------------- partitioned priority queue

type memPart struct {
	items []int
	idx   int
}

func (p *memPart) Peek() (int, bool) {
	if len(p.items) == 0 {
		return 0, false
	}
	return slices.Min(p.items), true
}
func (p *memPart) Pop() (int, bool) {
	if len(p.items) == 0 {
		return 0, false
	}
	m := slices.Min(p.items)
	j := slices.Index(p.items, m)
	p.items = slices.Delete(p.items, j, j+1)
	return m, true
}
func (p *memPart) Push(v int) {
	if !slices.Contains(p.items, v) {
		p.items = append(p.items, v)
	}
}
func (p *memPart) IsEmpty() bool { return len(p.items) == 0 }
func (p *memPart) Delete(v int) {
	if j := slices.Index(p.items, v); j >= 0 {
		p.items = slices.Delete(p.items, j, j+1)
	}
}
func (p *memPart) AssignIndex(i int) { p.idx = i }
func (p *memPart) Index() int        { return p.idx }

func ppq(c *lib.Ctx) {
	r := c.R
	np := r.Intn(6) // 0..5 partitions
	parts := make([]ds.QueuePartition[int], np)
	for i := range parts {
		parts[i] = &memPart{}
	}
	var ref []int
	var ops []string
	used := map[int]bool{}
	// half of the queues are built over partitions that already hold items (a timer store opened on a restored
	// database), some of them over a single non-empty partition at a seeded position
	if np > 0 && r.Intn(2) == 0 {
		only := -1
		if r.Intn(3) == 0 {
			only = r.Intn(np)
		}
		for k := r.Intn(12); k >= 0; k-- {
			v := r.Intn(40)
			if only >= 0 {
				v = v/np*np + only
			}
			if !slices.Contains(ref, v) {
				ref = append(ref, v)
				mp := parts[v%np].(*memPart)
				mp.items = append(mp.items, v)
				used[v%np] = true
			}
		}
		ops = append(ops, fmt.Sprintf("built over %v", sorted(ref)))
		c.Feat("built_over_populated_partitions", 1)
	}
	// values v belong to partition v % np; priorities are the values themselves
	q := ds.NewPartitionedPriorityQueue(parts, func(a, b int) int { return cmp.Compare(a, b) }, func(v int) int { return v % np })
	if q.IsEmpty() != (len(ref) == 0) {
		c.Fail("ppq-empty", ops, "new queue: IsEmpty=%v, reference elements %v", q.IsEmpty(), sorted(ref))
	}
	if got, ok := q.Peek(); ok != (len(ref) > 0) || (ok && got != slices.Min(ref)) {
		c.Fail("ppq-peek", ops, "new queue: Peek = (%d,%v), reference elements %v", got, ok, sorted(ref))
	}
	nops := 5 + r.Intn(56)
	delMin := 0
	for i := 0; i < nops; i++ {
		switch x := r.Intn(10); {
		case np > 0 && (x < 4 || len(ref) == 0 && x < 6):
			v := r.Intn(40)
			if np > 2 && r.Intn(3) > 0 {
				v = v / np * np // partition 0 gets most; others may stay empty
				if r.Intn(2) == 0 {
					v++
				}
			}
			ops = append(ops, fmt.Sprintf("push(%d)", v))
			q.Push(v)
			used[v%np] = true
			if !slices.Contains(ref, v) {
				ref = append(ref, v)
			}
		case x < 7:
			ops = append(ops, "pop")
			got, ok := q.Pop()
			if ok != (len(ref) > 0) || (ok && got != slices.Min(ref)) {
				c.Fail("ppq-pop", ops, "Pop = (%d,%v), reference elements %v", got, ok, sorted(ref))
			}
			if ok {
				j := slices.Index(ref, got)
				ref = slices.Delete(ref, j, j+1)
			}
		case x < 8:
			ops = append(ops, "peek")
			got, ok := q.Peek()
			if ok != (len(ref) > 0) || (ok && got != slices.Min(ref)) {
				c.Fail("ppq-peek", ops, "Peek = (%d,%v), reference elements %v", got, ok, sorted(ref))
			}
		default:
			if np == 0 {
				continue
			}
			v := r.Intn(40)
			if len(ref) > 0 && r.Intn(3) > 0 {
				v = lib.Pick(r, ref)
				if r.Intn(2) == 0 { // delete the minimum of some partition
					p := v % np
					for _, o := range ref {
						if o%np == p && o < v {
							v = o
						}
					}
					delMin++
				}
			}
			ops = append(ops, fmt.Sprintf("delete(%d)", v))
			q.Delete(v)
			if j := slices.Index(ref, v); j >= 0 {
				ref = slices.Delete(ref, j, j+1)
			}
		}
		if q.IsEmpty() != (len(ref) == 0) {
			c.Fail("ppq-empty", ops, "IsEmpty=%v, reference elements %v", q.IsEmpty(), sorted(ref))
		}
		if got, ok := q.Peek(); ok != (len(ref) > 0) || (ok && got != slices.Min(ref)) {
			c.Fail("ppq-peek", ops, "after op Peek = (%d,%v), reference elements %v", got, ok, sorted(ref))
		}
	}
	var drained []int
	for {
		v, ok := q.Pop()
		if !ok {
			break
		}
		drained = append(drained, v)
	}
	if !slices.Equal(drained, sorted(ref)) {
		c.Fail("ppq-drain", ops, "drain gives %v, reference %v", drained, sorted(ref))
	}
	c.Feat("ops", int64(nops))
	c.Feat("delete_partition_min", int64(delMin))
	c.SetSig(len(used) >= 2 && delMin > 0, np, fmt.Sprint(ops))
	if c.Index < 3 {
		c.Sample(map[string]any{"partitions": np, "ops": ops})
	}
}

func sorted(xs []int) []int {
	out := slices.Clone(xs)
	sort.Ints(out)
	return out
}

// ---------------------------------------------------------------- sorted cache

func sortedCache(c *lib.Ctx) {
	r := c.R
	maxSize := uint64(1 + r.Intn(40))
	sc := ds.NewSortedCache(maxSize)
	keys := lib.KeyUniverse(r, 2+r.Intn(9), 3)
	ref := lib.NewRefMap() // key -> key
	var ops []string
	nops := 5 + r.Intn(56)
	dupPush, flips := 0, 0
	lastFull := false
	refSize := func() uint64 {
		var s uint64
		for _, kv := range ref.All() {
			s += uint64(len(kv.K))
		}
		return s
	}
	for i := 0; i < nops; i++ {
		switch x := r.Intn(12); {
		case x < 5:
			k := lib.Pick(r, keys)
			ops = append(ops, "push("+lib.Q(k)+")")
			if _, had := ref.Put(k, k); had {
				dupPush++
			}
			sc.Push(k)
		case x < 7:
			ops = append(ops, "pop")
			got, ok := sc.Pop()
			all := ref.All()
			if ok != (len(all) > 0) || (ok && !bytes.Equal(got, all[0].K)) {
				c.Fail("sortedcache-pop", ops, "Pop = (%q,%v), reference %v", got, ok, lib.FmtKVs(all))
			}
			if ok {
				ref.Delete(got)
			}
		case x < 8:
			ops = append(ops, "poplast")
			got, ok := sc.PopLast()
			all := ref.All()
			if ok != (len(all) > 0) || (ok && !bytes.Equal(got, all[len(all)-1].K)) {
				c.Fail("sortedcache-poplast", ops, "PopLast = (%q,%v), reference %v", got, ok, lib.FmtKVs(all))
			}
			if ok {
				ref.Delete(got)
			}
		case x < 10:
			k := lib.Pick(r, keys)
			ops = append(ops, "delete("+lib.Q(k)+")")
			sc.Delete(k)
			ref.Delete(k)
		default:
			ops = append(ops, "peek")
			got, ok := sc.Peek()
			all := ref.All()
			if ok != (len(all) > 0) || (ok && !bytes.Equal(got, all[0].K)) {
				c.Fail("sortedcache-peek", ops, "Peek = (%q,%v), reference %v", got, ok, lib.FmtKVs(all))
			}
		}
		if sc.IsEmpty() != (ref.Len() == 0) {
			c.Fail("sortedcache-empty", ops, "IsEmpty=%v with %d reference elements", sc.IsEmpty(), ref.Len())
		}
		wantFull := refSize() >= maxSize
		if sc.IsFull() != wantFull {
			c.Fail("sortedcache-size-accounting", ops, "IsFull=%v but contents hold %d bytes of max %d", sc.IsFull(), refSize(), maxSize)
		}
		if wantFull != lastFull {
			flips++
			lastFull = wantFull
		}
	}
	c.Feat("ops", int64(nops))
	c.Feat("duplicate_pushes", int64(dupPush))
	c.Feat("isfull_flips", int64(flips))
	c.SetSig(dupPush > 0 && flips > 0, maxSize, fmt.Sprint(ops))
	if c.Index < 3 {
		c.Sample(map[string]any{"max": maxSize, "ops": ops})
	}
}

// ---------------------------------------------------------------- set

func set(c *lib.Ctx) {
	r := c.R
	type pair struct {
		s   *ds.Set[int]
		ref []int
	}
	cur := pair{ds.NewSet[int](r.Intn(4)), nil}
	var frozen []pair // persistent snapshots that must never change
	var ops []string
	nops := 5 + r.Intn(46)
	persistent, dup := 0, 0
	refAdd := func(ref []int, vs ...int) []int {
		out := slices.Clone(ref)
		for _, v := range vs {
			if !slices.Contains(out, v) {
				out = append(out, v)
			} else {
				dup++
			}
		}
		return out
	}
	refWithout := func(ref []int, vs ...int) []int {
		var out []int
		for _, v := range ref {
			if !slices.Contains(vs, v) {
				out = append(out, v)
			}
		}
		return out
	}
	vals := func() []int {
		k := r.Intn(4)
		out := make([]int, k)
		for i := range out {
			out[i] = r.Intn(12)
		}
		return out
	}
	check := func(p pair, what string) {
		got := slices.Collect(p.s.All())
		if !slices.Equal(got, p.ref) && !(len(got) == 0 && len(p.ref) == 0) {
			c.Fail("set-order", ops, "%s: All()=%v, reference (insertion order) %v", what, got, p.ref)
		}
		if p.s.Size() != len(p.ref) || len(p.s.Slice()) != len(p.ref) {
			c.Fail("set-size", ops, "%s: Size()=%d len(Slice())=%d, reference %d", what, p.s.Size(), len(p.s.Slice()), len(p.ref))
		}
		for v := 0; v < 12; v++ {
			if p.s.Has(v) != slices.Contains(p.ref, v) {
				c.Fail("set-has", ops, "%s: Has(%d)=%v, reference %v", what, v, p.s.Has(v), p.ref)
			}
		}
	}
	for i := 0; i < nops; i++ {
		switch x := r.Intn(8); {
		case x < 3:
			vs := vals()
			ops = append(ops, fmt.Sprintf("add%v", vs))
			cur.s.Add(vs...)
			cur.ref = refAdd(cur.ref, vs...)
		case x < 5:
			vs := vals()
			ops = append(ops, fmt.Sprintf("added%v", vs))
			frozen = append(frozen, pair{cur.s, slices.Clone(cur.ref)})
			cur = pair{cur.s.Added(vs...), refAdd(cur.ref, vs...)}
			persistent++
		case x < 6:
			vs := vals()
			ops = append(ops, fmt.Sprintf("without%v", vs))
			frozen = append(frozen, pair{cur.s, slices.Clone(cur.ref)})
			cur = pair{cur.s.Without(vs...), refWithout(cur.ref, vs...)}
			persistent++
		default:
			vs := vals()
			ops = append(ops, fmt.Sprintf("diff%v", vs))
			frozen = append(frozen, pair{cur.s, slices.Clone(cur.ref)})
			other := ds.SetOf(vs...)
			cur = pair{cur.s.Diff(other), refWithout(cur.ref, vs...)}
			if other.Size() != len(refAdd(nil, vs...)) {
				c.Fail("set-size", ops, "SetOf%v has size %d", vs, other.Size())
			}
			persistent++
		}
		check(cur, "current")
		for j, f := range frozen {
			check(f, fmt.Sprintf("receiver of persistent op #%d", j))
		}
		if len(frozen) > 6 {
			frozen = frozen[len(frozen)-6:]
		}
	}
	c.Feat("ops", int64(nops))
	c.SetSig(persistent > 0 && dup > 0, fmt.Sprint(ops))
	if c.Index < 3 {
		c.Sample(ops)
	}
}

// ---------------------------------------------------------------- sorted map

func sortedMap(c *lib.Ctx) {
	r := c.R
	sm := ds.NewSortedMap[string, int]()
	ref := lib.NewRefMap()
	keys := lib.KeyUniverse(r, 2+r.Intn(9), 3)
	var ops []string
	nops := 5 + r.Intn(56)
	over, del := 0, 0
	readEvery := lib.Pick(r, []int{1, 1, 5, 0})
	for i := 0; i < nops; i++ {
		k := lib.Pick(r, keys)
		switch x := r.Intn(10); {
		case x < 4:
			ops = append(ops, fmt.Sprintf("set(%q,%d)", k, i))
			_, had := ref.Put(k, []byte(fmt.Sprint(i)))
			if isNew := sm.Set(string(k), i); isNew == had {
				c.Fail("sortedmap-set", ops, "Set(%q) new=%v, reference had=%v", k, isNew, had)
			}
			if had {
				over++
			}
		case x < 6:
			ops = append(ops, fmt.Sprintf("delete(%q)", k))
			had := ref.Delete(k)
			if removed := sm.Delete(string(k)); removed != had {
				c.Fail("sortedmap-delete", ops, "Delete(%q) removed=%v, reference had=%v", k, removed, had)
			}
			if had {
				del++
			}
		case x < 8:
			ops = append(ops, fmt.Sprintf("get(%q)", k))
			v, ok := sm.Get(string(k))
			want, wok := ref.Get(k)
			if ok != wok || sm.Has(string(k)) != wok || (ok && fmt.Sprint(v) != string(want)) {
				c.Fail("sortedmap-get", ops, "Get(%q)=(%d,%v) Has=%v, reference (%s,%v)", k, v, ok, sm.Has(string(k)), want, wok)
			}
		default:
			ops = append(ops, "iterate")
		}
		// full comparison: after every op, every 5th op, or only at the end (reads re-sort the map, so a
		// stale "sorted" flag is only visible when several mutations happen between two ordered reads)
		if readEvery == 0 && i != nops-1 || readEvery > 1 && i%readEvery != 0 && i != nops-1 {
			continue
		}
		var gotK []string
		var gotV []string
		for k, v := range sm.All() {
			gotK = append(gotK, k)
			gotV = append(gotV, fmt.Sprint(v))
		}
		var wantK, wantV []string
		for _, kv := range ref.All() {
			wantK = append(wantK, string(kv.K))
			wantV = append(wantV, string(kv.V))
		}
		vals := sm.Values()
		valS := make([]string, len(vals))
		for i, v := range vals {
			valS[i] = fmt.Sprint(v)
		}
		if !slices.Equal(gotK, wantK) || !slices.Equal(gotV, wantV) || !slices.Equal(sm.Keys(), wantK) && len(wantK) > 0 || !slices.Equal(valS, wantV) || sm.Size() != len(wantK) {
			c.Fail("sortedmap-iterate", ops, "All()=%q/%v Keys()=%q Values()=%v Size()=%d, reference %q/%v", gotK, gotV, sm.Keys(), valS, sm.Size(), wantK, wantV)
		}
	}
	c.Feat("ops", int64(nops))
	c.SetSig(over > 0 && del > 0, fmt.Sprint(ops))
	if c.Index < 3 {
		c.Sample(ops)
	}
}

// ---------------------------------------------------------------- merge iterators

type ment struct {
	k   string
	ver int
	src int
}

func merge(c *lib.Ctx) {
	r := c.R
	nin := r.Intn(7)
	keys := lib.KeyUniverse(r, 2+r.Intn(9), 3)
	inputs := make([][]*ment, nin)
	ver := 0
	shared := false
	count := map[string]int{}
	for i := range inputs {
		if r.Intn(5) == 0 {
			continue // empty input
		}
		for _, k := range keys {
			if r.Intn(2) == 0 {
				// one input may hold several versions of a key next to each other (also when it is the only input)
				reps := 1
				if r.Intn(4) == 0 {
					reps = 2 + r.Intn(2)
				}
				for ; reps > 0; reps-- {
					ver++
					inputs[i] = append(inputs[i], &ment{string(k), 0, i})
					count[string(k)]++
					if count[string(k)] >= 2 {
						shared = true
					}
				}
			}
		}
	}
	// versions assigned in a shuffled order so "newest" is not correlated with the input index
	var all []*ment
	for _, in := range inputs {
		all = append(all, in...)
	}
	for i, j := range r.Perm(len(all)) {
		all[i].ver = j + 1
	}
	seqs := func() []iter.Seq[*ment] {
		out := make([]iter.Seq[*ment], nin)
		for i := range inputs {
			out[i] = slices.Values(inputs[i])
		}
		return out
	}
	desc := make([][]string, nin)
	for i, in := range inputs {
		for _, e := range in {
			desc[i] = append(desc[i], fmt.Sprintf("%q@%d", e.k, e.ver))
		}
	}
	cmpK := func(a, b *ment) int { return cmp.Compare(a.k, b.k) }
	pick := func(a, b *ment) *ment {
		if a.ver > b.ver {
			return a
		}
		return b
	}
	// reference for Merge: per key the highest version, keys ascending
	best := map[string]*ment{}
	for _, e := range all {
		if b, ok := best[e.k]; !ok || e.ver > b.ver {
			best[e.k] = e
		}
	}
	var want []*ment
	for _, e := range best {
		want = append(want, e)
	}
	slices.SortFunc(want, cmpK)
	got := slices.Collect(mergesort.Merge(seqs(), cmpK, pick))
	if !slices.Equal(got, want) {
		c.Fail("merge-dedupe", desc, "mergesort.Merge = %v, reference %v", fmtMents(got), fmtMents(want))
	}
	// early break after k items
	if len(want) > 0 {
		k := r.Intn(len(want) + 1)
		var part []*ment
		for e := range mergesort.Merge(seqs(), cmpK, pick) {
			if len(part) >= k {
				break
			}
			part = append(part, e)
		}
		if !slices.Equal(part, want[:k]) {
			c.Fail("merge-dedupe", desc, "mergesort.Merge stopped after %d = %v, reference %v", k, fmtMents(part), fmtMents(want[:k]))
		}
	}
	// MergeSorted keeps duplicates: multiset equality + sortedness
	gotAll := slices.Collect(iteru.MergeSorted(seqs(), cmpK))
	if !slices.IsSortedFunc(gotAll, cmpK) {
		c.Fail("mergesorted-order", desc, "iteru.MergeSorted output not sorted: %v", fmtMents(gotAll))
	}
	a := slices.Clone(gotAll)
	b := slices.Clone(all)
	byAll := func(x, y *ment) int { return cmp.Or(cmp.Compare(x.k, y.k), cmp.Compare(x.ver, y.ver)) }
	slices.SortFunc(a, byAll)
	slices.SortFunc(b, byAll)
	if !slices.Equal(a, b) {
		c.Fail("mergesorted-multiset", desc, "iteru.MergeSorted yields %d items %v, inputs hold %d", len(a), fmtMents(gotAll), len(b))
	}
	if len(all) > 0 {
		k := r.Intn(len(all) + 1)
		var part []*ment
		for e := range iteru.MergeSorted(seqs(), cmpK) {
			if len(part) >= k {
				break
			}
			part = append(part, e)
		}
		if len(part) != k || !slices.IsSortedFunc(part, cmpK) {
			c.Fail("mergesorted-order", desc, "iteru.MergeSorted stopped after %d gives %v", k, fmtMents(part))
		}
	}
	c.Feat("inputs", int64(nin))
	c.Feat("entries", int64(len(all)))
	c.SetSig(shared, fmt.Sprint(desc))
	if c.Index < 3 {
		c.Sample(desc)
	}
}

func fmtMents(es []*ment) []string {
	out := make([]string, len(es))
	for i, e := range es {
		out[i] = fmt.Sprintf("%q@%d/in%d", e.k, e.ver, e.src)
	}
	return out
}

// ---------------------------------------------------------------- SearchUnique

func searchUniqueExhaustive(c *lib.Ctx) {
	evals := 0
	for n := 0; n <= 12; n++ {
		xs := make([]int, n)
		for i := range xs {
			xs[i] = 2*i + 1 // odd numbers; even numbers are the gaps
		}
		for target := 0; target <= 2*n; target++ {
			evals++
			got, ok := sliceu.SearchUnique(xs, target, func(e, t int) int { return cmp.Compare(e, t) })
			if target%2 == 1 {
				if !ok || got != target/2 {
					c.Violate("searchunique-miss", map[string]any{"slice": xs, "target": target}, "SearchUnique(%v, %d) = (%d,%v), want (%d,true)", xs, target, got, ok, target/2)
				}
			} else if ok {
				c.Violate("searchunique-phantom", map[string]any{"slice": xs, "target": target}, "SearchUnique(%v, %d) = (%d,true), target absent", xs, target, got)
			}
			c.AddSig(n, target)
		}
	}
	c.Feat("lookups", int64(evals))
	c.Feat("exhaustive_len_0_to_12", 1)
	c.SetSig(true, "exhaustive")
	c.Sample(map[string]any{"lengths": "0..12", "targets": "every present element and every gap", "lookups": evals})
}

type rng struct{ lo, hi int }

func searchUniqueRandom(c *lib.Ctx) {
	r := c.R
	n := r.Intn(201)
	if c.Index%4 == 0 {
		n = r.Intn(6)
	}
	xs := make([]rng, n)
	at := r.Intn(3)
	for i := range xs {
		lo := at + r.Intn(3)
		hi := lo + r.Intn(3)
		xs[i] = rng{lo, hi}
		at = hi + 1 + r.Intn(2)
	}
	cmpR := func(e rng, t int) int {
		if e.lo > t {
			return 1
		}
		if e.hi < t {
			return -1
		}
		return 0
	}
	miss := 0
	for t := -1; t <= at+1; t++ {
		want := -1
		for i, e := range xs {
			if e.lo <= t && t <= e.hi {
				want = i
			}
		}
		got, ok := sliceu.SearchUnique(xs, t, cmpR)
		if (want >= 0) != ok || (ok && got != want) {
			miss++
			c.Violate("searchunique-miss", map[string]any{"ranges": fmt.Sprint(xs), "target": t}, "SearchUnique(ranges %v, %d) = (%d,%v), want index %d", xs, t, got, ok, want)
			break
		}
	}
	c.Feat("ranges", int64(n))
	c.SetSig(n >= 3, fmt.Sprint(xs))
	if c.Index < 2 {
		c.Sample(map[string]any{"ranges": fmt.Sprint(xs)})
	}
}

var _ = rand.Int
