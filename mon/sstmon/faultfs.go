package main

import (
	"errors"
	"sync/atomic"

	"reduction.dev/reduction/dkv/storage"
)

// faultFS injects ONE read error: when armed with n, the n-th ReadAt (counted over all files) from then on fails
// with a non-EOF error; everything before and after it works.
type faultFS struct {
	storage.FileSystem
	left  atomic.Int64 // reads left until the fault (0 = disarmed)
	fired atomic.Bool
}

var errInjectedRead = errors.New("verif: injected read error")

func (f *faultFS) arm(n int64) { f.fired.Store(false); f.left.Store(n) }
func (f *faultFS) disarm()     { f.left.Store(0) }

func (f *faultFS) New(path string) storage.File {
	return &faultFile{File: f.FileSystem.New(path), fs: f}
}
func (f *faultFS) Open(path string) storage.File {
	return &faultFile{File: f.FileSystem.Open(path), fs: f}
}

type faultFile struct {
	storage.File
	fs *faultFS
}

func (f *faultFile) ReadAt(p []byte, off int64) (int, error) {
	for {
		l := f.fs.left.Load()
		if l <= 0 {
			break
		}
		if f.fs.left.CompareAndSwap(l, l-1) {
			if l == 1 {
				f.fs.fired.Store(true)
				return 0, errInjectedRead
			}
			break
		}
	}
	return f.File.ReadAt(p, off)
}

// Namespace passes on the inner file's namespace (in-memory filesystems have equal URIs).
func (f *faultFile) Namespace() any {
	if n, ok := f.File.(interface{ Namespace() any }); ok {
		return n.Namespace()
	}
	return nil
}
