// sstmon — C17 (tables + WAL round trip) and C18 (compaction preserves contents), DESIGN §6.
package main

import (
	"bytes"
	"encoding/json"
	"errors"
	"fmt"
	"math/rand"
	"runtime"
	"slices"
	"sort"

	"reduction.dev/reduction/dkv/kv"
	"reduction.dev/reduction/dkv/sst"
	"reduction.dev/reduction/dkv/storage"
	"reduction.dev/reduction/dkv/wal"
	"verif/lib"
)

func n(q, t int) func(string) int {
	return func(tier string) int {
		if tier == "thorough" {
			return t
		}
		return q
	}
}

func main() {
	lib.Main(
		&lib.Prop{ID: "C17", Part: "table", Level: "exploration", NCases: n(4000, 150000), Run: tableCase,
			Assumptions: []string{"files are published atomically at Save (both in-repo file systems do)", "empty runs are outside the domain (no caller produces one)"},
			Rule:        "key-ordered runs (length 1..70 around the index spacing 16, puts/tombstones/empty values/binary keys incl. >=0x80 and the empty key) written with TableWriter.Write and WriteRun(target sizes straddling the run size); every written key, absent keys before/between/after, every prefix of every key and absent prefixes are read back by Get and ScanPrefix on the written table, on the table re-opened from Document() and from the JSON round trip of Document(); split tables must be disjoint and ordered; memory and local file systems; non-trivial = run has a tombstone, crosses an index boundary or was split into >=2 tables; distinct by run hash"},
		&lib.Prop{ID: "C17", Part: "bigtable", Level: "exploration", NCases: n(6, 300), Run: bigTableCase,
			Assumptions: []string{"bloom false positives are provoked statistically (tables of 1500..4000 entries, 400 absent probes each)"},
			Rule:        "large runs (1500..4000 entries) so the 32 Kbit bloom filter yields false positives: absent keys before the first / after the last / between entries must answer NotFound (not panic, not a wrong entry), present keys must be found; non-trivial = always; distinct by run hash"},
		&lib.Prop{ID: "C17", Part: "concurrent", Level: "exploration", NCases: n(6, 120), Run: concurrentCase,
			Assumptions: []string{"goroutine interleavings are whatever the scheduler produces under load (16 shards); the race build repeats the part"},
			Rule:        "tables under the concurrency a live database puts on them: (a) 40 rounds per case, 2..8 goroutines do their FIRST Get / ScanPrefix together on a table freshly re-opened from its descriptor (lazy footer load) and every one must get the stored entry; (b) 4..8 goroutines call Write on ONE TableWriter 250 times each (flush and compaction share the database's writer): every table gets its own file and, re-opened from its descriptor, returns exactly what was written to it; (c) 6 WAL writers per case: 2000..5000 Put/Delete with a Cut every 1..3 operations on one goroutine while another keeps calling Truncate with earlier sequence numbers (newest cut / half way / far behind) (the writer's documented contract), then Rotate+Save and replay from four start markers; panics in the code under test are reported with their stack; non-trivial = always"},
		&lib.Prop{ID: "C17", Part: "wal", Level: "exploration", NCases: n(5000, 150000), Run: walCase,
			Assumptions: []string{"Truncate arguments are non-decreasing and never exceed the last cut point (what DB passes: LatestSeqNum of the flushed tables)"},
			Rule:        "scripts of Put/Delete/Cut/Truncate(s)/Rotate on wal.Writer (sequence numbers contiguous from 1), ending in Rotate+Save; after half of the mid-script rotations the writer rotated away from is saved as DB.Checkpoint does and its file replayed the same way while the next writer still carries its untruncated segments; the saved file is read with Handle{After:a} (also through the HandleDocument JSON form) for EVERY a from the largest truncation point to the last sequence number; output must equal the appended ops with seq>a in order; non-trivial = script has a Rotate followed by a Truncate, or >=2 cuts; distinct by script hash"},
		&lib.Prop{ID: "C18", Part: "compaction", Level: "exploration", NCases: n(2000, 40000), Run: compactionCase,
			Assumptions: []string{"layouts are produced only by flushing model memtables and by compacting (the only legitimate way)", "change sets are applied the way dkv.DB applies them (NewWithChangeSet on the then-current list)"},
			Rule:        "random write histories over <=14 prefix-related keys flushed as L0 tables (increasing sequence numbers, overwrites, tombstones over older levels), compactor settings drawn from L0 trigger 1..4 x amplification {0,25,50,100,200}% x smallest level 1..600 B x multiplier x target table 40..400 B, Compact repeated to a fixed point with new L0 tables arriving between a step's snapshot and the application of its change set; a quarter of the steps run with one injected read error on an input table (the step must fail without a change set or produce the complete result); after every step Get over the key universe and ScanPrefix over every prefix must equal the model and L1+ must be sorted/disjoint; non-trivial = >=1 major and >=1 minor step or a populated middle level; distinct by (settings, history) hash"},
	)
}

// ------------------------------------------------------------------ entries

type ent struct {
	k, v []byte
	seq  uint64
	del  bool
}

func (e *ent) Key() []byte    { return e.k }
func (e *ent) Value() []byte  { return e.v }
func (e *ent) IsDelete() bool { return e.del }
func (e *ent) SeqNum() uint64 { return e.seq }

func (e *ent) String() string {
	if e.del {
		return fmt.Sprintf("%q@%d:DEL", e.k, e.seq)
	}
	v := e.v
	if len(v) > 12 {
		v = append(append([]byte{}, v[:12]...), '~')
	}
	return fmt.Sprintf("%q@%d=%q", e.k, e.seq, v)
}

func entSeq(es []*ent) func(func(kv.Entry) bool) {
	return func(yield func(kv.Entry) bool) {
		for _, e := range es {
			if !yield(e) {
				return
			}
		}
	}
}

func fmtEnts(es []*ent) []string {
	out := make([]string, len(es))
	for i, e := range es {
		out[i] = e.String()
	}
	return out
}

func newFS(c *lib.Ctx, local bool) storage.FileSystem {
	if local {
		return storage.NewLocalFilesystem(c.Dir)
	}
	return storage.NewMemoryFilesystem()
}

// genRun makes a key-ordered run of n entries.
func genRun(r *rand.Rand, nEnt int, maxVal int) []*ent {
	seen := map[string]bool{}
	var keys [][]byte
	atoms := 1 + r.Intn(4)
	for tries := 0; len(keys) < nEnt && tries < nEnt*200; tries++ {
		k := lib.Key(r, atoms)
		if r.Intn(3) == 0 { // numeric-ish keys to get many distinct ones
			k = append(k, []byte(fmt.Sprintf("%03d", r.Intn(1000)))...)
		}
		if !seen[string(k)] {
			seen[string(k)] = true
			keys = append(keys, k)
		}
	}
	sort.Slice(keys, func(i, j int) bool { return bytes.Compare(keys[i], keys[j]) < 0 })
	vg := &lib.ValueGen{Writer: "t"}
	run := make([]*ent, len(keys))
	for i, k := range keys {
		e := &ent{k: k, seq: uint64(1 + r.Intn(1000))}
		switch x := r.Intn(10); {
		case x < 2:
			e.del = true
		case x < 3:
			e.v = []byte{}
		default:
			e.v = vg.Next(r, maxVal)
		}
		run[i] = e
	}
	return run
}

type tableView struct {
	name string
	t    *sst.Table
}

func checkTableAgainstRun(c *lib.Ctx, what string, t *sst.Table, run []*ent, probes [][]byte, prefixes [][]byte, wit any) {
	// point lookups: present keys
	for _, e := range run {
		got, err := t.Get(e.k)
		if err != nil {
			kind := "table-get-present"
			c.Fail(kind, wit, "%s: Get(%q) of a written key: %v", what, e.k, err)
		}
		if got.IsDelete() != e.del || got.SeqNum() != e.seq || !bytes.Equal(got.Key(), e.k) || (!e.del && !bytes.Equal(got.Value(), e.v)) {
			c.Fail("table-get-present", wit, "%s: Get(%q) = del=%v seq=%d val=%q, written %v", what, e.k, got.IsDelete(), got.SeqNum(), got.Value(), e)
		}
	}
	// absent keys
	present := map[string]bool{}
	for _, e := range run {
		present[string(e.k)] = true
	}
	for _, p := range probes {
		if present[string(p)] {
			continue
		}
		got, err := t.Get(p)
		if err == nil {
			c.Fail("table-get-absent", wit, "%s: Get(%q) of an absent key returned %q", what, p, got.Key())
		}
		if !errors.Is(err, kv.ErrNotFound) {
			c.Fail("table-get-absent", wit, "%s: Get(%q) of an absent key: %v", what, p, err)
		}
	}
	// prefix scans
	for _, p := range prefixes {
		var scanErr error
		var got []*ent
		for e := range t.ScanPrefix(p, &scanErr) {
			got = append(got, &ent{k: e.Key(), v: e.Value(), seq: e.SeqNum(), del: e.IsDelete()})
		}
		if scanErr != nil {
			c.Fail("table-scan", wit, "%s: ScanPrefix(%q): %v", what, p, scanErr)
		}
		var want []*ent
		for _, e := range run {
			if bytes.HasPrefix(e.k, p) {
				want = append(want, e)
			}
		}
		if !sameEnts(got, want) {
			c.Fail("table-scan", wit, "%s: ScanPrefix(%q) = %v, written %v", what, p, fmtEnts(got), fmtEnts(want))
		}
	}
}

func sameEnts(a, b []*ent) bool {
	if len(a) != len(b) {
		return false
	}
	for i := range a {
		if !bytes.Equal(a[i].k, b[i].k) || a[i].del != b[i].del || a[i].seq != b[i].seq || (!a[i].del && !bytes.Equal(a[i].v, b[i].v)) {
			return false
		}
	}
	return true
}

func runBytes(run []*ent) int {
	s := 0
	for _, e := range run {
		s += int(sst.FlushSize(e))
	}
	return s
}

var runLens = []int{1, 2, 3, 15, 16, 17, 31, 32, 33, 47, 48, 49, 64, 65, 70}

func tableCase(c *lib.Ctx) {
	r := c.R
	nEnt := lib.Pick(r, runLens)
	if r.Intn(3) == 0 {
		nEnt = 1 + r.Intn(70)
	}
	run := genRun(r, nEnt, lib.Pick(r, []int{0, 4, 40}))
	local := r.Intn(4) == 0
	fs := newFS(c, local)
	tw := sst.NewTableWriter(fs, int64(r.Intn(3)))
	total := runBytes(run)
	wit := map[string]any{"run": fmtEnts(run), "local_fs": local}

	// probes: every key's neighbours, before first, after last
	var probes [][]byte
	for _, e := range run {
		probes = append(probes, append(append([]byte{}, e.k...), 0x00), append(append([]byte{}, e.k...), 0xff))
		if len(e.k) > 0 {
			probes = append(probes, e.k[:len(e.k)-1])
		}
	}
	probes = append(probes, []byte{}, []byte{0x00}, []byte{0xff, 0xff, 0xff, 0xff}, []byte("zzzz"))
	keys := make([][]byte, len(run))
	for i, e := range run {
		keys[i] = e.k
	}
	prefixes := lib.Prefixes(keys)
	if len(prefixes) > 60 {
		prefixes = append(prefixes[:1], lib.Shuffled(r, prefixes[1:])[:59]...)
	}

	hasDel := slices.ContainsFunc(run, func(e *ent) bool { return e.del })
	split := false
	if r.Intn(2) == 0 {
		// whole table
		t, err := tw.Write(entSeq(run))
		if err != nil {
			c.Fail("table-write", wit, "Write: %v", err)
		}
		wit["mode"] = "Write"
		checkViews(c, fs, t, run, probes, prefixes, wit)
	} else {
		// size-bounded split: target sizes straddling the run size and its fractions
		target := lib.Pick(r, []int{total / 4, total / 3, total / 2, total*2/3 - 1, total * 2 / 3, total*2/3 + 1, total - 1, total, total + 1, total * 2})
		target = max(target, 1)
		wit["mode"] = fmt.Sprintf("WriteRun(target=%d of %d bytes)", target, total)
		tables, err := tw.WriteRun(entSeq(run), uint64(target))
		if err != nil {
			c.Fail("table-write", wit, "WriteRun: %v", err)
		}
		split = len(tables) >= 2
		c.Feat("split_tables", int64(len(tables)))
		// the tables must tile the run: disjoint, ordered, nothing lost
		at := 0
		var prevEnd []byte
		for i, t := range tables {
			doc := t.Document()
			var scanErr error
			var got []*ent
			for e := range t.ScanPrefix(nil, &scanErr) {
				got = append(got, &ent{k: e.Key(), v: e.Value(), seq: e.SeqNum(), del: e.IsDelete()})
			}
			if scanErr != nil {
				c.Fail("table-scan", wit, "split table %d scan: %v", i, scanErr)
			}
			if len(got) == 0 {
				if len(tables) > 1 {
					c.Fail("table-split", wit, "split table %d of %d is empty", i, len(tables))
				}
				continue
			}
			if at+len(got) > len(run) || !sameEnts(got, run[at:at+len(got)]) {
				c.Fail("table-split", wit, "split table %d holds %v, expected the next %d entries of the run from position %d", i, fmtEnts(got), len(got), at)
			}
			if !bytes.Equal(doc.StartKey, got[0].k) || !bytes.Equal(doc.EndKey, got[len(got)-1].k) {
				c.Fail("table-split", wit, "split table %d range [%q,%q] but holds [%q,%q]", i, doc.StartKey, doc.EndKey, got[0].k, got[len(got)-1].k)
			}
			if i > 0 && bytes.Compare(prevEnd, got[0].k) >= 0 {
				c.Fail("table-split", wit, "split tables %d and %d overlap or are unordered", i-1, i)
			}
			prevEnd = got[len(got)-1].k
			// maximum size: a table other than the last holds at most 1.5x target (+ one entry)
			checkViews(c, fs, t, run[at:at+len(got)], probes, prefixes, wit)
			at += len(got)
		}
		if at != len(run) {
			c.Fail("table-split", wit, "split tables hold %d entries, run has %d", at, len(run))
		}
	}
	c.Feat("entries", int64(len(run)))
	c.SetSig(hasDel || len(run) > 16 || split, fmtEnts(run), wit["mode"])
	if c.Index < 3 {
		c.Sample(map[string]any{"mode": wit["mode"], "entries": len(run), "first": fmtEnts(run[:min(5, len(run))])})
	}
}

// checkViews checks the table as written, re-opened from its descriptor, and from the JSON form.
func checkViews(c *lib.Ctx, fs storage.FileSystem, t *sst.Table, run []*ent, probes, prefixes [][]byte, wit any) {
	checkTableAgainstRun(c, "as written", t, run, probes, prefixes, wit)
	doc := t.Document()
	re := sst.NewTableFromDocument(fs, &kv.AllDataOwnership{}, doc)
	checkTableAgainstRun(c, "re-opened from Document()", re, run, probes, prefixes, wit)
	checkRange(c, "re-opened from Document()", re, run, wit)
	js, err := json.Marshal(doc)
	lib.Must(err)
	var doc2 sst.TableDocument
	lib.Must(json.Unmarshal(js, &doc2))
	re2 := sst.NewTableFromDocument(fs, &kv.AllDataOwnership{}, doc2)
	checkRange(c, "re-opened from JSON descriptor", re2, run, wit)
	checkTableAgainstRun(c, "re-opened from JSON descriptor", re2, run, probes, prefixes, wit)
	c.Feat("views_checked", 3)
	// Table objects own their file: a collected *sst.Table deletes it (runtime.AddCleanup). Whether
	// that is right is C09's subject; here every view is pinned until all of them were read.
	runtime.KeepAlive(t)
	runtime.KeepAlive(re)
	runtime.KeepAlive(re2)
}

// checkRange: the re-opened table must still claim every written key (that is what level lookups rely on).
func checkRange(c *lib.Ctx, what string, t *sst.Table, run []*ent, wit any) {
	for _, e := range run {
		if !t.RangeContainsKey(e.k) {
			c.Fail("table-descriptor-range", wit, "%s: RangeContainsKey(%q) is false for a written key (range [%q,%q])", what, e.k, t.Document().StartKey, t.Document().EndKey)
		}
		if !t.RangeContainsPrefix(e.k) {
			c.Fail("table-descriptor-range", wit, "%s: RangeContainsPrefix(%q) is false for a written key", what, e.k)
		}
	}
}

func bigTableCase(c *lib.Ctx) {
	r := c.R
	nEnt := 1500 + r.Intn(2500)
	run := make([]*ent, nEnt)
	for i := range run {
		run[i] = &ent{k: []byte(fmt.Sprintf("m%07d", i*3)), v: []byte(fmt.Sprint(i)), seq: uint64(i + 1), del: i%11 == 0}
	}
	fs := storage.NewMemoryFilesystem()
	t, err := sst.NewTableWriter(fs, 0).Write(entSeq(run))
	if err != nil {
		c.Fail("table-write", nil, "Write: %v", err)
	}
	re := sst.NewTableFromDocument(fs, &kv.AllDataOwnership{}, t.Document())
	wit := map[string]any{"entries": nEnt, "keys": "m%07d of i*3", "seed": c.Seed, "case": c.Index}
	for _, tab := range []tableView{{"as written", t}, {"re-opened", re}} {
		for i := 0; i < 300; i++ {
			e := run[r.Intn(nEnt)]
			got, err := tab.t.Get(e.k)
			if err != nil || got.SeqNum() != e.seq || got.IsDelete() != e.del {
				c.Fail("table-get-present", wit, "%s: Get(%q) = %v, %v", tab.name, e.k, got, err)
			}
		}
		for i := 0; i < 400; i++ {
			var k []byte
			switch i % 4 {
			case 0:
				k = []byte(fmt.Sprintf("a%07d", r.Intn(1<<20))) // before first
			case 1:
				k = []byte(fmt.Sprintf("z%07d", r.Intn(1<<20))) // after last
			case 2:
				k = []byte(fmt.Sprintf("m%07d", r.Intn(nEnt)*3+1)) // between
			default:
				k = []byte(fmt.Sprintf("l%dz", r.Intn(1<<20))) // before first, other shape
			}
			got, err := tab.t.Get(k)
			if err == nil {
				c.Fail("table-get-absent", wit, "%s: Get(%q) of an absent key returned %q", tab.name, k, got.Key())
			}
			if !errors.Is(err, kv.ErrNotFound) {
				c.Fail("table-get-absent", wit, "%s: Get(%q) of an absent key: %v", tab.name, k, err)
			}
		}
	}
	runtime.KeepAlive(t)
	runtime.KeepAlive(re)
	c.Feat("entries", int64(nEnt))
	c.Feat("absent_probes", 800)
	c.SetSig(true, nEnt, c.Index)
	c.Sample(wit)
}

// ------------------------------------------------------------------ WAL

type wop struct {
	seq uint64
	k   []byte
	v   []byte
	del bool
}

func walCase(c *lib.Ctx) {
	r := c.R
	local := r.Intn(5) == 0
	fs := newFS(c, local)
	maxSize := uint64(lib.Pick(r, []int{1, 40, 200, 1 << 20}))
	w := wal.NewWriter(fs, r.Intn(3), maxSize)
	var script []string
	var retained []wop // what the model says the current writer still holds
	type seg struct {
		latest uint64
		n      int
	}
	var sealed []seg // sealed segments of the model (count of ops, latest seq)
	activeN := 0
	seq := uint64(0)
	lastCut := uint64(0)
	truncMax := uint64(0)
	keys := lib.KeyUniverse(r, 6, 2)
	vg := &lib.ValueGen{Writer: "w"}
	rotThenTrunc, cuts, rotated := false, 0, false
	checked := 0
	// checkReplay reads the saved file of wr with every start marker from truncMax to seq (both handle forms) and
	// compares with the model's retained operations.
	checkReplay := func(wr *wal.Writer, retained []wop, truncMax, seq uint64, what string) {
		wit := map[string]any{"script": append([]string(nil), script...), "local_fs": local, "file": what}
		for a := truncMax; a <= seq; a++ {
			for form := 0; form < 2; form++ {
				h := wr.Handle(a)
				if form == 1 {
					js, err := json.Marshal(h.Document())
					lib.Must(err)
					var d wal.HandleDocument
					lib.Must(json.Unmarshal(js, &d))
					h = wal.NewHandle(fs, d)
				}
				var got []wop
				for e, err := range wal.NewReader(fs, h).All() {
					if err != nil {
						c.Fail("wal-replay", wit, "%s: reading with After=%d: %v", what, a, err)
					}
					got = append(got, wop{k: e.K, v: e.V, del: e.Deleted})
				}
				var want []wop
				for _, o := range retained {
					if o.seq > a {
						want = append(want, o)
					}
				}
				if !sameWops(got, want) {
					c.Fail("wal-replay", wit, "%s: replay with After=%d (form %d) = %v, appended ops with seq>%d are %v", what, a, form, fmtWops(got), a, fmtWops(want))
				}
				checked++
			}
		}
	}
	nops := 3 + r.Intn(40)
	for i := 0; i < nops; i++ {
		switch x := r.Intn(20); {
		case x < 10:
			seq++
			k := lib.Pick(r, keys)
			if r.Intn(4) == 0 {
				script = append(script, fmt.Sprintf("del(%q)@%d", k, seq))
				w.Delete(k, seq)
				retained = append(retained, wop{seq: seq, k: k, del: true})
			} else {
				v := vg.Next(r, 6)
				if r.Intn(8) == 0 {
					v = []byte{}
				}
				script = append(script, fmt.Sprintf("put(%q)@%d", k, seq))
				w.Put(k, v, seq)
				retained = append(retained, wop{seq: seq, k: k, v: v})
			}
			activeN++
		case x < 14:
			script = append(script, "cut")
			w.Cut()
			sealed = append(sealed, seg{seq, activeN})
			activeN = 0
			lastCut = seq
			cuts++
		case x < 17:
			if lastCut == 0 {
				continue
			}
			// what DB passes: the LatestSeqNum of flushed tables: <= last cut point, non-decreasing
			s := truncMax + uint64(r.Intn(int(lastCut-truncMax)+1))
			if r.Intn(2) == 0 {
				s = lastCut
			}
			script = append(script, fmt.Sprintf("truncate(%d)", s))
			w.Truncate(s)
			truncMax = s
			// model: drop leading sealed segments whose latest <= s
			drop := 0
			for len(sealed) > 0 && sealed[0].latest <= s {
				drop += sealed[0].n
				sealed = sealed[1:]
			}
			retained = retained[drop:]
			if rotated {
				rotThenTrunc = true
			}
		default:
			script = append(script, "rotate")
			prev := w
			w = w.Rotate(fs)
			sealed = append(sealed, seg{seq, activeN})
			activeN = 0
			lastCut = seq // a rotation seals the active buffer like a cut does
			rotated = true
			if r.Intn(2) == 0 {
				// what DB.Checkpoint does with the writer it rotated away from: save it. Its file holds everything the
				// writer retained at the rotation, and the next writer still carries the untruncated segments.
				script = append(script, "save previous")
				if err := prev.Save(); err != nil {
					c.Fail("wal-save", script, "Save of the rotated writer: %v", err)
				}
				checkReplay(prev, append([]wop(nil), retained...), truncMax, seq, "rotated writer saved in mid-script")
				c.Feat("intermediate_writers_saved_and_replayed", 1)
			}
		}
	}
	script = append(script, "rotate+save")
	final := w
	w.Rotate(fs)
	if err := final.Save(); err != nil {
		c.Fail("wal-save", script, "Save: %v", err)
	}
	checkReplay(final, retained, truncMax, seq, "final writer")
	c.Feat("ops", int64(nops))
	c.Feat("replays_checked", int64(checked))
	if rotThenTrunc {
		c.Feat("rotate_then_truncate", 1)
	}
	c.SetSig(rotThenTrunc || cuts >= 2, fmt.Sprint(script))
	if c.Index < 3 {
		c.Sample(script)
	}
}

func sameWops(a, b []wop) bool {
	if len(a) != len(b) {
		return false
	}
	for i := range a {
		if !bytes.Equal(a[i].k, b[i].k) || a[i].del != b[i].del || (!a[i].del && !bytes.Equal(a[i].v, b[i].v)) {
			return false
		}
	}
	return true
}

func fmtWops(ws []wop) []string {
	out := make([]string, len(ws))
	for i, o := range ws {
		if o.del {
			out[i] = fmt.Sprintf("del(%q)", o.k)
		} else {
			out[i] = fmt.Sprintf("put(%q=%q)", o.k, o.v)
		}
	}
	return out
}

// ------------------------------------------------------------------ compaction (C18)

type compSettings struct {
	L0Trigger, Amp     int
	Smallest           int64
	Multiplier, Target int
	Levels             int
}

func compactionCase(c *lib.Ctx) {
	r := c.R
	set := compSettings{
		L0Trigger:  1 + r.Intn(4),
		Amp:        lib.Pick(r, []int{0, 25, 50, 100, 200}),
		Smallest:   int64(lib.Pick(r, []int{1, 60, 200, 600})),
		Multiplier: lib.Pick(r, []int{1, 2, 10}),
		Target:     lib.Pick(r, []int{40, 120, 400, 100000}),
		Levels:     lib.Pick(r, []int{2, 3, 4, 6}),
	}
	fs := &faultFS{FileSystem: storage.NewMemoryFilesystem()}
	tw := sst.NewTableWriter(fs, 0)
	comp := &sst.Compactor{
		TableWriter: tw, L0RunNumCompactionTrigger: set.L0Trigger, MaxSizeAmplificationPercent: set.Amp,
		SmallestLevelSize: set.Smallest, LevelSizeMultiplier: set.Multiplier, TargetTableSize: int64(set.Target),
	}
	ll := sst.NewEmptyLevelList(set.Levels)
	keys := lib.KeyUniverse(r, 3+r.Intn(12), 3)
	prefixes := lib.Prefixes(keys)
	model := lib.NewRefMap()
	vg := &lib.ValueGen{Writer: "c"}
	seq := uint64(0)
	var hist []string

	flush := func() *sst.ChangeSet {
		// one model memtable: a few writes, last write per key wins, flushed in key order
		mem := map[string]*ent{}
		nw := 1 + r.Intn(6)
		var desc []string
		for i := 0; i < nw; i++ {
			k := lib.Pick(r, keys)
			seq++
			if r.Intn(4) == 0 {
				mem[string(k)] = &ent{k: k, seq: seq, del: true}
				model.Delete(k)
				desc = append(desc, fmt.Sprintf("del(%q)@%d", k, seq))
			} else {
				v := vg.Next(r, lib.Pick(r, []int{0, 10, 60}))
				mem[string(k)] = &ent{k: k, v: v, seq: seq}
				model.Put(k, v)
				desc = append(desc, fmt.Sprintf("put(%q)@%d", k, seq))
			}
		}
		var es []*ent
		for _, e := range mem {
			es = append(es, e)
		}
		sort.Slice(es, func(i, j int) bool { return bytes.Compare(es[i].k, es[j].k) < 0 })
		t, err := tw.Write(entSeq(es))
		if err != nil {
			c.Fail("table-write", hist, "flush: %v", err)
		}
		hist = append(hist, "flush["+fmt.Sprint(desc)+"]")
		cs := &sst.ChangeSet{}
		cs.AddTables(0, t)
		return cs
	}

	majors, minors, concurrent := 0, 0, 0
	faultySteps, failedOnFault := 0, 0
	maxDepth := 0
	check := func(when string) {
		wit := map[string]any{"settings": set, "history": hist, "layout": layoutOf(ll)}
		for _, k := range keys {
			want, ok := model.Get(k)
			got, err := ll.Get(k)
			switch {
			case err != nil && !errors.Is(err, kv.ErrNotFound):
				c.Fail("compaction-get-error", wit, "%s: Get(%q): %v", when, k, err)
			case ok && (err != nil || got.IsDelete()):
				c.Fail("compaction-lost-key", wit, "%s: Get(%q) reports absent/deleted, model has %q", when, k, want)
			case ok && !bytes.Equal(got.Value(), want):
				c.Fail("compaction-stale-value", wit, "%s: Get(%q) = %q (seq %d), model has %q", when, k, got.Value(), got.SeqNum(), want)
			case !ok && err == nil && !got.IsDelete():
				c.Fail("compaction-resurrected", wit, "%s: Get(%q) = %q (seq %d), model says deleted/absent", when, k, got.Value(), got.SeqNum())
			}
		}
		for _, p := range prefixes {
			var scanErr error
			var got []lib.KV
			for e := range ll.ScanPrefix(p, &scanErr) {
				got = append(got, lib.KV{K: e.Key(), V: e.Value()})
			}
			if scanErr != nil {
				c.Fail("compaction-scan-error", wit, "%s: ScanPrefix(%q): %v", when, p, scanErr)
			}
			if want := model.Scan(p); !lib.EqualKVs(got, want) {
				c.Fail("compaction-scan", wit, "%s: ScanPrefix(%q) = %v, model %v", when, p, lib.FmtKVs(got), lib.FmtKVs(want))
			}
		}
		// layout: L1+ sorted by start key and pairwise disjoint
		doc := ll.Document()
		for li := 1; li < len(doc); li++ {
			if len(doc[li]) > 0 {
				maxDepth = max(maxDepth, li)
			}
			for ti := 1; ti < len(doc[li]); ti++ {
				if bytes.Compare(doc[li][ti-1].EndKey, doc[li][ti].StartKey) >= 0 {
					c.Fail("compaction-layout", wit, "%s: L%d tables %d and %d overlap or are unordered: [%q,%q] then [%q,%q]", when, li, ti-1, ti,
						doc[li][ti-1].StartKey, doc[li][ti-1].EndKey, doc[li][ti].StartKey, doc[li][ti].EndKey)
				}
			}
		}
		c.AddSig(layoutShape(ll))
	}

	rounds := 2 + r.Intn(8)
	steps := 0
	for round := 0; round < rounds; round++ {
		for f := 1 + r.Intn(3); f > 0; f-- {
			ll = ll.NewWithChangeSet(flush())
			check("after flush")
		}
		// compact to a fixed point (bounded)
		for i := 0; i < 25; i++ {
			snapshot := ll
			before := layoutShape(ll)
			// a quarter of the steps meet ONE storage read error somewhere in their input: the step may fail (the layout
			// stays as it is), but a step that reports success must still have preserved every key
			faulty := r.Intn(4) == 0
			if faulty {
				fs.arm(int64(1 + r.Intn(30)))
			}
			var cs *sst.ChangeSet
			var err error
			panicked := func() (p any) {
				defer func() { p = recover() }()
				cs, err = comp.Compact(snapshot)
				return nil
			}()
			fired := fs.fired.Load()
			fs.disarm()
			if faulty && fired {
				faultySteps++
				if panicked != nil || err != nil {
					hist = append(hist, fmt.Sprintf("compact %s: failed on the injected read error (%v %v), layout unchanged", before, panicked, err))
					failedOnFault++
					continue
				}
				hist = append(hist, "[the next step met an injected read error and reported success]")
			} else if panicked != nil {
				panic(panicked)
			}
			if err != nil {
				c.Fail("compaction-error", map[string]any{"settings": set, "history": hist}, "Compact: %v", err)
			}
			if cs == nil {
				break
			}
			steps++
			// a flush lands between the snapshot the step worked on and the application of its change set
			if r.Intn(3) == 0 {
				ll = ll.NewWithChangeSet(flush())
				concurrent++
			}
			ll = ll.NewWithChangeSet(cs)
			after := layoutShape(ll)
			hist = append(hist, fmt.Sprintf("compact %s -> %s", before, after))
			kind := classify(snapshot, set)
			if kind == "major" {
				majors++
			} else {
				minors++
			}
			check("after compaction step " + fmt.Sprint(steps))
		}
	}
	c.Feat("steps", int64(steps))
	c.Feat("major_steps", int64(majors))
	c.Feat("minor_steps", int64(minors))
	c.Feat("steps_composed_with_concurrent_flush", int64(concurrent))
	c.Feat("steps_with_injected_read_error", int64(faultySteps))
	c.Feat("steps_failed_on_injected_read_error", int64(failedOnFault))
	c.Feat(fmt.Sprintf("max_depth_%d", maxDepth), 1)
	c.SetSig((majors > 0 && minors > 0) || (maxDepth >= 2 && maxDepth < set.Levels-1), set, fmt.Sprint(hist))
	if c.Index < 3 {
		h := hist
		if len(h) > 12 {
			h = h[:12]
		}
		c.Sample(map[string]any{"settings": set, "history_prefix": h})
	}
}

func classify(ll *sst.LevelList, set compSettings) string {
	if ll.SizeAmplificationRatio().Percentage() > set.Amp {
		return "major"
	}
	return "minor"
}

func layoutShape(ll *sst.LevelList) string {
	return fmt.Sprint(ll.TableCounts())
}

func layoutOf(ll *sst.LevelList) []string {
	var out []string
	for li, lvl := range ll.Document() {
		for _, t := range lvl {
			out = append(out, fmt.Sprintf("L%d [%q..%q] seq %d..%d %s", li, t.StartKey, t.EndKey, t.StartSeqNum, t.EndSeqNum, t.URI))
		}
	}
	return out
}
