package main

import (
	"bytes"
	"fmt"
	"math/rand"
	"runtime"
	"sync"
	"sync/atomic"

	"reduction.dev/reduction/dkv/kv"
	"reduction.dev/reduction/dkv/sst"
	"reduction.dev/reduction/dkv/storage"
	"reduction.dev/reduction/dkv/wal"
	"verif/lib"
)

// C17 part "concurrent": the two places where tables are touched by several goroutines of a live database.
//
//   - first lookups: a table re-opened from its descriptor loads its footer (bloom filter, search index) lazily at
//     the first read; reads come from the event loop, the flush task and the compaction task at once. Several
//     goroutines do their FIRST Get on a freshly re-opened table together; every one must get the stored entry.
//   - the WAL: Put/Delete/Cut on the writing goroutine while the flush task truncates (see below).
//   - one writer, several tasks: flush and compaction write through the database's single TableWriter at the same
//     time. Concurrent Write calls must produce distinct files, and every table re-opened from its descriptor must
//     hold exactly the run that was written to it.
func concurrentCase(c *lib.Ctx) {
	r := c.R
	fs := storage.NewMemoryFilesystem()
	var mu sync.Mutex
	report := func(kind, format string, args ...any) {
		mu.Lock()
		defer mu.Unlock()
		c.Violate(kind, map[string]any{"seed": c.Seed, "case": c.Index}, format, args...)
	}
	guard := func(what string, f func()) {
		defer func() {
			if p := recover(); p != nil {
				buf := make([]byte, 4096)
				buf = buf[:runtime.Stack(buf, false)]
				report("panic", "%s panicked: %v\n%s", what, p, buf)
			}
		}()
		f()
	}

	// ---- first lookups on a re-opened table
	rounds := 40
	for round := 0; round < rounds && !c.Violated(); round++ {
		n := 20 + r.Intn(200)
		run := make([]*ent, n)
		for i := range run {
			run[i] = &ent{k: []byte(fmt.Sprintf("k%05d", i*2)), v: []byte(fmt.Sprintf("v%d.%d", round, i)), seq: uint64(i + 1), del: i%7 == 3}
		}
		t, err := sst.NewTableWriter(fs, int64(round*1000)).Write(entSeq(run))
		if err != nil {
			c.Fail("table-write", nil, "Write: %v", err)
		}
		re := sst.NewTableFromDocument(fs, &kv.AllDataOwnership{}, t.Document())
		g := 2 + r.Intn(7)
		start := make(chan struct{})
		var wg sync.WaitGroup
		for j := 0; j < g; j++ {
			e := run[r.Intn(n)]
			scan := r.Intn(4) == 0
			wg.Add(1)
			go func() {
				defer wg.Done()
				<-start
				guard("first read of a re-opened table", func() {
					if scan {
						var scanErr error
						cnt := 0
						for range re.ScanPrefix([]byte("k"), &scanErr) {
							cnt++
						}
						if scanErr != nil || cnt != n {
							report("table-scan", "concurrent first ScanPrefix on a re-opened table returned %d of %d entries (err %v)", cnt, n, scanErr)
						}
						return
					}
					got, err := re.Get(e.k)
					if err != nil || got.SeqNum() != e.seq || got.IsDelete() != e.del || (!e.del && !bytes.Equal(got.Value(), e.v)) {
						report("table-get-present", "concurrent first Get(%q) on a re-opened table = %v, %v; stored: seq %d delete %v value %q", e.k, got, err, e.seq, e.del, e.v)
					}
				})
			}()
		}
		close(start)
		wg.Wait()
		c.Feat("concurrent_first_reads", int64(g))
		runtime.KeepAlive(t)
		runtime.KeepAlive(re)
	}

	// ---- concurrent Write calls on one TableWriter
	tw := sst.NewTableWriter(fs, 100000)
	g := 4 + r.Intn(5)
	per := 250
	type written struct {
		t   *sst.Table
		run []*ent
	}
	out := make([][]written, g)
	start := make(chan struct{})
	var wg sync.WaitGroup
	for j := 0; j < g; j++ {
		wg.Add(1)
		go func() {
			defer wg.Done()
			<-start
			guard("TableWriter.Write", func() {
				for i := 0; i < per; i++ {
					run := []*ent{{k: []byte(fmt.Sprintf("w%02d-%05d", j, i)), v: []byte(fmt.Sprintf("%d/%d", j, i)), seq: uint64(j*per + i + 1)}}
					t, err := tw.Write(entSeq(run))
					if err != nil {
						report("table-write", "concurrent Write: %v", err)
						return
					}
					out[j] = append(out[j], written{t, run})
				}
			})
		}()
	}
	close(start)
	wg.Wait()
	seen := map[string]string{}
	for j := range out {
		for i, w := range out[j] {
			uri := w.t.Document().URI
			me := fmt.Sprintf("writer %d table %d", j, i)
			if other, dup := seen[uri]; dup {
				report("table-file-shared", "concurrent Write calls on one TableWriter wrote two tables to the same file %s (%s and %s)", uri, other, me)
			}
			seen[uri] = me
			guard("reading a concurrently written table", func() {
				re := sst.NewTableFromDocument(fs, &kv.AllDataOwnership{}, w.t.Document())
				got, err := re.Get(w.run[0].k)
				if err != nil || !bytes.Equal(got.Value(), w.run[0].v) {
					report("table-get-present", "%s: Get(%q) on the table re-opened from its descriptor = %v, %v; written value %q", me, w.run[0].k, got, err, w.run[0].v)
				}
				runtime.KeepAlive(re)
			})
		}
	}
	// ---- WAL under its documented caller contract: Put/Delete/Cut on the writing goroutine, Truncate from the
	// asynchronous flush task. Truncate(s) is always called with an earlier cut point; whatever the interleaving,
	// the saved log must replay exactly the operations appended after the start marker.
	for round := 0; round < 6 && !c.Violated(); round++ {
		w := wal.NewWriter(fs, 5000+round, 1<<30)
		nops := 2000 + r.Intn(3000)
		cutEvery := 1 + r.Intn(3)
		var cutUpTo atomic.Uint64 // latest sequence number whose segment has been cut
		var writerDone atomic.Bool
		tr := rand.New(rand.NewSource(r.Int63()))
		lag := tr.Intn(3) // the flush task truncates up to the newest cut / the middle / stays far behind
		var truncMax uint64
		done := make(chan struct{})
		go func() {
			defer close(done)
			guard("wal.Writer.Truncate", func() {
				for !writerDone.Load() {
					cut := cutUpTo.Load()
					s := cut
					switch lag {
					case 1:
						s = truncMax + (cut-truncMax)/2
					case 2:
						s = cut / 2
					}
					if s < truncMax {
						s = truncMax
					}
					w.Truncate(s)
					truncMax = s
					if tr.Intn(8) == 0 {
						runtime.Gosched()
					}
				}
			})
		}()
		ops := make([]wop, 0, nops)
		for seq := uint64(1); seq <= uint64(nops); seq++ {
			k := []byte(fmt.Sprintf("k%d", seq%17))
			if seq%5 == 0 {
				w.Delete(k, seq)
				ops = append(ops, wop{seq: seq, k: k, del: true})
			} else {
				v := []byte(fmt.Sprintf("v%d.%d", round, seq))
				w.Put(k, v, seq)
				ops = append(ops, wop{seq: seq, k: k, v: v})
			}
			if seq%uint64(cutEvery) == 0 {
				w.Cut()
				cutUpTo.Store(seq)
			}
		}
		writerDone.Store(true)
		<-done
		final := w
		w.Rotate(fs)
		if err := final.Save(); err != nil {
			report("wal-save", "Save: %v", err)
			break
		}
		last := uint64(nops)
		for _, a := range []uint64{truncMax, min(truncMax+1, last), (truncMax + last) / 2, last} {
			var got []wop
			guard("wal replay", func() {
				for e, err := range wal.NewReader(fs, final.Handle(a)).All() {
					if err != nil {
						report("wal-replay", "reading with After=%d: %v", a, err)
						return
					}
					got = append(got, wop{k: e.K, v: e.V, del: e.Deleted})
				}
			})
			want := ops[a:]
			if !sameWops(got, want) {
				first := 0
				for first < len(got) && first < len(want) && sameWops(got[first:first+1], want[first:first+1]) {
					first++
				}
				report("wal-replay", "Truncate concurrent with Put/Cut (%d ops, cut every %d, truncated up to %d): replay with After=%d returns %d operations, %d were appended after it; first difference at position %d (seq %d)", nops, cutEvery, truncMax, a, len(got), len(want), first, a+uint64(first)+1)
			}
		}
		c.Feat("wal_ops_with_concurrent_truncate", int64(nops))
	}
	c.Feat("concurrent_table_writes", int64(g*per))
	c.Feat("distinct_table_files", int64(len(seen)))
	c.SetSig(true, c.Index)
	runtime.KeepAlive(out)
}
