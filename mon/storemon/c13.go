package main

import (
	"fmt"
	"io"
	"log/slog"
	"path/filepath"
	"sort"

	"google.golang.org/protobuf/proto"
	"reduction.dev/reduction/proto/snapshotpb"
	"verif/lib"
)

// C13 part "crash-prefixes": completed checkpoints with forced publication overlap; a fresh
// Store.LoadCheckpoint on the storage image after EVERY individual storage operation; retention rule
// on the Remove / notify stream.
//
// File names: storage/snapshots/savepoint_artifact.go pathSegment(id) = base64url(big-endian(MaxUint64-id)),
// 11 characters. The listing is in byte order of the names, but the base64url alphabet is not in byte
// order of its digit values (A-Z a-z 0-9 - _  versus ASCII  - 0-9 A-Z _ a-z), so whenever consecutive
// ids differ in a character whose digit value crosses one of those class borders the newer file does
// not list first. The id bases (idBases in c12seq.go) sit around those borders for the last character
// (4 bits: id mod 16 = 2 -> 3), the one before (bits 4..9: id/16 mod 64 = 11 -> 12, 51 -> 52, 62 -> 63),
// and around carries into higher characters (2^10, 2^16, 2^22, 2^32, 2^63).

type ckSpec struct {
	Sp         string // "" | before (CreateSavepoint creates it) | while (savepoint requested while pending)
	HoldWrite  int    // k>0: the snapshot Write is held until k later checkpoints have been published
	HoldRemove int    // k>0: the first Remove issued from now on is held until k later checkpoints were published
	HoldList   int    // k>0: the first directory listing the store issues from now on is held likewise (slow object-store LIST)
	Restart    bool   // new Store + LoadCheckpoint after this checkpoint (only when nothing is parked)
	Crash      bool   // the job process dies between the Write of this checkpoint and the Remove of its predecessor; a new Store takes over and the scenario goes on
}

type scenario struct {
	Backend    string
	NOps, NSrs int
	Base       uint64
	Specs      []ckSpec
}

func (sc scenario) String() string {
	return fmt.Sprintf("backend=%s assembly=%dx%d first-id=%d checkpoints=%+v", sc.Backend, sc.NOps, sc.NSrs, sc.Base, sc.Specs)
}

type held struct {
	h    *Hold
	at   int
	what string
}

func genScenario(c *lib.Ctx) scenario {
	r := c.R
	sc := scenario{Backend: "mem", NOps: 1 + r.Intn(2), NSrs: 1 + r.Intn(2)}
	if r.Intn(8) == 0 {
		sc.Backend = "local"
	}
	sc.Base = idBases[c.Index%len(idBases)]
	if r.Intn(5) == 0 {
		sc.Base = r.Uint64()>>uint(r.Intn(56)) | 1
	}
	if r.Intn(3) == 0 && sc.Base > 3 {
		sc.Base -= uint64(r.Intn(3)) // start a little before the border so that it is crossed later in the run
	}
	if sc.Base > 1<<64-60 {
		sc.Base = 1<<64 - 60
	}
	n := 2 + r.Intn(5)
	overlapX := lib.Known("publication-overlap")
	for i := 0; i < n; i++ {
		var sp ckSpec
		switch x := r.Intn(10); {
		case x == 0:
			sp.Sp = "before"
		case x == 1:
			sp.Sp = "while"
		}
		if sc.Backend == "local" && i > 1 {
			sp.Sp = "" // cp/mkdir child processes are slow
		}
		if i < n-1 && !overlapX && r.Intn(3) == 0 {
			sp.HoldWrite = 1
			if i < n-2 && r.Intn(3) == 0 {
				sp.HoldWrite = 2
			}
		}
		if i < n-1 && r.Intn(4) == 0 {
			sp.HoldRemove = 1 + r.Intn(2)
		}
		if r.Intn(8) == 0 {
			sp.Restart = true
		}
		if i < n-1 && r.Intn(5) == 0 {
			sp.HoldList = 1 + r.Intn(2)
		}
		if i > 0 && sp.HoldWrite == 0 && sp.HoldRemove == 0 && sp.HoldList == 0 && r.Intn(6) == 0 {
			sp.Crash = true
		}
		sc.Specs = append(sc.Specs, sp)
	}
	return sc
}

func c13Case(c *lib.Ctx) {
	sc := genScenario(c)
	if c.R.Intn(3) == 0 {
		// a slow log sink: a seeded fraction of the store's log calls (all levels) yields or sleeps for a moment, so
		// its asynchronous publication / cleanup / notification goroutines overtake each other at those points too
		lag := lib.NewLagLogHandler(c.R.Int63(), lib.Pick(c.R, []int{20, 50}))
		slog.SetDefault(slog.New(lag))
		defer func() {
			slog.SetDefault(slog.New(slog.NewTextHandler(io.Discard, nil)))
			c.Feat("store_log_calls_delayed", lag.Lags.Load())
		}()
	}
	runScenario(c, sc)
}

func maxID(ids []uint64) uint64 {
	var m uint64
	for _, id := range ids {
		if id > m {
			m = id
		}
	}
	return m
}

func runScenario(c *lib.Ctx, sc scenario) {
	e := newEnv(c, sc.Backend)
	defer e.close()
	r := e.r
	opN, srN := names("op", sc.NOps), names("sr", sc.NSrs)
	for _, o := range opN {
		e.writeDKV(o)
	}
	e.logOp("scenario: %v", sc)
	if sc.Base > 1 {
		e.seedHigh(sc.Base - 1)
	} else {
		e.logOp("start store #1 on empty storage")
		if err := e.startStore(""); err != nil {
			c.Fail("load-error", e.wit(), "LoadCheckpoint on empty storage: %v", err)
		}
	}
	lastID := sc.Base - 1
	e.onStall = func() { retentionRule(c, e, e.gl.Log(), false) }
	var holds []held
	overlaps := 0
	liveCheck := func(when string) {
		if e.gl.Parked() > 0 {
			return
		}
		log := e.gl.Log()
		ids, _ := snapshotsIn(Image(log, len(log)))
		want := maxID(ids)
		if len(ids) == 0 {
			return // only the seed exists
		}
		var cur *snapshotpb.JobCheckpoint
		e.watch("CurrentCheckpoint", func() { cur = e.store.CurrentCheckpoint() })
		if cur.GetId() != want {
			c.Fail("current-not-newest-present", e.wit(), "%s: CurrentCheckpoint().Id = %d, newest snapshot present in storage is %d (present: %v)", when, cur.GetId(), want, ids)
		}
	}
	for i, sp := range sc.Specs {
		// create
		var id uint64
		var err error
		e.watch("Create*", func() {
			switch sp.Sp {
			case "before":
				var created bool
				id, created, err = e.store.CreateSavepoint(opN, srN)
				e.logOp("CreateSavepoint -> id=%d created=%v err=%v", id, created, err)
			default:
				id, err = e.store.CreateCheckpoint(opN, srN)
				e.logOp("CreateCheckpoint -> id=%d err=%v", id, err)
			}
		})
		if err != nil {
			c.Fail("create-refused", e.wit(), "checkpoint %d of the scenario could not be created although the previous one was acknowledged by every node: %v", i, err)
		}
		if id <= lastID {
			c.Fail("id-not-increasing", e.wit(), "new checkpoint id %d after %d", id, lastID)
		}
		lastID = id
		if sp.Sp == "while" {
			e.watch("CreateSavepoint", func() {
				sid, created, err := e.store.CreateSavepoint(opN, srN)
				e.logOp("CreateSavepoint (while pending) -> id=%d created=%v err=%v", sid, created, err)
			})
		}
		if sp.Sp != "" {
			c.Feat("savepoints", 1)
		}
		var hw *Hold
		if sp.HoldWrite > 0 {
			want := id
			hw = e.gl.Hold("write", func(rel string, wid uint64) bool { return wid == want })
			holds = append(holds, held{hw, i + sp.HoldWrite, fmt.Sprintf("Write of snapshot %d", id)})
			e.logOp("hold the Write of snapshot %d until %d later checkpoint(s) are published", id, sp.HoldWrite)
		}
		if sp.HoldRemove > 0 {
			hr := e.gl.Hold("remove", func(rel string, wid uint64) bool { return filepath.Ext(rel) == ".snapshot" })
			holds = append(holds, held{hr, i + sp.HoldRemove, "next Remove of a snapshot file"})
			e.logOp("hold the next Remove of a snapshot file until %d later checkpoint(s) are published", sp.HoldRemove)
			c.Feat("held_removes", 1)
		}
		var hc *Hold
		if sp.Crash && len(holds) == 0 && e.gl.Parked() == 0 {
			hc = e.gl.Hold("remove", func(rel string, wid uint64) bool { return filepath.Ext(rel) == ".snapshot" })
			e.logOp("the process will die before the Remove that follows the Write of snapshot %d", id)
		}
		if sp.HoldList > 0 {
			hl := e.gl.Hold("list", func(string, uint64) bool { return true })
			holds = append(holds, held{hl, i + sp.HoldList, "next directory listing by the store"})
			e.logOp("hold the next directory listing by the store until %d later checkpoint(s) are published", sp.HoldList)
			c.Feat("held_listings", 1)
		}
		// every node acknowledges, in a seeded order
		var acks []*ackRec
		for _, n := range opN {
			acks = append(acks, e.buildOpAck(n, id))
		}
		for _, n := range srN {
			acks = append(acks, e.buildSrAck(n, id, 1))
		}
		for _, a := range lib.Shuffled(r, acks) {
			e.watch(a.String(), func() { e.send(a) })
			e.logOp("%v -> err=%q", a, a.Err)
		}
		if hw != nil {
			if !hw.Arrived(callWatchdog) {
				e.gl.ReleaseAll()
				e.onStall()
				c.Inconclusive("the Write of snapshot %d did not start within the watchdog", id)
			}
			e.logOp("Write of snapshot %d is in flight (parked)", id)
		}
		e.quiesce()
		parkedWrites := 0
		for _, h := range holds {
			if h.h.op == "write" && h.h.parked.Load() && !h.h.released.Load() && h.h != hw {
				parkedWrites++
			}
		}
		if hw == nil && parkedWrites > 0 {
			overlaps++
			c.Feat("checkpoint_published_while_older_write_in_flight", 1)
		}
		// release what is due, in a seeded order
		var due, rest []held
		for _, h := range holds {
			if h.at <= i {
				due = append(due, h)
			} else {
				rest = append(rest, h)
			}
		}
		holds = rest
		for _, h := range lib.Shuffled(r, due) {
			e.logOp("release: %s", h.what)
			h.h.Release()
			e.quiesce()
		}
		if hc != nil {
			if hc.Arrived(callWatchdog / 4) {
				// crash: the Remove never happens; whatever the dead process still had to do is lost
				hc.Drop()
				log := e.gl.Log()
				ids, _ := snapshotsIn(Image(log, len(log)))
				e.logOp("crash between Write(%d) and the Remove of its predecessor (snapshots present: %v); new Store + LoadCheckpoint", id, ids)
				if err := e.startStore(""); err != nil {
					c.Fail("load-error", e.wit(), "LoadCheckpoint after the crash: %v", err)
				}
				c.Feat("crash_restarts_with_two_snapshots", 1)
				if cur := e.store.CurrentCheckpoint(); cur.GetId() != maxID(ids) {
					c.Fail("load-not-newest", e.wit(), "restart after the crash: recovered checkpoint %d, newest completed snapshot present is %d (present: %v)", cur.GetId(), maxID(ids), ids)
				}
				lastID = maxID(ids)
				continue
			}
			hc.Release() // no Remove was issued (nothing to clean up yet)
			e.quiesce()
		}
		liveCheck(fmt.Sprintf("after checkpoint %d", id))
		if sp.Restart && e.gl.Parked() == 0 && len(holds) == 0 {
			log := e.gl.Log()
			ids, _ := snapshotsIn(Image(log, len(log)))
			if len(ids) > 0 {
				e.logOp("restart: new Store on the same storage + LoadCheckpoint")
				if err := e.startStore(""); err != nil {
					c.Fail("load-error", e.wit(), "LoadCheckpoint after restart: %v", err)
				}
				c.Feat("restarts", 1)
				if cur := e.store.CurrentCheckpoint(); cur.GetId() != maxID(ids) {
					c.Fail("load-not-newest", e.wit(), "restart on the live storage: recovered checkpoint %d, newest completed snapshot present is %d (present: %v)", cur.GetId(), maxID(ids), ids)
				}
				lastID = maxID(ids)
			}
		}
	}
	for _, h := range holds {
		e.logOp("release: %s", h.what)
		h.h.Release()
		e.quiesce()
	}
	e.quiesce()
	liveCheck("end of scenario")
	log := e.gl.Log()

	retentionRule(c, e, log, true)

	// ---- crash after every individual storage operation
	listingX := lib.Known("snapshot-listing-order")
	images, multi, inverted := 0, 0, 0
	for k := 0; k <= len(log); k++ {
		if k > 0 && !log[k-1].mutating() {
			continue
		}
		img := Image(log, k)
		ids, byID := snapshotsIn(img)
		want := maxID(ids)
		if len(ids) >= 2 {
			multi++
			// is the newest the first one in name order?
			var paths []string
			for _, p := range byID {
				paths = append(paths, p)
			}
			sort.Strings(paths)
			inv := paths[0] != byID[want]
			if inv {
				inverted++
				if listingX {
					c.Feat("images_skipped_known_listing_order", 1)
					continue
				}
			}
			rel := make([]int64, len(ids))
			for i, id := range ids {
				rel[i] = int64(id - sc.Base)
			}
			c.AddSig("image", sc.Base, fmt.Sprint(rel), inv)
		}
		got, err := loadOn(sc.Backend, filepath.Join(c.Dir, "img"), img)
		images++
		after := "the initial storage"
		if k > 0 {
			after = log[k-1].String()
		}
		if err != nil {
			c.Fail("load-error", e.wit("crash_after", after, "image_snapshots", ids), "LoadCheckpoint on the storage image after %s: %v", after, err)
		}
		if got.GetId() != want {
			c.Fail("load-not-newest", e.wit("crash_after", after, "image_snapshots", ids, "image_files", imageFiles(img)),
				"crash after %s: a fresh Store.LoadCheckpoint recovers checkpoint %d, the newest completed snapshot in that storage image is %d (snapshot files present: %v)", after, got.GetId(), want, ids)
		}
		if want != 0 && !proto.Equal(got, decodeJC(img[byID[want]])) {
			c.Fail("load-wrong-content", e.wit("crash_after", after), "crash after %s: recovered checkpoint %d differs from its snapshot file", after, want)
		}
	}
	c.Feat("crash_images_loaded", int64(images))
	c.Feat("images_with_2plus_snapshots", int64(multi))
	c.Feat("images_newest_not_first_by_name", int64(inverted))
	c.Feat("storage_ops", int64(len(log)))
	c.SetSig(multi > 0, sc.String())
	if c.Index < 3 {
		c.Sample(map[string]any{"scenario": sc.String(), "ops": firstN(stripTicks(e.ops), 40), "storage_log": firstN(fmtEvents(log, 0, true), 40)})
	}
	_ = overlaps
}

// retentionRule: never Remove the newest completely written snapshot; retention notices never go back to an
// older checkpoint, and once the store is quiet (final) the last notice names the newest published checkpoint.
//
// A notice is a message: the store decides to send it when a checkpoint completes, and the next checkpoint's
// file may be completely written before the message is received. "Names an older one as the only one to keep"
// is therefore judged on the order of the notices and on the final one, not against the file writes that
// happened while the message was in flight (an operator never drops a checkpoint newer than the announced one).
func retentionRule(c *lib.Ctx, e *env, log []LocEvent, final bool) {
	var newest, maxNotified uint64
	var lastNotice *LocEvent
	writesOfLive, hadPredecessor := 0, false
	var newestOfLive uint64
	for i := range log {
		ev := log[i]
		switch {
		case ev.Op == "store-start":
			writesOfLive, newestOfLive, lastNotice = 0, 0, nil
			hadPredecessor = newest != 0
		case ev.Role == "store" && ev.Op == "write" && ev.ID != 0 && ev.Err == "":
			if ev.ID > newest {
				newest = ev.ID
			}
			writesOfLive++
			if ev.ID > newestOfLive {
				newestOfLive = ev.ID
			}
			if final {
				c.Feat("snapshot_writes", 1)
			}
		case ev.Op == "remove" && ev.ID != 0 && ev.Err == "":
			if final {
				c.Feat("snapshot_removes", 1)
			}
			if ev.ID == newest {
				c.Violate("removed-newest-snapshot", e.wit("event", ev.String()), "%v removes the snapshot file of checkpoint %d, the newest completed checkpoint", ev, ev.ID)
			}
		case ev.Op == "notify":
			if final {
				c.Feat("retention_notices", 1)
			}
			m := maxID(ev.IDs)
			if m < maxNotified {
				c.Violate("retention-drops-newest", e.wit("event", ev.String()), "%v tells the operators to retain only %v after an earlier notice had already named checkpoint %d", ev, ev.IDs, maxNotified)
			}
			if m > maxNotified {
				maxNotified = m
			}
			if newest != 0 && !containsID(ev.IDs, newest) {
				c.Feat("notices_overtaken_by_the_next_snapshot_write", 1) // in flight while the next file was written
			}
			lastNotice = &log[i]
		}
	}
	if !final {
		return
	}
	// Quiet store. The first completion on empty storage is not announced (nothing is obsolete yet) and with
	// overlapping publication that need not be the smallest id, so "no notice at all" tells the operators nothing
	// and is safe; but once the live store has announced anything, its last notice must name the newest
	// checkpoint it published (every completion that has a predecessor is announced).
	_, _ = writesOfLive, hadPredecessor
	if lastNotice != nil && newestOfLive != 0 && !containsID(lastNotice.IDs, newestOfLive) {
		c.Violate("retention-drops-newest", e.wit("event", lastNotice.String()), "the store is quiet: its last retention notice names %v, the newest checkpoint it published is %d", lastNotice.IDs, newestOfLive)
	}
}

func containsID(ids []uint64, id uint64) bool {
	for _, x := range ids {
		if x == id {
			return true
		}
	}
	return false
}

func imageFiles(img map[string][]byte) []string {
	var out []string
	for p := range img {
		out = append(out, p)
	}
	sort.Strings(out)
	return out
}

func stripTicks(ops []string) []string {
	out := make([]string, len(ops))
	for i, o := range ops {
		for j := 0; j < len(o); j++ {
			if o[j] == ' ' {
				o = o[j+1:]
				break
			}
		}
		out[i] = o
	}
	return out
}

// kfListingOrder: DESIGN §7 (b). Three plain checkpoints on an empty store; the image between
// Write(3) and Remove(2) holds the files of 2 and 3 and the file of 2 lists first.
func kfListingOrder(c *lib.Ctx) {
	runScenario(c, scenario{Backend: "mem", NOps: 1, NSrs: 1, Base: 1, Specs: []ckSpec{{}, {}, {}}})
}

// kfPublicationOverlap: DESIGN §7 (c). Write(2) is in flight while checkpoint 3 completes and is
// published; when Write(2) returns, publication 2 treats 3 as obsolete.
func kfPublicationOverlap(c *lib.Ctx) {
	runScenario(c, scenario{Backend: "mem", NOps: 1, NSrs: 1, Base: 4, Specs: []ckSpec{{}, {HoldWrite: 1}, {}}})
}
