package main

import (
	"fmt"
	"runtime"
	"runtime/debug"
	"strings"
	"sync"
	"sync/atomic"
	"time"

	"github.com/anishathalye/porcupine"
	"google.golang.org/protobuf/proto"
	"reduction.dev/reduction/proto/snapshotpb"
	"verif/lib"
)

// C12 part "concurrent". jobs.Job does NOT funnel checkpoint traffic through its serial task queue:
// HandleOperatorCheckpointComplete / HandleSourceRunnerCheckpointComplete / HandleCreateSavepoint call
// the Store directly on the RPC handler goroutines and the checkpoint ticker calls CreateCheckpoint on
// its own goroutine (jobs/job.go:172-203, 328-337). Concurrent calls on one Store are therefore inside
// the production domain and this part drives the Store the same way.

type cop struct {
	Client  int
	Kind    string // create | savepoint | ack | current
	Ack     *ackRec
	Call    int64
	Ret     int64
	ID      uint64
	Created bool
	Err     string
}

func (o *cop) String() string {
	switch o.Kind {
	case "ack":
		return fmt.Sprintf("c%d [%d,%d] %v -> err=%q", o.Client, o.Call, o.Ret, o.Ack, o.Err)
	case "create":
		return fmt.Sprintf("c%d [%d,%d] CreateCheckpoint -> id=%d err=%q", o.Client, o.Call, o.Ret, o.ID, o.Err)
	case "savepoint":
		return fmt.Sprintf("c%d [%d,%d] CreateSavepoint -> id=%d created=%v err=%q", o.Client, o.Call, o.Ret, o.ID, o.Created, o.Err)
	}
	return fmt.Sprintf("c%d [%d,%d] CurrentCheckpoint -> id=%d", o.Client, o.Call, o.Ret, o.ID)
}

type concCase struct {
	*env
	opN, srN []string
	hist     []*cop
	panics   []string
	mu       sync.Mutex
}

func (s *concCase) run(o *cop, client int) {
	o.Client = client
	switch o.Kind {
	case "ack":
		s.send(o.Ack)
		o.Call, o.Ret, o.Err = o.Ack.CallTick, o.Ack.RetTick, o.Ack.Err
	case "create":
		o.Call = lib.Tick.Add(1)
		id, err := s.store.CreateCheckpoint(s.opN, s.srN)
		o.Ret = lib.Tick.Add(1)
		o.ID, o.Err = id, errStr(err)
	case "savepoint":
		o.Call = lib.Tick.Add(1)
		id, created, err := s.store.CreateSavepoint(s.opN, s.srN)
		o.Ret = lib.Tick.Add(1)
		o.ID, o.Created, o.Err = id, created, errStr(err)
	case "current":
		o.Call = lib.Tick.Add(1)
		cur := s.store.CurrentCheckpoint()
		o.Ret = lib.Tick.Add(1)
		o.ID = cur.GetId()
	}
	s.mu.Lock()
	s.hist = append(s.hist, o)
	s.mu.Unlock()
}

func (s *concCase) witc(kv ...any) map[string]any {
	s.mu.Lock()
	h := append([]*cop{}, s.hist...)
	s.mu.Unlock()
	for i := 1; i < len(h); i++ {
		for j := i; j > 0 && h[j].Call < h[j-1].Call; j-- {
			h[j], h[j-1] = h[j-1], h[j]
		}
	}
	var hs []string
	for _, o := range h {
		hs = append(hs, o.String())
	}
	w := s.wit(kv...)
	w["history_by_call_tick"] = hs
	w["assembly"] = fmt.Sprintf("ops=%v runners=%v", s.opN, s.srN)
	return w
}

// porcupine model: the sequential store as far as the statement fixes it. Acknowledgement return
// values are not constrained (the statement says nothing about errors); their effect on the pending
// checkpoint is. CurrentCheckpoint is checked directly (it advances asynchronously after completion).
type cstate struct {
	pending, counter uint64
	ops, srs         uint8
	sp               bool
}
type cin struct {
	kind string
	isOp bool
	node int // index among the expected nodes of its kind, -1 = not expected
	id   uint64
}
type cout struct {
	id      uint64
	created bool
	err     bool
}

func storeModel(nOps, nSrs int, counter0 uint64) porcupine.Model {
	fullOps, fullSrs := uint8(1<<nOps-1), uint8(1<<nSrs-1)
	return porcupine.Model{
		Init: func() any { return cstate{counter: counter0} },
		Step: func(st, in, out any) (bool, any) {
			s, i, o := st.(cstate), in.(cin), out.(cout)
			switch i.kind {
			case "create":
				if s.pending != 0 {
					return o.err, s
				}
				if o.err || o.id <= s.counter {
					return false, s
				}
				return true, cstate{pending: o.id, counter: o.id}
			case "savepoint":
				switch {
				case s.pending != 0 && s.sp:
					return o.err || (o.id == s.pending && !o.created), s
				case s.pending != 0:
					if o.err {
						return true, s
					}
					s.sp = true
					return o.id == s.pending && !o.created, s
				default:
					if o.err || !o.created || o.id <= s.counter {
						return false, s
					}
					return true, cstate{pending: o.id, counter: o.id, sp: true}
				}
			case "ack":
				if s.pending == 0 || i.id != s.pending || i.node < 0 {
					return true, s
				}
				if i.isOp {
					s.ops |= 1 << i.node
				} else {
					s.srs |= 1 << i.node
				}
				if s.ops == fullOps && s.srs == fullSrs {
					return true, cstate{counter: s.counter}
				}
				return true, s
			}
			return true, s
		},
	}
}

func firstLines(s string, n int) string {
	ls := strings.Split(s, "\n")
	if len(ls) > n {
		ls = ls[:n]
	}
	return strings.Join(ls, "\n")
}

func idx(xs []string, x string) int {
	for i, y := range xs {
		if x == y {
			return i
		}
	}
	return -1
}

func c12Concurrent(c *lib.Ctx) {
	s := &concCase{env: newEnv(c, "mem")}
	defer s.close()
	r := s.r
	s.opN, s.srN = names("op", 1+r.Intn(4)), names("sr", 1+r.Intn(4))
	for _, o := range names("op", 5) {
		s.writeDKV(o)
	}
	var counter0 uint64
	if r.Intn(3) == 0 {
		counter0 = lib.Pick(r, idBases)
		if counter0 > 1<<64-200 {
			counter0 = 1<<64 - 200
		}
		s.seedHigh(counter0)
	} else {
		s.logOp("start store #1 on empty storage")
		if err := s.startStore(""); err != nil {
			c.Fail("load-error", s.wit(), "LoadCheckpoint on empty storage: %v", err)
		}
	}
	dupRunnerX := lib.Known("dup-runner-ack")
	lastID := counter0
	prevPublished := counter0
	var carry uint64
	logPos := s.gl.LogLen()
	rounds := 1 + r.Intn(3)
	var sig []any
	bursts, concurrentCreates, raced := 0, 0, 0
	for round := 0; round < rounds; round++ {
		G := 2 + r.Intn(3)
		modeB := carry == 0 && r.Intn(5) == 0
		var id uint64
		switch {
		case carry != 0:
			id = carry
			s.logOp("round %d: finishing checkpoint %d created inside the previous burst", round, id)
		case modeB:
			id = lastID + 1
			s.logOp("round %d: CreateCheckpoint races with the acknowledgements of the id it will return (%d)", round, id)
		default:
			o := &cop{Kind: "create"}
			if r.Intn(4) == 0 {
				o.Kind = "savepoint"
			}
			s.run(o, 0)
			s.logOp("round %d: %v", round, o)
			if o.Err != "" {
				c.Fail("create-refused-without-pending", s.witc(), "round %d: %v although no checkpoint is pending", round, o)
			}
			if o.ID <= lastID {
				c.Fail("id-not-increasing", s.witc(), "round %d: %v after id %d", round, o, lastID)
			}
			id = o.ID
		}
		carry = 0
		// the burst
		var burst []*cop
		for _, n := range s.opN {
			burst = append(burst, &cop{Kind: "ack", Ack: s.buildOpAck(n, id)})
		}
		if !(modeB && dupRunnerX) {
			for _, n := range s.srN {
				burst = append(burst, &cop{Kind: "ack", Ack: s.buildSrAck(n, id, 1+r.Intn(2))})
			}
		}
		for k := r.Intn(4); k > 0; k-- { // duplicates
			if r.Intn(2) == 0 || dupRunnerX {
				burst = append(burst, &cop{Kind: "ack", Ack: s.buildOpAck(lib.Pick(r, s.opN), id)})
			} else {
				burst = append(burst, &cop{Kind: "ack", Ack: s.buildSrAck(lib.Pick(r, s.srN), id, 1)})
			}
			c.Feat("duplicate_acks", 1)
		}
		for k := r.Intn(3); k > 0; k-- { // wrong ids (id+1 only from operators: the next checkpoint cannot complete inside the burst)
			switch r.Intn(3) {
			case 0:
				burst = append(burst, &cop{Kind: "ack", Ack: s.buildOpAck(lib.Pick(r, s.opN), id+1)})
			case 1:
				burst = append(burst, &cop{Kind: "ack", Ack: s.buildSrAck(lib.Pick(r, s.srN), id-1, 1)})
			default:
				burst = append(burst, &cop{Kind: "ack", Ack: s.buildOpAck(lib.Pick(r, s.opN), id+7)})
			}
			c.Feat("wrong_id_acks", 1)
		}
		for k := r.Intn(3); k > 0; k-- { // unknown senders
			if r.Intn(2) == 0 {
				burst = append(burst, &cop{Kind: "ack", Ack: s.buildOpAck("op9", id)})
			} else {
				burst = append(burst, &cop{Kind: "ack", Ack: s.buildSrAck(lib.Pick(r, s.opN), id, 1)})
			}
			c.Feat("unknown_sender_acks", 1)
		}
		nc := r.Intn(3)
		if modeB {
			nc = 1 + r.Intn(2)
			raced++
		}
		for k := nc; k > 0; k-- {
			burst = append(burst, &cop{Kind: "create"})
			concurrentCreates++
		}
		if r.Intn(4) == 0 {
			burst = append(burst, &cop{Kind: "savepoint"})
		}
		for k := r.Intn(3); k > 0; k-- {
			burst = append(burst, &cop{Kind: "current"})
		}
		burst = lib.Shuffled(r, burst)
		per := make([][]*cop, G)
		for i, o := range burst {
			per[i%G] = append(per[i%G], o)
		}
		for g := range per {
			for _, o := range per[g] {
				sig = append(sig, g, o.Kind)
				if o.Ack != nil {
					sig = append(sig, o.Ack.Kind, o.Ack.Node, o.Ack.ID-id)
				}
			}
		}
		// released together: every goroutine reports ready and spins on one flag
		var start atomic.Bool
		var wg, ready sync.WaitGroup
		for g := 0; g < G; g++ {
			wg.Add(1)
			ready.Add(1)
			go func(g int) {
				defer wg.Done()
				defer func() {
					// a panic of store code on a handler goroutine would kill the process: report it
					if rec := recover(); rec != nil {
						st := string(debug.Stack())
						if !strings.Contains(st, lib.RepoDir()+"/storage/") {
							lib.HarnessBug("burst goroutine panicked in harness code: %v\n%s", rec, st)
						}
						s.mu.Lock()
						s.panics = append(s.panics, fmt.Sprintf("%v\n%s", rec, firstLines(st, 24)))
						s.mu.Unlock()
					}
				}()
				ready.Done()
				for !start.Load() {
					runtime.Gosched()
				}
				for _, o := range per[g] {
					s.run(o, g+1)
				}
			}(g)
		}
		ready.Wait()
		start.Store(true)
		wg.Wait()
		if len(s.panics) > 0 {
			c.Fail("panic", s.witc("stack", s.panics[0]), "store code panicked on a goroutine delivering concurrent calls: %s", firstLines(s.panics[0], 1))
		}
		s.quiesce()
		bursts++
		ov := 0
		for i, a := range burst {
			for _, b := range burst[i+1:] {
				if a.Client != b.Client && a.Call < b.Ret && b.Call < a.Ret {
					ov++
				}
			}
		}
		c.Feat("overlapping_call_pairs", int64(ov))
		if ov > 0 {
			c.Feat("bursts_with_overlapping_calls", 1)
		}
		c.Feat(fmt.Sprintf("bursts_%d_goroutines", G), 1)
		c.Feat("burst_ops", int64(len(burst)))

		// creations inside the burst
		for _, o := range burst {
			if (o.Kind == "create" || (o.Kind == "savepoint" && o.Created)) && o.Err == "" {
				if modeB && o.ID == id {
					continue
				}
				if o.ID <= id {
					c.Fail("id-not-increasing", s.witc(), "%v while checkpoint %d had already been handed out", o, id)
				}
				if carry != 0 && o.ID != carry {
					c.Fail("second-checkpoint-in-progress", s.witc(), "two checkpoints (%d and %d) were created in one burst in which only checkpoint %d could complete", carry, o.ID, id)
				}
				carry = o.ID
				c.Feat("checkpoint_created_inside_burst", 1)
			}
		}
		// publication of this round's checkpoint
		// candidates: every acknowledgement of an expected node naming this id, including "wrong id"
		// ones of the previous burst that became right when the checkpoint was created inside it
		pend := newPend(id, s.opN, s.srN, false)
		s.mu.Lock()
		for _, o := range s.hist {
			if o.Kind == "ack" && o.Ack.ID == id && pend.expects(o.Ack.Kind, o.Ack.Node) {
				pend.add(o.Ack)
			}
		}
		s.mu.Unlock()
		writes := func() (calls, done []LocEvent) {
			log := s.gl.Log()
			for _, ev := range log[logPos:] {
				if ev.Role == "store" && ev.ID != 0 {
					switch {
					case ev.Op == "write-call" && ev.ID == id:
						calls = append(calls, ev)
					case ev.Op == "write" && ev.ID == id && ev.Err == "":
						done = append(done, ev)
					case ev.Op == "write-call":
						c.Fail("published-without-completion", s.witc(), "the store writes a snapshot of checkpoint %d; only checkpoint %d could complete", ev.ID, id)
					}
				}
			}
			return
		}
		calls, done := writes()
		if len(done) == 0 && modeB {
			// acknowledgements that overtook the create were (rightly) rejected: every node acks again
			c.Feat("raced_create_needed_second_delivery", 1)
			for _, n := range lib.Shuffled(r, s.opN) {
				o := &cop{Kind: "ack", Ack: s.buildOpAck(n, id)}
				s.run(o, 0)
				pend.add(o.Ack)
			}
			for _, n := range lib.Shuffled(r, s.srN) {
				if dupRunnerX && len(pend.srAcks[n]) > 0 {
					continue
				}
				o := &cop{Kind: "ack", Ack: s.buildSrAck(n, id, 1)}
				s.run(o, 0)
				pend.add(o.Ack)
			}
			s.quiesce()
			calls, done = writes()
		}
		logPos = s.gl.LogLen()
		if len(done) == 0 {
			c.Inconclusive("every node acknowledged checkpoint %d, the store went quiet without writing it", id)
		}
		if len(done) > 1 || len(calls) > 1 {
			c.Fail("published-twice", s.witc(), "the store wrote %d snapshot files for checkpoint %d", len(calls), id)
		}
		var jc snapshotpb.JobCheckpoint
		if err := proto.Unmarshal(done[0].data, &jc); err != nil {
			c.Fail("published-undecodable", s.witc(), "snapshot %s does not decode: %v", done[0].Path, err)
		}
		s.checkPublished(&jc, pend, "snapshot file "+done[0].Path, func() any { return s.witc() })
		// publication only after every expected node had at least called in with this id
		for _, kn := range [][]string{s.opN, s.srN} {
			for _, n := range kn {
				acks := pend.opAcks[n]
				if idx(s.srN, n) >= 0 {
					acks = pend.srAcks[n]
				}
				early := true
				for _, a := range acks {
					if a.CallTick < calls[0].Tick {
						early = false
					}
				}
				if early {
					c.Fail("published-without-completion", s.witc(), "snapshot of checkpoint %d was written at tick %d, before any acknowledgement of %s for it had been called", id, calls[0].Tick, n)
				}
			}
		}
		c.Feat("checkpoints_published", 1)
		// CurrentCheckpoint results inside the burst: a checkpoint that was published by then, and not
		// older than the one of the previous (quiet) round
		for _, o := range burst {
			if o.Kind != "current" {
				continue
			}
			switch {
			case o.ID == id:
				if done[0].Tick > o.Ret {
					c.Fail("current-checkpoint", s.witc(), "%v: the snapshot of checkpoint %d was only written at tick %d", o, id, done[0].Tick)
				}
			case o.ID != prevPublished:
				c.Fail("current-checkpoint", s.witc(), "%v: neither the previous checkpoint %d nor the one completing in this burst (%d)", o, prevPublished, id)
			}
			c.Feat("concurrent_current_calls", 1)
		}
		prevPublished = id
		lastID = id
		if carry > lastID {
			lastID = carry
		}
		if cur := s.store.CurrentCheckpoint(); cur.GetId() != id {
			c.Fail("current-checkpoint", s.witc(), "after the burst went quiet CurrentCheckpoint().Id = %d, want %d", cur.GetId(), id)
		}
		if c.Violated() {
			return
		}
	}
	// a final create shows whether the store agrees that nothing (or the carried checkpoint) is pending
	fin := &cop{Kind: "create"}
	s.run(fin, 0)
	// linearizability of the whole history against the sequential store
	var pops []porcupine.Operation
	for _, o := range s.hist {
		if o.Kind == "current" {
			continue
		}
		in := cin{kind: o.Kind}
		if o.Kind == "ack" {
			in.isOp = o.Ack.Kind == "op"
			in.id = o.Ack.ID
			if in.isOp {
				in.node = idx(s.opN, o.Ack.Node)
			} else {
				in.node = idx(s.srN, o.Ack.Node)
			}
		}
		pops = append(pops, porcupine.Operation{ClientId: o.Client, Input: in, Call: o.Call, Output: cout{id: o.ID, created: o.Created, err: o.Err != ""}, Return: o.Ret})
	}
	switch porcupine.CheckOperationsTimeout(storeModel(len(s.opN), len(s.srN), counter0), pops, 10*time.Second) {
	case porcupine.Illegal:
		c.Fail("not-linearizable", s.witc(), "the history of Create*/Add* calls is not linearizable against the sequential store (one pending checkpoint, completion = every expected node acknowledged its id, ids increasing)")
	case porcupine.Unknown:
		c.Inconclusive("linearizability checker timed out on %d operations", len(pops))
	}
	c.Feat("history_ops", int64(len(pops)))
	c.Feat("concurrent_creates", int64(concurrentCreates))
	c.Feat("create_raced_with_acks", int64(raced))
	c.SetSig(bursts > 0, len(s.opN), len(s.srN), counter0, fmt.Sprint(sig))
	// the interleaving actually observed: order of call ticks per client
	var order []any
	h := s.witc()["history_by_call_tick"].([]string)
	for _, o := range s.hist {
		order = append(order, o.Client, o.Kind)
	}
	c.AddSig(order...)
	if c.Index < 3 {
		c.Sample(map[string]any{"assembly": fmt.Sprintf("ops=%v runners=%v", s.opN, s.srN), "history": firstN(h, 50)})
	}
}
