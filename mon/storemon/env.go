package main

import (
	"bytes"
	"encoding/json"
	"fmt"
	"math/rand"
	"os"
	"path/filepath"
	"runtime"
	"sort"
	"sync/atomic"
	"time"

	"google.golang.org/protobuf/proto"
	"reduction.dev/reduction/proto/jobpb"
	"reduction.dev/reduction/proto/snapshotpb"
	"reduction.dev/reduction/storage/locations"
	"reduction.dev/reduction/storage/snapshots"
	"verif/lib"
)

const (
	ckPath   = "checkpoints"
	spPath   = "savepoints"
	watchdog = 3 * time.Second
	// a store call that waits for a parked storage operation (storage touched under the store's lock)
	callWatchdog = time.Second
)

// splitter is the job's source splitter as the store sees it. The store asks it for its state at
// the moment it decides a checkpoint is complete, synchronously inside the completing call: the call
// counter is therefore a deterministic "completion decided" signal.
type splitter struct{ calls atomic.Int64 }

func (s *splitter) IsSourceSplitter()                        {}
func (s *splitter) Start(*snapshotpb.SourceCheckpoint) error { return nil }
func (s *splitter) Close() error                             { return nil }
func (s *splitter) NotifySplitsFinished(string, []string)    {}
func (s *splitter) Checkpoint() []byte                       { return []byte(fmt.Sprintf("splitter#%d", s.calls.Add(1))) }

// ackRec is one acknowledgement sent to the store. Every ack carries a payload no other ack carries.
type ackRec struct {
	Seq      int
	Kind     string // op | sr
	Node     string
	ID       uint64
	States   []string
	opc      *snapshotpb.OperatorCheckpoint
	CallTick int64
	RetTick  int64
	Err      string
}

func (a *ackRec) String() string {
	if a.Kind == "op" {
		return fmt.Sprintf("ack#%d operator %s id=%d range=[%d,%d]", a.Seq, a.Node, a.ID, a.opc.KeyGroupRange.Start, a.opc.KeyGroupRange.End)
	}
	return fmt.Sprintf("ack#%d runner %s id=%d states=%q", a.Seq, a.Node, a.ID, a.States)
}

// pendM is the model's pending checkpoint.
type pendM struct {
	ID        uint64
	ExpOps    []string
	ExpSrs    []string
	opAcks    map[string][]*ackRec // qualifying acks per expected node
	srAcks    map[string][]*ackRec
	Savepoint bool
}

func newPend(id uint64, ops, srs []string, sp bool) *pendM {
	return &pendM{ID: id, ExpOps: append([]string{}, ops...), ExpSrs: append([]string{}, srs...), opAcks: map[string][]*ackRec{}, srAcks: map[string][]*ackRec{}, Savepoint: sp}
}

func has(xs []string, x string) bool {
	for _, y := range xs {
		if x == y {
			return true
		}
	}
	return false
}

func (p *pendM) expects(kind, node string) bool {
	if kind == "op" {
		return has(p.ExpOps, node)
	}
	return has(p.ExpSrs, node)
}

func (p *pendM) add(a *ackRec) {
	if a.Kind == "op" {
		p.opAcks[a.Node] = append(p.opAcks[a.Node], a)
	} else {
		p.srAcks[a.Node] = append(p.srAcks[a.Node], a)
	}
}

func (p *pendM) complete() bool {
	for _, n := range p.ExpOps {
		if len(p.opAcks[n]) == 0 {
			return false
		}
	}
	for _, n := range p.ExpSrs {
		if len(p.srAcks[n]) == 0 {
			return false
		}
	}
	return true
}

func (p *pendM) missing() (ops, srs []string) {
	for _, n := range p.ExpOps {
		if len(p.opAcks[n]) == 0 {
			ops = append(ops, n)
		}
	}
	for _, n := range p.ExpSrs {
		if len(p.srAcks[n]) == 0 {
			srs = append(srs, n)
		}
	}
	return
}

type env struct {
	c       *lib.Ctx
	r       *rand.Rand
	backend string
	root    string
	gl      *GateLocation // the store's view
	hl      *GateLocation // the harness's view (same log)
	store   *snapshots.Store
	spl     *splitter
	ping    chan chan struct{}
	onStall func()
	stop    chan struct{}
	exited  chan struct{}
	base0   int // goroutines of the process when the case started
	baseG   int
	ops     []string
	dkvURI  map[string]string
	walURI  map[string]string
	dkvIDs  map[string][]uint64
	ackSeq  int
	owner   map[string]*ackRec // split state -> ack that reported it
	gen     int
}

func newEnv(c *lib.Ctx, backend string) *env {
	e := &env{c: c, r: c.R, backend: backend, dkvURI: map[string]string{}, walURI: map[string]string{}, dkvIDs: map[string][]uint64{}, owner: map[string]*ackRec{}, base0: runtime.NumGoroutine(), ping: make(chan chan struct{})}
	var inner locations.StorageLocation
	if backend == "local" {
		e.root = filepath.Join(c.Dir, "loc")
		lib.Must(os.MkdirAll(e.root, 0o755))
		inner = locations.NewLocalDirectory(e.root)
	} else {
		e.root = "/memloc"
		inner = newMemLocation(e.root, nil)
	}
	e.gl = NewGateLocation(inner, e.root)
	e.hl = e.gl.As("harness")
	c.OnPanic = func() any { return e.wit() }
	return e
}

// close releases every hold, lets the store's goroutines finish (bounded; no verdict depends on it)
// and stops the collector, so that the next case of this process starts from a stable goroutine count.
func (e *env) close() {
	e.gl.ReleaseAll()
	deadline := time.Now().Add(2 * time.Second)
	for i := 0; e.stop != nil && runtime.NumGoroutine() > e.baseG; i++ {
		if i < 64 {
			runtime.Gosched()
		} else {
			time.Sleep(50 * time.Microsecond)
		}
		if i%256 == 255 && time.Now().After(deadline) {
			break
		}
	}
	if e.stop != nil {
		close(e.stop)
		<-e.exited
		e.stop = nil
	}
}

func (e *env) logOp(format string, args ...any) {
	s := fmt.Sprintf("t=%d ", lib.Tick.Load()) + fmt.Sprintf(format, args...)
	e.ops = append(e.ops, s)
	e.c.Logf("%s", s)
}

func (e *env) wit(kv ...any) map[string]any {
	w := map[string]any{"backend": e.backend, "ops": append([]string{}, e.ops...), "storage_log": fmtEvents(e.gl.Log(), 0, true)}
	for i := 0; i+1 < len(kv); i += 2 {
		w[fmt.Sprint(kv[i])] = kv[i+1]
	}
	return w
}

// writeDKV gives an operator a DKV checkpoints document (plus the WAL file it references) in the
// job's storage, so that a savepoint of a checkpoint this operator acknowledged can be assembled.
func (e *env) writeDKV(op string) {
	walURI, err := e.hl.Write("dkv/"+op+"/000001.wal", bytes.NewReader([]byte("wal of "+op)))
	lib.Must(err)
	e.walURI[op] = walURI
	e.dkvIDs[op] = nil
	e.saveDKV(op)
}

// ensureDKV: an operator that acknowledges checkpoint id has taken a DKV checkpoint with that id, so
// its checkpoints document lists it (savepoint assembly selects the entry by id).
func (e *env) ensureDKV(op string, id uint64) {
	for _, x := range e.dkvIDs[op] {
		if x == id {
			return
		}
	}
	e.dkvIDs[op] = append(e.dkvIDs[op], id)
	e.saveDKV(op)
}

func (e *env) saveDKV(op string) {
	entries := []any{}
	for _, id := range append([]uint64{0}, e.dkvIDs[op]...) {
		entries = append(entries, map[string]any{
			"id": id, "wals": []any{map[string]any{"uri": e.walURI[op], "after": 0}}, "levels": []any{}, "refs": nil, "last_seq_num": 0})
	}
	b, _ := json.Marshal(map[string]any{"checkpoints": entries})
	uri, err := e.hl.Write("dkv/"+op+"/checkpoints", bytes.NewReader(b))
	lib.Must(err)
	e.dkvURI[op] = uri
}

// startStore creates a new Store object on the storage (a job start) and loads the checkpoint.
func (e *env) startStore(savepointURI string) error {
	if e.stop != nil {
		close(e.stop)
		<-e.exited
	}
	e.gen++
	events := make(chan string)
	retained := make(chan []uint64)
	errs := make(chan error, 16)
	e.stop, e.exited = make(chan struct{}), make(chan struct{})
	e.baseG = e.base0 + 1 // the collector
	go func(stop, exited chan struct{}) {
		defer close(exited)
		for {
			select {
			case u := <-events:
				e.gl.Note(LocEvent{Op: "published", Path: relTo(e.root, u)})
			case ids := <-retained:
				e.gl.Note(LocEvent{Op: "notify", IDs: append([]uint64{}, ids...)})
			case <-errs:
			case pong := <-e.ping:
				close(pong) // everything received before has been logged
			case <-stop:
				return
			}
		}
	}(e.stop, e.exited)
	e.gl.Note(LocEvent{Op: "store-start"})
	e.spl = &splitter{}
	e.store = snapshots.NewStore(&snapshots.NewStoreParams{
		SavepointURI: savepointURI, FileStore: e.gl, SavepointsPath: spPath, CheckpointsPath: ckPath,
		CheckpointEvents: events, ErrChan: errs, RetainedCheckpointsUpdated: retained,
	})
	e.store.RegisterSourceSplitter(e.spl)
	return e.store.LoadCheckpoint()
}

// seedHigh starts the first store from a job savepoint file carrying id, so the id counter starts
// there whatever the snapshot file naming is.
func (e *env) seedHigh(id uint64) {
	jc := &snapshotpb.JobCheckpoint{Id: id, SourceCheckpoints: []*snapshotpb.SourceCheckpoint{{CheckpointId: id, SourceId: "tbd"}}}
	b, err := proto.Marshal(jc)
	lib.Must(err)
	uri, err := e.hl.Write("seed/job.savepoint", bytes.NewReader(b))
	lib.Must(err)
	e.logOp("start store #%d from a savepoint with id %d (id counter starts at %d)", e.gen+1, id, id)
	if err := e.startStore(uri); err != nil {
		e.c.Fail("load-error", e.wit(), "LoadCheckpoint from the seed savepoint: %v", err)
	}
}

// watch runs a store call of a scenario that uses holds. If the call does not return within the
// watchdog (the store waits for a parked storage operation while holding its lock, say) every hold is
// released so that it can return, and the case ends inconclusive.
func (e *env) watch(what string, f func()) {
	var fired atomic.Bool
	t := time.AfterFunc(callWatchdog, func() { fired.Store(true); e.gl.ReleaseAll() })
	f()
	t.Stop()
	if fired.Load() {
		if e.onStall != nil {
			e.onStall() // judge what has been logged so far
		}
		e.c.Inconclusive("%s did not return within the watchdog while a storage operation was parked; holds released", what)
	}
}

// quiesce waits until every goroutine the store started has finished (or is parked at a hold).
// Wall clock only bounds the wait: giving up is inconclusive.
func (e *env) quiesce() {
	deadline := time.Now().Add(watchdog)
	for i := 0; ; i++ {
		if runtime.NumGoroutine() <= e.baseG+e.gl.Parked() {
			// the collector may have taken a notice off a channel without having logged it yet: a
			// round trip through its loop orders the log before everything the harness does next
			pong := make(chan struct{})
			e.ping <- pong
			<-pong
			if runtime.NumGoroutine() <= e.baseG+e.gl.Parked() {
				return
			}
		}
		if i < 64 {
			runtime.Gosched()
		} else {
			time.Sleep(20 * time.Microsecond)
		}
		if i%512 == 511 && time.Now().After(deadline) {
			e.c.Inconclusive("store goroutines did not finish within the watchdog (%d running, baseline %d, parked %d)", runtime.NumGoroutine(), e.baseG, e.gl.Parked())
		}
	}
}

func (e *env) buildOpAck(node string, id uint64) *ackRec {
	e.ackSeq++
	uri, ok := e.dkvURI[node]
	if ok {
		e.ensureDKV(node, id)
	} else {
		uri = "bogus://" + node + "/checkpoints"
	}
	return &ackRec{Seq: e.ackSeq, Kind: "op", Node: node, ID: id, opc: &snapshotpb.OperatorCheckpoint{
		CheckpointId: id, OperatorId: node, DkvFileUri: uri,
		KeyGroupRange: &snapshotpb.KeyGroupRange{Start: int32(e.ackSeq), End: int32(e.ackSeq + 1000)}}}
}

func (e *env) buildSrAck(node string, id uint64, nStates int) *ackRec {
	e.ackSeq++
	a := &ackRec{Seq: e.ackSeq, Kind: "sr", Node: node, ID: id}
	for i := 0; i < nStates; i++ {
		s := fmt.Sprintf("%s/ck%d/ack%d/split%d", node, id, e.ackSeq, i)
		if i%2 == 1 {
			s += "\x00\xff"
		}
		a.States = append(a.States, s)
		e.owner[s] = a
	}
	return a
}

// send delivers the ack to the store (safe to call from several goroutines).
func (e *env) send(a *ackRec) {
	var err error
	a.CallTick = lib.Tick.Add(1)
	if a.Kind == "op" {
		err = e.store.AddOperatorSnapshot(a.opc)
	} else {
		req := &jobpb.SourceRunnerCheckpointCompleteRequest{SourceRunnerId: a.Node, CheckpointId: a.ID}
		for _, s := range a.States {
			req.SplitStates = append(req.SplitStates, []byte(s))
		}
		err = e.store.AddSourceSnapshot(req)
	}
	a.RetTick = lib.Tick.Add(1)
	a.Err = errStr(err)
}

// checkPublished compares a published checkpoint with the model's pending checkpoint: the id, exactly
// one entry per expected operator equal to an acknowledgement that operator sent for this checkpoint,
// and as split states exactly the states of ONE acknowledgement of every expected runner.
func (e *env) checkPublished(jc *snapshotpb.JobCheckpoint, p *pendM, what string, wit func() any) {
	c := e.c
	if jc.GetId() != p.ID {
		c.Violate("published-wrong-id", wit(), "%s: id %d, model expects %d", what, jc.GetId(), p.ID)
		return
	}
	seen := map[string]int{}
	for _, oc := range jc.OperatorCheckpoints {
		seen[oc.OperatorId]++
		if !has(p.ExpOps, oc.OperatorId) {
			c.Violate("published-foreign-operator", wit(), "%s of checkpoint %d has an entry for operator %q, expected operators %v", what, p.ID, oc.OperatorId, p.ExpOps)
			continue
		}
		ok := false
		for _, a := range p.opAcks[oc.OperatorId] {
			if proto.Equal(a.opc, oc) {
				ok = true
			}
		}
		if !ok {
			c.Violate("published-operator-entry-not-acked", wit(), "%s of checkpoint %d: entry of operator %s (%v) equals none of the acknowledgements that operator sent for this checkpoint", what, p.ID, oc.OperatorId, oc)
		}
	}
	for _, n := range p.ExpOps {
		if seen[n] != 1 {
			c.Violate("published-operator-entries", wit(), "%s of checkpoint %d has %d entries for operator %s (want exactly 1)", what, p.ID, seen[n], n)
		}
	}
	// split states
	cnt := map[string]int{}
	var all []string
	for _, sc := range jc.SourceCheckpoints {
		for _, s := range sc.SplitStates {
			cnt[string(s)]++
			all = append(all, string(s))
		}
	}
	perNode := map[string]map[*ackRec]int{}
	for s, n := range cnt {
		if n > 1 {
			c.Violate("published-split-state-twice", wit(), "%s of checkpoint %d contains split state %q %d times; all states: %q", what, p.ID, s, n, all)
		}
		a := e.owner[s]
		if a == nil {
			c.Violate("published-unknown-split-state", wit(), "%s of checkpoint %d contains split state %q nobody reported", what, p.ID, s)
			continue
		}
		qual := false
		for _, q := range p.srAcks[a.Node] {
			if q == a {
				qual = true
			}
		}
		if !qual {
			c.Violate("published-state-of-rejected-ack", wit(), "%s of checkpoint %d contains split state %q of %v, which is not an acknowledgement of this checkpoint by an expected runner", what, p.ID, s, a)
			continue
		}
		if perNode[a.Node] == nil {
			perNode[a.Node] = map[*ackRec]int{}
		}
		perNode[a.Node][a]++
	}
	for _, n := range p.ExpSrs {
		acks := perNode[n]
		switch {
		case len(acks) > 1:
			var which []string
			for a := range acks {
				which = append(which, a.String())
			}
			sort.Strings(which)
			c.Violate("published-states-of-two-acks", wit(), "%s of checkpoint %d contains split states of %d acknowledgements of runner %s (a duplicate was merged in): %v", what, p.ID, len(acks), n, which)
		case len(acks) == 1:
			for a, k := range acks {
				if k != len(a.States) {
					c.Violate("published-split-states-missing", wit(), "%s of checkpoint %d has %d of the %d split states of %v", what, p.ID, k, len(a.States), a)
				}
			}
		default:
			empty := false
			for _, a := range p.srAcks[n] {
				if len(a.States) == 0 {
					empty = true
				}
			}
			if !empty {
				c.Violate("published-split-states-missing", wit(), "%s of checkpoint %d has no split state of runner %s although it reported some", what, p.ID, n)
			}
		}
	}
}

// loadOn runs a fresh Store.LoadCheckpoint on a storage image (a job start after a crash) and returns
// the checkpoint it recovered (nil = none).
func loadOn(backend, dir string, img map[string][]byte) (*snapshotpb.JobCheckpoint, error) {
	var loc locations.StorageLocation
	if backend == "local" {
		os.RemoveAll(dir)
		for p, d := range img {
			full := filepath.Join(dir, p)
			lib.Must(os.MkdirAll(filepath.Dir(full), 0o755))
			lib.Must(os.WriteFile(full, d, 0o644))
		}
		lib.Must(os.MkdirAll(dir, 0o755))
		loc = locations.NewLocalDirectory(dir)
	} else {
		loc = newMemLocation("/memloc", img)
	}
	st := snapshots.NewStore(&snapshots.NewStoreParams{FileStore: loc, SavepointsPath: spPath, CheckpointsPath: ckPath})
	if err := st.LoadCheckpoint(); err != nil {
		return nil, err
	}
	return st.CurrentCheckpoint(), nil
}

func names(prefix string, n int) []string {
	out := make([]string, n)
	for i := range out {
		out[i] = fmt.Sprintf("%s%d", prefix, i+1)
	}
	return out
}

func firstN(xs []string, n int) []string {
	if len(xs) > n {
		return xs[:n]
	}
	return xs
}
