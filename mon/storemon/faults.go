package main

import (
	"fmt"
	"strings"
	"time"

	"reduction.dev/reduction/storage/snapshots"
	"reduction.dev/reduction/util/vhook"
	"verif/lib"
)

// Part "storage-faults" (C12 and C13): single transient storage errors at the two places where the store reads
// and writes a lot — the assembly of a savepoint artifact after the checkpoint itself was published, and the
// listing / reading of snapshot files when a job starts. A transient error may make the operation fail; it must
// not make a published checkpoint disappear, let a restarted job start from an older (or no) checkpoint as if
// nothing had happened, or hand out ids a second time.
//
// Publications are awaited through the hook `snapshots.publication-ended` (a failed publication leaves the
// store's goroutine blocked on its error channel, so the goroutine count cannot be used here).
func storageFaults(c *lib.Ctx) {
	r := c.R
	backend := "mem"
	if r.Intn(8) == 0 {
		backend = "local"
	}
	e := newEnv(c, backend)
	defer e.close()
	ops, srs := names("op", 1+r.Intn(2)), names("sr", 1+r.Intn(2))
	for _, o := range ops {
		e.writeDKV(o)
	}
	ended := make(chan snapshots.VerifPublicationEnded, 256)
	vhook.Set(func(name string, arg any) {
		if name == "snapshots.publication-ended" {
			select {
			case ended <- arg.(snapshots.VerifPublicationEnded):
			default:
			}
		}
	})
	defer vhook.Set(nil)

	if r.Intn(3) == 0 {
		e.seedHigh(lib.Pick(r, []uint64{14, 47, 62, 255, 1023, 4095, 1 << 16, 1<<32 - 1, 1 << 40}))
	} else if err := e.startStore(""); err != nil {
		c.Fail("load-error", e.wit(), "LoadCheckpoint on empty storage: %v", err)
	}

	newest := uint64(0)    // newest checkpoint whose snapshot file was written (= published)
	highestID := uint64(0) // highest id ever handed out
	// complete creates a checkpoint (or savepoint), delivers every acknowledgement and waits for the end of its
	// publication; it returns the error the publication ended with.
	complete := func(savepoint bool) (uint64, error) {
		var id uint64
		var err error
		if savepoint {
			id, _, err = e.store.CreateSavepoint(ops, srs)
		} else {
			id, err = e.store.CreateCheckpoint(ops, srs)
		}
		if err != nil {
			c.Fail("create-error", e.wit(), "Create (savepoint=%v): %v", savepoint, err)
		}
		e.logOp("created checkpoint %d (savepoint=%v)", id, savepoint)
		if id <= highestID || id <= newest {
			c.Fail("id-not-increasing", e.wit(), "new checkpoint got id %d, but id %d was already handed out and checkpoint %d is published (ids must strictly increase, also across restarts)", id, highestID, newest)
		}
		highestID = id
		for _, o := range ops {
			e.send(e.buildOpAck(o, id))
		}
		for _, s := range srs {
			e.send(e.buildSrAck(s, id, 1+r.Intn(2)))
		}
		t := time.NewTimer(watchdog)
		defer t.Stop()
		for {
			select {
			case ev := <-ended:
				if ev.ID != id {
					continue
				}
				e.logOp("publication of %d ended: err=%v", id, ev.Err)
				if ev.Err != nil {
					e.base0++ // the store's goroutine stays blocked on its (unset) error channel
					e.baseG++
				}
				if e.snapshotWritten(id) {
					newest = id
				}
				return id, ev.Err
			case <-t.C:
				c.Inconclusive("publication of checkpoint %d did not end within the watchdog", id)
			}
		}
	}
	// restart = a new job process on the same storage; with fault: one transient error while it loads.
	restart := func(fault string) {
		var f *Fault
		switch fault {
		case "read":
			f = e.gl.FailNext("read", func(rel string) bool { return strings.HasSuffix(rel, ".snapshot") })
		case "list":
			f = e.gl.FailNext("list", func(string) bool { return true })
		}
		// the previous process is gone when the next one starts: none of its goroutines (removal of obsolete
		// snapshot files) is still running
		e.quiesce()
		e.logOp("restart (transient %q error while loading)", fault)
		err := e.startStore("")
		if f != nil && !f.Hit.Load() {
			c.Feat("fault_not_reached", 1)
		}
		if err != nil {
			if f == nil || !f.Hit.Load() {
				c.Fail("load-error", e.wit(), "LoadCheckpoint after restart without any storage error: %v", err)
			}
			// the job refused to start: legitimate. The process is started again, storage works now.
			c.Feat("load_refused_on_transient_error", 1)
			e.logOp("LoadCheckpoint refused: %v; restart again", err)
			if err := e.startStore(""); err != nil {
				c.Fail("load-error", e.wit(), "LoadCheckpoint on the second start (no fault): %v", err)
			}
		} else if f != nil && f.Hit.Load() {
			c.Feat("load_succeeded_despite_transient_error", 1)
		}
		cur := e.store.CurrentCheckpoint()
		if cur.GetId() != newest {
			c.Fail("restart-wrong-checkpoint", e.wit("fault", fault), "after the restart the job recovers from checkpoint %d; the newest completed checkpoint published to storage is %d", cur.GetId(), newest)
		}
		c.Feat("restarts", 1)
	}

	steps := 2 + r.Intn(4)
	faults := 0
	var sig []string
	for i := 0; i < steps && !c.Violated(); i++ {
		switch x := r.Intn(10); {
		case x < 3 || newest == 0:
			complete(false)
			sig = append(sig, "ck")
		case x < 6:
			// a savepoint whose artifact assembly hits one transient error (after the checkpoint was published)
			site := r.Intn(4)
			var f *Fault
			switch site {
			case 0:
				f = e.gl.FailNext("read", func(rel string) bool { return strings.HasSuffix(rel, "/checkpoints") })
			case 1:
				f = e.gl.FailNext("copy", func(rel string) bool { return strings.HasSuffix(rel, ".wal") })
			case 2:
				f = e.gl.FailNext("copy", func(rel string) bool { return strings.HasSuffix(rel, "job.savepoint") })
			case 3:
				f = e.gl.FailNext("copy", func(rel string) bool { return strings.HasSuffix(rel, "/checkpoints") })
			}
			id, err := complete(true)
			sig = append(sig, fmt.Sprintf("sp-fault%d", site))
			if f.Hit.Load() {
				faults++
				c.Feat("savepoint_artifact_faults", 1)
				if err == nil {
					c.Feat("savepoint_fault_not_reported", 1)
				}
			}
			if newest != id {
				c.Fail("completed-checkpoint-not-in-storage", e.wit(), "checkpoint %d was acknowledged by every member and its publication ended (err=%v), but no snapshot file of it was written", id, err)
			}
			if cur := e.store.CurrentCheckpoint().GetId(); cur != id {
				c.Fail("current-checkpoint", e.wit(), "after the publication of %d ended CurrentCheckpoint is %d", id, cur)
			}
			restart("")
		case x < 8:
			restart(lib.Pick(r, []string{"read", "list"}))
			faults++
			sig = append(sig, "restart-fault")
		default:
			restart("")
			sig = append(sig, "restart")
		}
	}
	if !c.Violated() {
		// the job goes on: ids keep growing
		complete(false)
		restart("")
	}
	c.Feat("steps", int64(steps))
	c.SetSig(faults > 0, backend, fmt.Sprint(sig))
	if c.Index < 3 {
		c.Sample(map[string]any{"backend": backend, "steps": sig})
	}
}

// snapshotWritten: a snapshot file carrying this checkpoint id exists in the storage right now.
func (e *env) snapshotWritten(id uint64) bool {
	log := e.gl.Log()
	ids, _ := snapshotsIn(Image(log, len(log)))
	for _, x := range ids {
		if x == id {
			return true
		}
	}
	return false
}
