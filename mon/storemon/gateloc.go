package main

import (
	"bytes"
	"errors"
	"fmt"
	"io"
	"iter"
	"path"
	"path/filepath"
	"sort"
	"strings"
	"sync"
	"sync/atomic"
	"time"

	"google.golang.org/protobuf/proto"
	"reduction.dev/reduction/proto/snapshotpb"
	"reduction.dev/reduction/storage/locations"
	"verif/lib"
)

// ---------------------------------------------------------------- memLocation
//
// An in-memory locations.StorageLocation with the observable behaviour of LocalDirectory / S3Location:
// Write returns a URI (root + "/" + path), Read/Copy accept URIs or relative paths, Remove of a
// missing path is not an error, List yields URIs in lexicographic (byte) order of the path — the
// order both production locations list in (filepath.WalkDir / ListObjectsV2).

type memLocation struct {
	mu    sync.Mutex
	root  string
	files map[string][]byte
}

func newMemLocation(root string, files map[string][]byte) *memLocation {
	m := &memLocation{root: root, files: map[string][]byte{}}
	for k, v := range files {
		m.files[k] = v
	}
	return m
}

func relTo(root, p string) string {
	if strings.HasPrefix(p, root+"/") {
		p = p[len(root)+1:]
	}
	return path.Clean(strings.TrimPrefix(p, "/"))
}

func (m *memLocation) Write(p string, r io.Reader) (string, error) {
	data, err := io.ReadAll(r)
	if err != nil {
		return "", err
	}
	k := relTo(m.root, p)
	m.mu.Lock()
	m.files[k] = data
	m.mu.Unlock()
	return m.root + "/" + k, nil
}

func (m *memLocation) Read(p string) ([]byte, error) {
	m.mu.Lock()
	defer m.mu.Unlock()
	d, ok := m.files[relTo(m.root, p)]
	if !ok {
		return nil, locations.ErrNotFound
	}
	return append([]byte{}, d...), nil
}

func (m *memLocation) List() iter.Seq2[string, error] {
	return func(yield func(string, error) bool) {
		m.mu.Lock()
		keys := make([]string, 0, len(m.files))
		for k := range m.files {
			keys = append(keys, k)
		}
		m.mu.Unlock()
		sort.Strings(keys)
		for _, k := range keys {
			if !yield(m.root+"/"+k, nil) {
				return
			}
		}
	}
}

func (m *memLocation) URI(p string) (string, error) {
	m.mu.Lock()
	defer m.mu.Unlock()
	k := relTo(m.root, p)
	if _, ok := m.files[k]; !ok {
		return "", locations.ErrNotFound
	}
	return m.root + "/" + k, nil
}

func (m *memLocation) Copy(src, dst string) error {
	m.mu.Lock()
	defer m.mu.Unlock()
	d, ok := m.files[relTo(m.root, src)]
	if !ok {
		return locations.ErrNotFound
	}
	m.files[relTo(m.root, dst)] = append([]byte{}, d...)
	return nil
}

func (m *memLocation) Remove(paths ...string) error {
	m.mu.Lock()
	defer m.mu.Unlock()
	for _, p := range paths {
		delete(m.files, relTo(m.root, p))
	}
	return nil
}

var _ locations.StorageLocation = (*memLocation)(nil)

// ---------------------------------------------------------------- GateLocation (DESIGN §3 M7)
//
// Wraps any StorageLocation: logs Write/Read/List/URI/Copy/Remove with a logical tick and the role of
// the caller, keeps the content of everything written (so the storage image after the first k logged
// operations can be rebuilt), and can hold a Write or a Remove until released. Channel traffic of the
// store (retention notices, publication events) is appended to the same log by the collector, so the
// relative order of storage effects and announcements is one sequence.

type LocEvent struct {
	Seq  int
	Tick int64
	Role string // store | harness | channel
	Op   string // write-call write read list uri copy remove-call remove notify published
	Path string
	Dst  string
	ID   uint64   // checkpoint id of a snapshot file written / removed (0 = not a snapshot file)
	IDs  []uint64 // notify
	Err  string
	data []byte
}

func (e LocEvent) String() string {
	s := fmt.Sprintf("#%d t=%d %s %s", e.Seq, e.Tick, e.Role, e.Op)
	if e.Path != "" {
		s += " " + e.Path
	}
	if e.Dst != "" {
		s += " -> " + e.Dst
	}
	if e.ID != 0 {
		s += fmt.Sprintf(" [checkpoint %d]", e.ID)
	}
	if e.Op == "notify" {
		s += fmt.Sprintf(" retained=%v", e.IDs)
	}
	if e.data != nil {
		s += fmt.Sprintf(" (%dB)", len(e.data))
	}
	if e.Err != "" {
		s += " ERR " + e.Err
	}
	return s
}

func (e LocEvent) mutating() bool {
	return e.Err == "" && (e.Op == "write" || e.Op == "copy" || e.Op == "remove")
}

type Hold struct {
	op       string
	match    func(rel string, id uint64) bool
	arrived  chan struct{}
	release  chan struct{}
	taken    bool
	relOnce  sync.Once
	released atomic.Bool
	parked   atomic.Bool
	dropped  atomic.Bool // the process died while the operation was outstanding: it never takes effect
}

// Drop releases the hold; the held operation fails without taking effect (the caller's process "crashed").
func (h *Hold) Drop() {
	h.dropped.Store(true)
	h.Release()
}

func (h *Hold) Arrived(d time.Duration) bool {
	select {
	case <-h.arrived:
		return true
	case <-time.After(d):
		return false
	}
}

func (h *Hold) Release() {
	h.relOnce.Do(func() { h.released.Store(true); close(h.release) })
}

// Fault is a one-shot injected storage error: the next matching operation fails without taking effect.
type Fault struct {
	op    string // read | copy | write | list
	match func(rel string) bool
	Hit   atomic.Bool
}

type gateLocState struct {
	inner  locations.StorageLocation
	root   string
	faults []*Fault
	mu     sync.Mutex // log, holds, pathID, faults
	opMu   sync.Mutex // makes (inner effect, log append) one step, so log order = effect order
	log    []LocEvent
	pathID map[string]uint64
	holds  []*Hold
}

type GateLocation struct {
	st   *gateLocState
	role string
}

func NewGateLocation(inner locations.StorageLocation, root string) *GateLocation {
	return &GateLocation{st: &gateLocState{inner: inner, root: root, pathID: map[string]uint64{}}, role: "store"}
}

// As returns a view with another caller role that shares log and state.
func (g *GateLocation) As(role string) *GateLocation { return &GateLocation{st: g.st, role: role} }

func (s *gateLocState) add(e LocEvent) int {
	s.mu.Lock()
	defer s.mu.Unlock()
	e.Tick = lib.Tick.Add(1)
	e.Seq = len(s.log)
	s.log = append(s.log, e)
	return e.Seq
}

// Note appends a non-storage event (channel traffic).
func (g *GateLocation) Note(e LocEvent) { e.Role = "channel"; g.st.add(e) }

// snapshotID decodes the checkpoint id of a job snapshot file (identified by content, so the monitor
// does not depend on how file names encode ids).
func snapshotID(rel string, data []byte) uint64 {
	if filepath.Ext(rel) != ".snapshot" {
		return 0
	}
	var jc snapshotpb.JobCheckpoint
	if err := proto.Unmarshal(data, &jc); err != nil {
		return 0
	}
	return jc.Id
}

// park reports whether the operation may take effect.
func (s *gateLocState) park(op, rel string, id uint64) bool {
	s.mu.Lock()
	var h *Hold
	for _, c := range s.holds {
		if !c.taken && c.op == op && c.match(rel, id) {
			c.taken = true
			h = c
			break
		}
	}
	s.mu.Unlock()
	if h != nil {
		h.parked.Store(true)
		close(h.arrived)
		<-h.release
		return !h.dropped.Load()
	}
	return true
}

// Hold makes the next matching Write ("write"), Remove ("remove") or listing ("list") park before it takes effect.
func (g *GateLocation) Hold(op string, match func(rel string, id uint64) bool) *Hold {
	h := &Hold{op: op, match: match, arrived: make(chan struct{}), release: make(chan struct{})}
	g.st.mu.Lock()
	g.st.holds = append(g.st.holds, h)
	g.st.mu.Unlock()
	return h
}

// FailNext makes the next matching operation of the store's view ("read", "copy", "write", "list") fail once
// with a transient storage error; nothing is changed in the storage.
func (g *GateLocation) FailNext(op string, match func(rel string) bool) *Fault {
	f := &Fault{op: op, match: match}
	g.st.mu.Lock()
	g.st.faults = append(g.st.faults, f)
	g.st.mu.Unlock()
	return f
}

var errInjected = errors.New("verif: injected transient storage error")

func (g *GateLocation) injected(op, rel string) bool {
	if g.role != "store" {
		return false
	}
	g.st.mu.Lock()
	defer g.st.mu.Unlock()
	for _, f := range g.st.faults {
		if !f.Hit.Load() && f.op == op && f.match(rel) {
			f.Hit.Store(true)
			return true
		}
	}
	return false
}

// Parked counts the goroutines currently parked at a hold.
func (g *GateLocation) Parked() int {
	g.st.mu.Lock()
	defer g.st.mu.Unlock()
	n := 0
	for _, h := range g.st.holds {
		if h.parked.Load() && !h.released.Load() {
			n++
		}
	}
	return n
}

func (g *GateLocation) ReleaseAll() {
	g.st.mu.Lock()
	hs := append([]*Hold{}, g.st.holds...)
	g.st.mu.Unlock()
	for _, h := range hs {
		h.Release()
	}
}

func errStr(err error) string {
	if err == nil {
		return ""
	}
	return err.Error()
}

func (g *GateLocation) Write(p string, r io.Reader) (string, error) {
	data, err := io.ReadAll(r)
	if err != nil {
		return "", err
	}
	rel := relTo(g.st.root, p)
	id := snapshotID(rel, data)
	g.st.add(LocEvent{Role: g.role, Op: "write-call", Path: rel, ID: id})
	g.st.park("write", rel, id)
	if g.injected("write", rel) {
		g.st.add(LocEvent{Role: g.role, Op: "write", Path: rel, ID: id, Err: errInjected.Error()})
		return "", errInjected
	}
	g.st.opMu.Lock()
	defer g.st.opMu.Unlock()
	uri, err := g.st.inner.Write(p, bytes.NewReader(data))
	if err == nil && id != 0 {
		g.st.mu.Lock()
		g.st.pathID[rel] = id
		g.st.mu.Unlock()
	}
	g.st.add(LocEvent{Role: g.role, Op: "write", Path: rel, ID: id, data: data, Err: errStr(err)})
	return uri, err
}

func (g *GateLocation) Read(p string) ([]byte, error) {
	if g.injected("read", relTo(g.st.root, p)) {
		g.st.add(LocEvent{Role: g.role, Op: "read", Path: relTo(g.st.root, p), Err: errInjected.Error()})
		return nil, errInjected
	}
	d, err := g.st.inner.Read(p)
	g.st.add(LocEvent{Role: g.role, Op: "read", Path: relTo(g.st.root, p), Err: errStr(err)})
	return d, err
}

func (g *GateLocation) List() iter.Seq2[string, error] {
	g.st.add(LocEvent{Role: g.role, Op: "list-call"})
	if g.role == "store" {
		g.st.park("list", "", 0) // a slow listing: the directory is read when the hold is released
	}
	if g.injected("list", "") {
		g.st.add(LocEvent{Role: g.role, Op: "list", Err: errInjected.Error()})
		return func(yield func(string, error) bool) { yield("", errInjected) }
	}
	g.st.add(LocEvent{Role: g.role, Op: "list"})
	return g.st.inner.List()
}

func (g *GateLocation) URI(p string) (string, error) {
	u, err := g.st.inner.URI(p)
	g.st.add(LocEvent{Role: g.role, Op: "uri", Path: relTo(g.st.root, p), Err: errStr(err)})
	return u, err
}

func (g *GateLocation) Copy(src, dst string) error {
	if g.injected("copy", relTo(g.st.root, dst)) {
		g.st.add(LocEvent{Role: g.role, Op: "copy", Path: relTo(g.st.root, src), Dst: relTo(g.st.root, dst), Err: errInjected.Error()})
		return errInjected
	}
	g.st.opMu.Lock()
	defer g.st.opMu.Unlock()
	err := g.st.inner.Copy(src, dst)
	var data []byte
	if err == nil {
		data, _ = g.st.inner.Read(dst)
		if data == nil {
			data = []byte{}
		}
	}
	g.st.add(LocEvent{Role: g.role, Op: "copy", Path: relTo(g.st.root, src), Dst: relTo(g.st.root, dst), data: data, Err: errStr(err)})
	return err
}

// Remove deletes path by path (one logged storage operation each). The store only ever passes one
// path; for several, a failure stops at the first error like the wrapped call would.
func (g *GateLocation) Remove(paths ...string) error {
	rels := make([]string, len(paths))
	for i, p := range paths {
		rels[i] = relTo(g.st.root, p)
	}
	g.st.mu.Lock()
	var id0 uint64
	if len(rels) > 0 {
		id0 = g.st.pathID[rels[0]]
	}
	g.st.mu.Unlock()
	g.st.add(LocEvent{Role: g.role, Op: "remove-call", Path: strings.Join(rels, ","), ID: id0})
	for _, rel := range rels {
		g.st.mu.Lock()
		id := g.st.pathID[rel]
		g.st.mu.Unlock()
		if !g.st.park("remove", rel, id) {
			g.st.add(LocEvent{Role: g.role, Op: "remove-lost", Path: rel, ID: id})
			return errors.New("verif: the process died before the Remove was issued")
		}
	}
	for i, p := range paths {
		g.st.opMu.Lock()
		g.st.mu.Lock()
		id := g.st.pathID[rels[i]]
		g.st.mu.Unlock()
		err := g.st.inner.Remove(p)
		g.st.add(LocEvent{Role: g.role, Op: "remove", Path: rels[i], ID: id, Err: errStr(err)})
		g.st.opMu.Unlock()
		if err != nil {
			return err
		}
	}
	return nil
}

var _ locations.StorageLocation = (*GateLocation)(nil)

// Log returns a copy of the event log.
func (g *GateLocation) Log() []LocEvent {
	g.st.mu.Lock()
	defer g.st.mu.Unlock()
	return append([]LocEvent{}, g.st.log...)
}

func (g *GateLocation) LogLen() int {
	g.st.mu.Lock()
	defer g.st.mu.Unlock()
	return len(g.st.log)
}

// Image rebuilds the storage contents after the first k logged events (every Write / Copy / Remove is
// atomic and durable when it returns).
func Image(log []LocEvent, k int) map[string][]byte {
	img := map[string][]byte{}
	for _, e := range log[:k] {
		if !e.mutating() {
			continue
		}
		switch e.Op {
		case "write":
			img[e.Path] = e.data
		case "copy":
			img[e.Dst] = e.data
		case "remove":
			delete(img, e.Path)
		}
	}
	return img
}

// snapshotsIn lists the checkpoint ids of the snapshot files of an image.
func snapshotsIn(img map[string][]byte) (ids []uint64, byID map[uint64]string) {
	byID = map[uint64]string{}
	for p, d := range img {
		if id := snapshotID(p, d); id != 0 {
			ids = append(ids, id)
			byID[id] = p
		}
	}
	sort.Slice(ids, func(i, j int) bool { return ids[i] < ids[j] })
	return ids, byID
}

func fmtEvents(log []LocEvent, from int, skipReads bool) []string {
	var out []string
	for _, e := range log[min(from, len(log)):] {
		if skipReads && (e.Op == "read" || e.Op == "uri" || e.Op == "list" || e.Op == "list-call") {
			continue
		}
		out = append(out, e.String())
	}
	return out
}
