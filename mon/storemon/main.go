// storemon — C12 (job checkpoint all-or-nothing, ids only grow) and C13 (restart resumes from the
// newest completed checkpoint; retention keeps it): the real storage/snapshots.Store behind a
// recording / gating StorageLocation (DESIGN §6 C12, C13).
package main

import (
	"io"
	"log/slog"

	"google.golang.org/protobuf/proto"
	"reduction.dev/reduction/proto/snapshotpb"
	"verif/lib"
)

func n(q, t int) func(string) int {
	return func(tier string) int {
		if tier == "thorough" {
			return t
		}
		return q
	}
}

func decodeJC(b []byte) *snapshotpb.JobCheckpoint {
	var jc snapshotpb.JobCheckpoint
	if err := proto.Unmarshal(b, &jc); err != nil {
		return nil
	}
	return &jc
}

var c12Assume = []string{
	"publication is observed at the job's StorageLocation (snapshot files identified by their decoded id, not by name), at Store.CurrentCheckpoint and on the store's retained-checkpoints channel; the store's goroutines are awaited by goroutine count (wall clock only bounds the wait: inconclusive)",
	"every acknowledgement carries a payload no other acknowledgement carries (key-group range / split-state strings), so a published entry identifies the acknowledgement it came from",
	"return values of Add*Snapshot are recorded, not judged (the statement does not fix them); a checkpoint the model completes but the store never writes is inconclusive, not a violation (the statement bounds publication from above only)",
	"an id handed out by a previous incarnation for a checkpoint that never completed may be handed out again after a restart (counted as unpublished_id_reissued_after_restart); ids must exceed every published id",
	"operators reference DKV checkpoint files that exist in the job's storage (savepoint assembly succeeds); exactly one source splitter is registered per Store (re-registration is C15)",
}

var c13Assume = []string{
	"Write / Copy / Remove of a StorageLocation are atomic and durable when they return; a crash image is the storage after the first k logged operations",
	"listing order is byte order of the path (filepath.WalkDir for LocalDirectory, ListObjectsV2 for S3); the in-memory location lists the same way and 1 scenario in 8 runs on a real LocalDirectory",
	"a completed checkpoint is one whose snapshot file was completely written; the seed savepoint that starts the id counter high is not a checkpoint file",
	"the store's goroutines are awaited by goroutine count between steps (wall clock only bounds the wait: inconclusive)",
}

var faultAssume = []string{
	"a transient storage error makes one Read / Copy / List call of the store fail and changes nothing in the storage",
	"a job that refuses to start because its storage reported an error is restarted (storage works again); refusing is legitimate, starting from an older or no checkpoint as if nothing had happened is not",
	"publications are awaited through the hook snapshots.publication-ended",
}

const faultRule = "2..5 seeded steps on one storage (1 in 3 with the id counter started high, 1 in 8 on a real LocalDirectory): a completed checkpoint / a savepoint whose artifact assembly hits ONE transient storage error (reading an operator's checkpoints document, copying a WAL file, the checkpoints document or the job snapshot into the savepoint) followed by a restart / a restart with ONE transient error while listing or reading the snapshot files / a plain restart; then one more checkpoint and restart. Oracles: a checkpoint every member acknowledged whose publication ended has its snapshot file in storage; after every restart the job recovers from the newest checkpoint published to storage (a refused start is followed by a start without fault); every new id exceeds every id handed out before; non-trivial = >=1 fault injected; distinct by (backend, steps)"

func main() {
	slog.SetDefault(slog.New(slog.NewTextHandler(io.Discard, nil))) // the store logs through the default logger
	lib.Main(
		&lib.Prop{ID: "C12", Part: "sequential", Level: "exploration", NCases: n(3000, 200000), Run: c12Sequential, Assumptions: c12Assume,
			Rule: "10..40 seeded calls CreateCheckpoint / CreateSavepoint (before, while, after a pending checkpoint) / AddOperatorSnapshot / AddSourceSnapshot / CurrentCheckpoint on a real snapshots.Store next to a sequential model (one pending checkpoint with expected operator and runner ids, id floor, published set); assembly sizes 1..4 x 1..4 walked by the case index and changed in flight; acknowledgements: expected, duplicates (same and new payload), wrong ids (pending+-1, current, 0, +2^32, random), unknown senders (foreign ids, operator ids as runners and vice versa, nodes of a previous assembly, empty id), before create, late after completion and after a restart abandoned the checkpoint; store restarts on the same storage (new Store + LoadCheckpoint); 2 cases in 5 start the id counter high (seed savepoint with an id around name-encoding borders or random up to 2^64-60); 1 in 10 on a real LocalDirectory. After EVERY call the store is awaited and the storage log, CurrentCheckpoint and retention notices are compared with the model: nothing written/announced unless the model completed that id, the snapshot file and CurrentCheckpoint hold exactly one entry per expected operator (equal to one of its acknowledgements for that id) and exactly the split states of one acknowledgement per expected runner, no second pending checkpoint, ids strictly above every earlier/published id also across restarts. non-trivial = >=1 checkpoint published and >=1 bad acknowledgement; distinct by call-list hash"},
		&lib.Prop{ID: "C12", Part: "concurrent", Level: "exploration", NCases: n(1000, 100000), Run: c12Concurrent, Assumptions: append([]string{
			"jobs.Job calls the Store directly from RPC handler goroutines and the checkpoint ticker (no task queue): concurrent calls on one Store are in the production domain",
			"linearizability (Porcupine, 10 s cap -> inconclusive) is checked for Create*/Add* against the sequential store with unconstrained acknowledgement return values; CurrentCheckpoint, which advances asynchronously, is checked directly",
			"the next checkpoint cannot complete inside a burst (acknowledgements with id+1 come from operators only), so publications of consecutive checkpoints never overlap here (that is C13's subject)"}, c12Assume...),
			Rule: "1..3 rounds per case on one Store (1 in 3 with the id counter started high): a checkpoint (1 in 4: savepoint) is created, then 2..4 goroutines released together deliver, in seeded per-goroutine orders, one acknowledgement of every expected node plus 0..3 duplicates, 0..2 wrong-id, 0..2 unknown-sender acknowledgements, 0..2 CreateCheckpoint, 0..1 CreateSavepoint and 0..2 CurrentCheckpoint calls; in 1 round of 5 CreateCheckpoint itself races with the acknowledgements of the id it will return (rejected ones are re-delivered). Direct oracle per round: exactly one snapshot write for the id, started after an acknowledgement call of every expected node, content as in part sequential, a checkpoint created inside the burst only after completion and only one; then the whole call history (call/return ticks of one logical clock) is checked for linearizability. non-trivial = >=1 burst; distinct by (assembly, per-goroutine op lists) hash; observed completion orders counted as extra signatures. Repeated under the race detector"},
		&lib.Prop{ID: "C12", Part: "kf-dup-runner-ack", Level: "exploration", NCases: n(1, 1), Run: kfDupRunnerAck,
			Rule: "deterministic minimal history of the duplicate source-runner acknowledgement: 1 operator, 1 runner; CreateCheckpoint; runner ack; runner ack again; operator ack; the published snapshot is compared with the model as in part sequential"},
		&lib.Prop{ID: "C13", Part: "crash-prefixes", Level: "fault_enumeration", NCases: n(1000, 30000), Run: c13Case, Assumptions: c13Assume,
			Rule: "scenarios of 2..6 completed checkpoints (assembly 1..2 x 1..2, every node acknowledges in a seeded order) whose first id walks a list of 40 bases around the borders of the file-name encoding (1,2,3; 14..18; 47,48; 62..64; 190..192; 255,256; 831,832; 1007,1008; 1023,1024; 4095,4096; 2^16+-1; 2^22-1; 2^32+-1; 2^40-1; 2^48+2; 2^63-1; 2^63; 2^64-40) or is random; per checkpoint seeded: savepoint requested before/while pending, the snapshot Write held until 1..2 later checkpoints completed AND were published (forced publication overlap, released in seeded order), the next Remove held the same way (3 snapshot files coexist), a store restart on the live storage. The GateLocation log is then cut after EVERY individual Write/Copy/Remove: a fresh Store.LoadCheckpoint on that image must recover the snapshot with the highest id present (and exactly its content). Retention rule on the whole stream: no Remove of the newest completely written snapshot, no retention notice that omits it. non-trivial = >=1 image with >=2 snapshot files; distinct by scenario hash; distinct image shapes (ids present, name order inverted or not) counted as extra signatures"},
		&lib.Prop{ID: "C12", Part: "storage-faults", Level: "exploration", NCases: n(300, 8000), Run: storageFaults, Assumptions: faultAssume, Rule: faultRule},
		&lib.Prop{ID: "C13", Part: "storage-faults", Level: "fault_enumeration", NCases: n(300, 8000), Run: storageFaults, Assumptions: faultAssume, Rule: faultRule},
		&lib.Prop{ID: "C13", Part: "kf-listing-order", Level: "fault_enumeration", NCases: n(1, 1), Run: kfListingOrder,
			Rule: "deterministic: empty store, checkpoints 1, 2, 3 without any hold; crash images after every storage operation (the image between Write(3) and Remove(2) holds the files of 2 and 3)"},
		&lib.Prop{ID: "C13", Part: "kf-publication-overlap", Level: "fault_enumeration", NCases: n(1, 1), Run: kfPublicationOverlap,
			Rule: "deterministic: ids 4, 5, 6; the Write of snapshot 5 is held until checkpoint 6 completed and was published, then released; retention rule and crash images as in part crash-prefixes"},
	)
}
