package main

import (
	"fmt"
	"time"

	"google.golang.org/protobuf/proto"
	"reduction.dev/reduction/proto/snapshotpb"
	"verif/lib"
)

// C12 part "sequential": the real snapshots.Store next to a sequential reference model.

// idBases are first ids chosen around the places where the snapshot file-name encoding changes
// character class or carries (see c13.go), plus large values.
var idBases = []uint64{1, 2, 3, 14, 15, 16, 17, 18, 47, 48, 62, 63, 64, 190, 191, 192, 255, 256, 831, 832, 1007, 1008, 1023, 1024, 4095, 4096,
	1<<16 - 2, 1<<16 - 1, 1 << 16, 1<<16 + 1, 1<<22 - 1, 1<<32 - 2, 1<<32 - 1, 1 << 32, 1<<32 + 1, 1<<40 - 1, 1<<48 + 2, 1<<63 - 1, 1 << 63, 1<<64 - 40}

type seqCase struct {
	*env
	opN, srN   []string
	pending    *pendM
	lost       []*pendM
	curID      uint64 // the model's current (newest published / loaded) checkpoint, 0 = none
	curPend    *pendM // its contents (nil for the seed)
	inStorage  bool   // the current checkpoint has a snapshot file in the checkpoints directory
	published  map[uint64]bool
	floor      uint64 // every new id must be greater
	maxHanded  uint64
	logPos     int
	pubs, bad  int
	sig        []string
	lastDone   *pendM
	dupRunnerX bool
	splCalls   int64
	discarded  []uint64 // ids of checkpoints discarded by this store incarnation
}

func (s *seqCase) op(format string, args ...any) {
	m := fmt.Sprintf(format, args...)
	s.sig = append(s.sig, m)
	s.logOp("%s", m)
}

// observe waits for the store to go quiet and compares what it did with what the model allows:
// expect == nil: nothing may be published; expect != nil: exactly that checkpoint.
func (s *seqCase) observe(what string, expect *pendM) {
	c := s.c
	s.quiesce()
	if expect != nil && s.spl.calls.Load() != s.splCalls {
		// the store decided that a checkpoint is complete (it took the splitter state): its snapshot
		// write is on the way even if the goroutine count was momentarily misleading
		for i := 0; i < 2000 && !s.wrote(expect.ID); i++ {
			time.Sleep(50 * time.Microsecond)
			s.quiesce()
		}
	}
	s.splCalls = s.spl.calls.Load()
	log := s.gl.Log()
	evs := log[s.logPos:]
	s.logPos = len(log)
	var writes []LocEvent
	for _, ev := range evs {
		switch {
		case ev.Role == "store" && ev.Op == "write-call" && ev.ID != 0:
			if expect == nil || ev.ID != expect.ID {
				detail := "no checkpoint is pending in the model"
				if s.pending != nil {
					mo, ms := s.pending.missing()
					detail = fmt.Sprintf("pending checkpoint %d still misses operators %v and runners %v", s.pending.ID, mo, ms)
				}
				c.Fail("published-without-completion", s.wit(), "after %s the store writes snapshot %s of checkpoint %d: %s", what, ev.Path, ev.ID, detail)
			}
		case ev.Role == "store" && ev.Op == "write" && ev.ID != 0 && ev.Err == "":
			writes = append(writes, ev)
		case ev.Op == "notify":
			for _, id := range ev.IDs {
				if !s.published[id] && !(expect != nil && id == expect.ID) {
					c.Fail("retention-notice-unpublished-id", s.wit(), "after %s the store announces retained=%v; checkpoint %d was never published", what, ev.IDs, id)
				}
			}
			c.Feat("retention_notices", 1)
		}
	}
	if expect == nil {
		return
	}
	if len(writes) == 0 {
		c.Inconclusive("model: %s completes checkpoint %d, the store went quiet without writing it (not decidable from the statement, which only bounds publication from above)", what, expect.ID)
	}
	if len(writes) > 1 {
		c.Fail("published-twice", s.wit(), "after %s the store wrote %d snapshot files for checkpoint %d", what, len(writes), expect.ID)
	}
	var jc snapshotpb.JobCheckpoint
	if err := proto.Unmarshal(writes[0].data, &jc); err != nil {
		c.Fail("published-undecodable", s.wit(), "snapshot file %s does not decode: %v", writes[0].Path, err)
	}
	s.checkPublished(&jc, expect, "snapshot file "+writes[0].Path, func() any { return s.wit() })
	s.published[expect.ID] = true
	s.curID, s.curPend, s.inStorage = expect.ID, expect, true
	s.pubs++
	c.Feat("checkpoints_published", 1)
	c.Feat(fmt.Sprintf("published_%dx%d", len(expect.ExpOps), len(expect.ExpSrs)), 1)
	if expect.Savepoint {
		c.Feat("savepoints_published", 1)
	}
	s.checkCurrent("after publication of " + fmt.Sprint(expect.ID))
}

func (s *seqCase) wrote(id uint64) bool {
	log := s.gl.Log()
	for _, ev := range log[min(s.logPos, len(log)):] {
		if ev.Role == "store" && ev.Op == "write" && ev.ID == id {
			return true
		}
	}
	return false
}

func (s *seqCase) checkCurrent(when string) {
	cur := s.store.CurrentCheckpoint()
	if cur.GetId() != s.curID {
		s.c.Fail("current-checkpoint", s.wit(), "%s: CurrentCheckpoint().Id = %d, model %d", when, cur.GetId(), s.curID)
	}
	if cur != nil && s.curPend != nil {
		s.checkPublished(cur, s.curPend, "CurrentCheckpoint() "+when, func() any { return s.wit() })
	}
	s.c.Feat("current_checks", 1)
}

func (s *seqCase) newID(id uint64, how string) {
	if id <= s.floor {
		s.c.Fail("id-not-increasing", s.wit(), "%s returned id %d, but id %d was already handed out / published (ids must strictly increase, also across restarts)", how, id, s.floor)
	}
	if id <= s.maxHanded {
		// the previous incarnation handed this id out for a checkpoint that never completed
		s.c.Feat("unpublished_id_reissued_after_restart", 1)
	}
	s.floor = id
	if id > s.maxHanded {
		s.maxHanded = id
	}
}

func (s *seqCase) createCheckpoint() {
	s.op("CreateCheckpoint(ops=%v, runners=%v)", s.opN, s.srN)
	id, err := s.store.CreateCheckpoint(s.opN, s.srN)
	s.op("  -> id=%d err=%v", id, err)
	if s.pending != nil {
		if err == nil {
			s.c.Fail("second-checkpoint-in-progress", s.wit(), "CreateCheckpoint returned id %d while checkpoint %d is still pending", id, s.pending.ID)
		}
		s.c.Feat("create_refused_in_progress", 1)
	} else if err != nil {
		s.c.Feat("create_refused_without_pending", 1)
	} else {
		s.newID(id, "CreateCheckpoint")
		s.pending = newPend(id, s.opN, s.srN, false)
		s.c.Feat("checkpoints_created", 1)
	}
	s.observe("CreateCheckpoint", nil)
}

func (s *seqCase) createSavepoint() {
	s.op("CreateSavepoint(ops=%v, runners=%v)", s.opN, s.srN)
	id, created, err := s.store.CreateSavepoint(s.opN, s.srN)
	s.op("  -> id=%d created=%v err=%v", id, created, err)
	switch {
	case s.pending == nil:
		if err != nil {
			s.c.Feat("create_refused_without_pending", 1)
		} else if !created {
			s.c.Fail("savepoint-without-checkpoint", s.wit(), "CreateSavepoint returned (id=%d, created=false) but no checkpoint is pending", id)
		} else {
			s.newID(id, "CreateSavepoint")
			s.pending = newPend(id, s.opN, s.srN, true)
			s.c.Feat("savepoint_before_pending", 1)
		}
	case created && err == nil:
		s.c.Fail("second-checkpoint-in-progress", s.wit(), "CreateSavepoint created checkpoint %d while checkpoint %d is still pending", id, s.pending.ID)
	case err == nil:
		if id != s.pending.ID {
			s.c.Fail("savepoint-wrong-id", s.wit(), "CreateSavepoint attached to checkpoint %d, the pending one is %d", id, s.pending.ID)
		}
		if s.pending.Savepoint {
			s.c.Feat("savepoint_requested_twice_accepted", 1)
		}
		s.pending.Savepoint = true
		s.c.Feat("savepoint_while_pending", 1)
	default:
		s.c.Feat("savepoint_refused", 1)
	}
	s.observe("CreateSavepoint", nil)
}

// deliver sends one acknowledgement and lets the model decide whether it completes the checkpoint.
func (s *seqCase) deliver(a *ackRec, why string) {
	qual := s.pending != nil && a.ID == s.pending.ID && s.pending.expects(a.Kind, a.Node)
	s.send(a)
	s.op("%v [%s] -> err=%q", a, why, a.Err)
	var done *pendM
	if qual {
		s.pending.add(a)
		if s.pending.complete() {
			done = s.pending
			s.pending = nil
			s.lastDone = done
		}
	}
	s.observe(a.String(), done)
}

func (s *seqCase) nStates() int {
	switch x := s.r.Intn(10); {
	case x == 0:
		return 0
	case x < 6:
		return 1
	default:
		return 2 + s.r.Intn(2)
	}
}

func (s *seqCase) build(kind, node string, id uint64) *ackRec {
	if kind == "op" {
		return s.buildOpAck(node, id)
	}
	return s.buildSrAck(node, id, s.nStates())
}

func (s *seqCase) progress() bool {
	if s.pending == nil {
		return false
	}
	mo, ms := s.pending.missing()
	n := len(mo) + len(ms)
	if n == 0 {
		return false
	}
	i := s.r.Intn(n)
	if i < len(mo) {
		s.deliver(s.build("op", mo[i], s.pending.ID), "expected")
	} else {
		s.deliver(s.build("sr", ms[i-len(mo)], s.pending.ID), "expected")
	}
	return true
}

func (s *seqCase) finishPending() {
	for s.pending != nil && s.progress() {
	}
}

func (s *seqCase) duplicate() {
	if s.pending == nil {
		return
	}
	var cands []*ackRec
	for _, as := range s.pending.opAcks {
		cands = append(cands, as[0])
	}
	for _, as := range s.pending.srAcks {
		if !s.dupRunnerX {
			cands = append(cands, as[0])
		}
	}
	if len(cands) == 0 {
		return
	}
	sortAcks(cands) // map iteration order is random
	best := cands[s.r.Intn(len(cands))]
	var a *ackRec
	if s.r.Intn(3) == 0 { // the same request again (a retried RPC)
		cp := *best
		a = &cp
		s.c.Feat("duplicate_ack_same_payload", 1)
	} else {
		a = s.build(best.Kind, best.Node, best.ID)
		s.c.Feat("duplicate_ack_new_payload", 1)
	}
	s.c.Feat("duplicate_acks_"+best.Kind, 1)
	s.bad++
	s.deliver(a, "duplicate")
}

func sortAcks(as []*ackRec) {
	for i := 1; i < len(as); i++ {
		for j := i; j > 0 && as[j].Seq < as[j-1].Seq; j-- {
			as[j], as[j-1] = as[j-1], as[j]
		}
	}
}

func (s *seqCase) wrongID() {
	var ids []uint64
	if s.pending != nil {
		ids = append(ids, s.pending.ID+1, s.pending.ID-1, s.pending.ID+1<<32, 0)
	}
	if s.curID != 0 {
		ids = append(ids, s.curID)
	}
	ids = append(ids, s.floor+1, s.floor+2, s.r.Uint64())
	id := lib.Pick(s.r, ids)
	if s.pending != nil && id == s.pending.ID {
		return
	}
	kind, node := "op", lib.Pick(s.r, s.opN)
	if s.r.Intn(2) == 0 {
		kind, node = "sr", lib.Pick(s.r, s.srN)
	}
	why := "wrong id"
	if s.pending == nil {
		why = "no checkpoint pending (before create / after completion)"
		s.c.Feat("acks_without_pending", 1)
	} else {
		s.c.Feat("acks_wrong_id", 1)
	}
	s.bad++
	s.deliver(s.build(kind, node, id), why)
}

func (s *seqCase) foreign() {
	id := s.floor + 1
	if s.pending != nil {
		id = s.pending.ID
	}
	var a *ackRec
	switch s.r.Intn(6) {
	case 0:
		a = s.build("op", "op9", id)
	case 1:
		a = s.build("sr", "sr9", id)
	case 2: // an operator id arriving as a source runner
		a = s.build("sr", lib.Pick(s.r, s.opN), id)
	case 3: // a runner id arriving as an operator
		a = s.build("op", lib.Pick(s.r, s.srN), id)
	case 4: // a node that is not part of the assembly this checkpoint was created for
		a = s.build("op", fmt.Sprintf("op%d", len(s.opN)+1), id)
	default:
		a = s.build("sr", "", id)
	}
	if s.pending != nil && s.pending.expects(a.Kind, a.Node) {
		return
	}
	s.c.Feat("acks_unknown_sender", 1)
	s.bad++
	s.deliver(a, "unknown sender")
}

func (s *seqCase) late() {
	// an acknowledgement of a checkpoint that is already complete, or that a restart abandoned
	var src *pendM
	why := "late: checkpoint already complete"
	if len(s.lost) > 0 && s.r.Intn(2) == 0 {
		src = lib.Pick(s.r, s.lost)
		why = "late: checkpoint abandoned by a restart"
	} else if s.lastDone != nil {
		src = s.lastDone
	}
	if src == nil {
		return
	}
	if s.pending != nil && s.pending.ID == src.ID {
		// the restarted store reissued the id: the old and the new acknowledgement cannot be told apart
		// (within one incarnation newID has already reported the reuse)
		s.c.Feat("late_ack_skipped_id_reissued", 1)
		return
	}
	kind, node := "op", lib.Pick(s.r, src.ExpOps)
	if s.r.Intn(2) == 0 {
		kind, node = "sr", lib.Pick(s.r, src.ExpSrs)
	}
	s.c.Feat("acks_late", 1)
	s.bad++
	s.deliver(s.build(kind, node, src.ID), why)
}

func (s *seqCase) restart() {
	if s.curID != 0 && !s.inStorage {
		return // only the seed savepoint exists: a plain restart would legitimately start from nothing
	}
	s.op("restart: new Store on the same storage + LoadCheckpoint (pending=%v)", s.pending != nil)
	if err := s.startStore(""); err != nil {
		s.c.Fail("load-error", s.wit(), "LoadCheckpoint after restart: %v", err)
	}
	if s.pending != nil {
		s.lost = append(s.lost, s.pending)
		s.pending = nil
		s.c.Feat("restarts_with_pending", 1)
	}
	s.c.Feat("restarts", 1)
	s.splCalls = 0
	s.logPos = s.gl.LogLen()
	cur := s.store.CurrentCheckpoint()
	if cur.GetId() != s.curID {
		s.c.Fail("restart-wrong-checkpoint", s.wit(), "after the restart CurrentCheckpoint().Id = %d; the only published checkpoint in storage is %d", cur.GetId(), s.curID)
	}
	s.checkCurrent("after restart")
	s.floor = s.curID
}

// discard: what Job.start does before it deploys a new assembly — a checkpoint that was in progress when the
// previous assembly failed can never complete. Its id stays used: ids strictly increase, and acknowledgements
// of it that arrive later are late.
func (s *seqCase) discard() {
	s.op("DiscardPendingCheckpoint() (pending=%v)", s.pending != nil)
	s.store.DiscardPendingCheckpoint()
	if s.pending != nil {
		s.lost = append(s.lost, s.pending)
		s.discarded = append(s.discarded, s.pending.ID)
		s.pending = nil
		s.c.Feat("discards_with_pending", 1)
	}
	s.c.Feat("discards", 1)
	s.observe("DiscardPendingCheckpoint", nil)
}

func (s *seqCase) changeAssembly() {
	whilePending := s.pending != nil
	if whilePending && s.r.Intn(4) != 0 {
		return
	}
	s.opN, s.srN = names("op", 1+s.r.Intn(4)), names("sr", 1+s.r.Intn(4))
	s.op("assembly changes to ops=%v runners=%v (pending=%v)", s.opN, s.srN, whilePending)
	s.c.Feat("assembly_changes", 1)
	if whilePending {
		// DESIGN §7 (d), C15's subject: the store keeps the pending checkpoint of the old assembly.
		_, err := s.store.CreateCheckpoint(s.opN, s.srN)
		s.op("  CreateCheckpoint for the new assembly -> err=%v (pending checkpoint %d expects ops=%v runners=%v)", err, s.pending.ID, s.pending.ExpOps, s.pending.ExpSrs)
		if err == nil {
			s.c.Fail("second-checkpoint-in-progress", s.wit(), "CreateCheckpoint for a new assembly succeeded while checkpoint %d is pending", s.pending.ID)
		}
		s.c.Feat("assembly_change_while_pending_stays_in_progress", 1)
		s.observe("CreateCheckpoint(new assembly)", nil)
	}
}

func c12Sequential(c *lib.Ctx) {
	backend := "mem"
	if c.R.Intn(10) == 0 {
		backend = "local"
	}
	s := &seqCase{env: newEnv(c, backend), published: map[uint64]bool{}, dupRunnerX: lib.Known("dup-runner-ack")}
	defer s.close()
	r := s.r
	// every assembly size: the index walks the 16 sizes, the rest is seeded
	s.opN, s.srN = names("op", 1+c.Index%4), names("sr", 1+(c.Index/4)%4)
	for _, o := range names("op", 5) {
		s.writeDKV(o)
	}
	if r.Intn(5) < 2 {
		b := lib.Pick(r, idBases)
		if r.Intn(4) == 0 {
			b = r.Uint64()>>uint(r.Intn(40)) | 1
		}
		if b < 2 {
			b = 2
		}
		if b > 1<<64-60 {
			b = 1<<64 - 60
		}
		s.seedHigh(b - 1)
		s.sig = append(s.sig, fmt.Sprintf("seed %d", b-1))
		s.curID, s.floor, s.maxHanded = b-1, b-1, b-1
		s.published[b-1] = true
		c.Feat("seeded_high", 1)
	} else {
		s.op("start store #1 on empty storage")
		if err := s.startStore(""); err != nil {
			c.Fail("load-error", s.wit(), "LoadCheckpoint on empty storage: %v", err)
		}
	}
	s.logPos = s.gl.LogLen()
	s.checkCurrent("at start")

	nsteps := 10 + r.Intn(31)
	for i := 0; i < nsteps; i++ {
		switch x := r.Intn(100); {
		case x < 13:
			s.createCheckpoint()
		case x < 19:
			s.createSavepoint()
		case x < 47:
			if !s.progress() && s.pending == nil && r.Intn(2) == 0 {
				s.createCheckpoint()
			}
		case x < 57:
			s.duplicate()
		case x < 65:
			s.wrongID()
		case x < 72:
			s.foreign()
		case x < 79:
			s.late()
		case x < 83:
			s.checkCurrent("probe")
		case x < 89:
			s.restart()
		case x < 92:
			s.changeAssembly()
		case x < 95:
			s.discard()
			if r.Intn(2) == 0 {
				s.changeAssembly()
			}
		default:
			s.finishPending()
		}
	}
	if s.pending != nil && r.Intn(10) < 7 {
		s.finishPending()
	}
	s.observe("end of case", nil)
	s.checkCurrent("end of case")
	c.Feat("calls", int64(len(s.sig)))
	c.SetSig(s.pubs > 0 && s.bad > 0, backend, fmt.Sprint(s.sig))
	if c.Index < 3 {
		c.Sample(map[string]any{"backend": backend, "calls": firstN(s.sig, 60)})
	}
}

// kfDupRunnerAck is the minimal history of DESIGN §7 (a): the second acknowledgement of a runner
// for the pending checkpoint is merged into it.
func kfDupRunnerAck(c *lib.Ctx) {
	s := &seqCase{env: newEnv(c, "mem"), published: map[uint64]bool{}}
	defer s.close()
	s.opN, s.srN = []string{"op1"}, []string{"sr1"}
	s.writeDKV("op1")
	s.op("start store #1 on empty storage")
	lib.Must(s.startStore(""))
	s.logPos = s.gl.LogLen()
	s.createCheckpoint()
	s.deliver(s.buildSrAck("sr1", s.pending.ID, 1), "expected")
	s.deliver(s.buildSrAck("sr1", s.pending.ID, 1), "duplicate")
	s.deliver(s.buildOpAck("op1", s.pending.ID), "expected")
	c.SetSig(true, "kf-dup-runner-ack")
	c.Sample(s.sig)
}
