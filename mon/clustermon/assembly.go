package main

import (
	"context"
	"encoding/base64"
	"encoding/binary"
	"errors"
	"fmt"
	gproto "google.golang.org/protobuf/proto"
	"math"
	"path/filepath"
	"sort"
	"strings"
	"sync"
	"time"

	"reduction.dev/reduction/clocks"
	"reduction.dev/reduction/config"
	"reduction.dev/reduction/connectors"
	"reduction.dev/reduction/jobs"
	"reduction.dev/reduction/proto"
	"reduction.dev/reduction/proto/jobpb"
	"reduction.dev/reduction/proto/snapshotpb"
	"reduction.dev/reduction/proto/workerpb"
	"reduction.dev/reduction/storage/locations"
	"reduction.dev/reduction/util/vhook"
	"verif/cluster"
	"verif/lib"
	"verif/ophar"
)

// C15 fast tier: the real jobs.Job with FAKE nodes (harness proto.Operator / proto.SourceRunner that
// acknowledge on request) to explore the job's control logic broadly.

type fnode struct {
	id         string
	isOp       bool
	alive      bool
	registered bool      // registered and not deregistered since (by the calls made to the job)
	lastHB     time.Time // job-clock time of its last registration call
	failDeploy bool
}

type fDeploy struct {
	tick    int64
	node    string
	members []string // operators named in the request
	ckpts   []uint64
	err     bool
	legal   string // "" or why the target was not a registered live node at that moment
}

type fakeEnv struct {
	c       *lib.Ctx
	mu      sync.Mutex
	job     *jobs.Job
	clock   *clocks.FrozenClock
	now     time.Time
	nodes   map[string]*fnode
	workers int
	deploys []fDeploy
	startCk []struct {
		node string
		id   uint64
		gen  int // number of assemblies formed when the runner was asked
	}
	lateAcked []uint64        // checkpoints of an abandoned assembly that were acknowledged while the next one was deploying
	doneCk    map[uint64]bool // checkpoints that were no longer pending after an acknowledgement step of the script
	log       []string
	src       *cluster.VSource
	loc       *cluster.RecLocation
	completed uint64 // latest checkpoint id for which every expected member acknowledged
	pendingID uint64
	pending   map[string]bool // members asked to checkpoint pendingID and not yet acked
	retained  [][]uint64
	nDeploys  int
	evalNow   time.Time // the job clock at the start of the evaluation in progress (hook)
	formed    [][]string
	illegal   []string      // members of a formed assembly that were not registered-and-live at that evaluation
	slowNext  chan struct{} // armed: the next Deploy call parks until it is closed (a member that loads for a long time)
	parked    bool          // a Deploy call is parked on slowNext
}

func (e *fakeEnv) logf(f string, a ...any) {
	e.log = append(e.log, fmt.Sprintf(f, a...))
	e.c.Logf("%s", e.log[len(e.log)-1])
}

func (e *fakeEnv) wit() map[string]any {
	var ds []string
	from := max(0, len(e.deploys)-40)
	for _, d := range e.deploys[from:] {
		ds = append(ds, fmt.Sprintf("deploy %s members=%v ckpts=%v err=%v %s", d.node, d.members, d.ckpts, d.err, d.legal))
	}
	var st []string
	for _, op := range e.loc.Log() {
		st = append(st, op.Op+" "+op.Path)
	}
	var cks []string
	for _, s := range e.startCk {
		cks = append(cks, fmt.Sprintf("StartCheckpoint(%d) -> %s while %d assemblies had been formed", s.id, s.node, s.gen))
	}
	return map[string]any{"workers": e.workers, "script": e.log, "deploys": ds, "job_status": e.job.VerifStatus(), "storage_log": st, "start_checkpoint_calls": cks, "assemblies": e.formed}
}

// liveFor reports whether the job may consider the node a registered live member right now.
func (e *fakeEnv) liveFor(n *fnode) string {
	if !n.registered {
		return "it is not registered (deregistered or never registered)"
	}
	if e.now.Sub(n.lastHB) > 5*time.Second {
		return fmt.Sprintf("its last heartbeat is %v old (deadline 5s)", e.now.Sub(n.lastHB))
	}
	return ""
}

type fakeOp struct {
	proto.UnimplementedOperator
	e    *fakeEnv
	node *jobpb.NodeIdentity
}

func (o *fakeOp) ID() string   { return o.node.Id }
func (o *fakeOp) Host() string { return o.node.Host }
func (o *fakeOp) Deploy(ctx context.Context, r *workerpb.DeployOperatorRequest) error {
	return o.e.onDeploy(o.node.Id, r.Operators, r.Checkpoints)
}
func (o *fakeOp) UpdateRetainedCheckpoints(ctx context.Context, ids []uint64) error {
	o.e.mu.Lock()
	o.e.retained = append(o.e.retained, ids)
	o.e.mu.Unlock()
	return nil
}
func (o *fakeOp) NeedsTable(context.Context, string) (bool, error) { return false, nil }

type fakeSR struct {
	proto.UnimplementedSourceRunner
	e    *fakeEnv
	node *jobpb.NodeIdentity
}

func (s *fakeSR) ID() string   { return s.node.Id }
func (s *fakeSR) Host() string { return s.node.Host }
func (s *fakeSR) Deploy(ctx context.Context, r *workerpb.DeploySourceRunnerRequest) error {
	return s.e.onDeploy(s.node.Id, r.Operators, nil)
}
func (s *fakeSR) AssignSplits(ctx context.Context, sp []*workerpb.SourceSplit) error {
	s.e.mu.Lock()
	defer s.e.mu.Unlock()
	if n := s.e.nodes[s.node.Id]; n == nil || !n.alive {
		return errors.New("verif: unreachable")
	}
	return nil
}
func (s *fakeSR) StartCheckpoint(ctx context.Context, id uint64) error {
	s.e.mu.Lock()
	defer s.e.mu.Unlock()
	s.e.startCk = append(s.e.startCk, struct {
		node string
		id   uint64
		gen  int
	}{s.node.Id, id, len(s.e.formed)})
	s.e.log = append(s.e.log, fmt.Sprintf("  [job -> %s: StartCheckpoint(%d)]", s.node.Id, id))
	if n := s.e.nodes[s.node.Id]; n == nil || !n.alive {
		return errors.New("verif: unreachable")
	}
	return nil
}

func (e *fakeEnv) onDeploy(id string, ops []*jobpb.NodeIdentity, cks []*snapshotpb.OperatorCheckpoint) error {
	e.mu.Lock()
	if ch := e.slowNext; ch != nil && !e.parked {
		e.parked = true
		e.mu.Unlock()
		<-ch
		e.mu.Lock()
	}
	defer e.mu.Unlock()
	d := fDeploy{tick: lib.Tick.Add(1), node: id}
	for _, o := range ops {
		d.members = append(d.members, o.Id)
	}
	for _, c := range cks {
		d.ckpts = append(d.ckpts, c.CheckpointId)
	}
	n := e.nodes[id]
	if len(e.formed) == 0 {
		d.legal = "no assembly was formed"
	} else {
		last := e.formed[len(e.formed)-1]
		in := false
		for _, m := range last {
			in = in || m == id
		}
		if !in {
			d.legal = fmt.Sprintf("it is not a member of the assembly in force %v", last)
		}
	}
	var err error
	if n == nil || !n.alive {
		err = errors.New("verif: unreachable")
	} else if n.failDeploy {
		n.failDeploy = false
		err = errors.New("verif: injected deploy failure")
	}
	d.err = err != nil
	e.deploys = append(e.deploys, d)
	e.nDeploys++
	if len(e.deploys) > 4000 {
		e.deploys = append([]fDeploy{}, e.deploys[2000:]...) // the job retries a failing deploy in a tight loop while a dead member is still registered
	}
	return err
}

// sync pushes a no-op through the job's serial task queue: when it returns every earlier task has finished.
func (e *fakeEnv) sync() {
	// (not a deregistration of a node nobody knows: that would make the job evaluate the cluster, and purge
	// expired members, at moments at which nothing in a real cluster makes it do so)
	e.job.VerifSync()
	e.job.VerifSync()
}

func (e *fakeEnv) register(n *fnode) {
	e.mu.Lock()
	n.registered = true
	n.lastHB = e.now
	e.mu.Unlock()
	id := &jobpb.NodeIdentity{Id: n.id, Host: "h-" + n.id}
	if n.isOp {
		e.job.HandleRegisterOperator(id)
	} else {
		e.job.HandleRegisterSourceRunner(id)
	}
}

func (e *fakeEnv) deregister(n *fnode) {
	id := &jobpb.NodeIdentity{Id: n.id, Host: "h-" + n.id}
	if n.isOp {
		e.job.HandleDeregisterOperator(id)
	} else {
		e.job.HandleDeregisterSourceRunner(id)
	}
	// The node counts as a possible member until the job has surely processed the call (sync pushes two more
	// tasks through the serial queue); a registration counts from the moment the call is issued.
	e.sync()
	e.mu.Lock()
	n.registered = false
	e.mu.Unlock()
}

// installHooks: legality of an assembly is decided at the instant the job forms it, inside the job's own
// serial task (exact ordering with registrations, deregistrations and the clock value used for the purge).
func (e *fakeEnv) installHooks() {
	vhook.Set(func(name string, arg any) {
		switch name {
		case "job.evaluate":
			e.mu.Lock()
			e.evalNow = arg.(time.Time)
			e.mu.Unlock()
		case "job.assembly":
			a := arg.(*jobs.Assembly)
			ids := append(append([]string{}, a.OperatorIDs()...), a.SourceRunnerIDs()...)
			e.mu.Lock()
			foreign := true
			for _, id := range ids {
				foreign = foreign && e.nodes[id] == nil
			}
			if foreign {
				// the job of an earlier case of this process that is still retrying (node ids carry the case index)
				e.mu.Unlock()
				return
			}
			e.formed = append(e.formed, ids)
			e.log = append(e.log, fmt.Sprintf("  [job forms assembly #%d %v]", len(e.formed), ids))
			if len(a.OperatorIDs()) != e.workers || len(a.SourceRunnerIDs()) != e.workers {
				e.illegal = append(e.illegal, fmt.Sprintf("assembly %v has %d operators and %d source runners, configured: %d", ids, len(a.OperatorIDs()), len(a.SourceRunnerIDs()), e.workers))
			}
			for _, id := range ids {
				n := e.nodes[id]
				switch {
				case n == nil:
					e.illegal = append(e.illegal, fmt.Sprintf("assembly %v contains unknown node %s", ids, id))
				case !n.registered:
					e.illegal = append(e.illegal, fmt.Sprintf("assembly %v contains %s, which deregistered (the call had been processed)", ids, id))
				case e.evalNow.Sub(n.lastHB) > 5*time.Second:
					e.illegal = append(e.illegal, fmt.Sprintf("assembly %v contains %s whose last heartbeat was %v before this evaluation (deadline 5s)", ids, id, e.evalNow.Sub(n.lastHB)))
				}
			}
			e.mu.Unlock()
		}
	})
}

func (e *fakeEnv) advance(d time.Duration) {
	e.mu.Lock()
	e.now = e.now.Add(d)
	e.mu.Unlock()
	e.clock.Advance(d)
}

// waitStatus waits (watchdog) until the job's status is one of the given ones.
func (e *fakeEnv) waitStatus(d time.Duration, want ...string) bool {
	deadline := time.Now().Add(d)
	e.mu.Lock()
	deploys0 := e.nDeploys
	e.mu.Unlock()
	for time.Now().Before(deadline) {
		e.sync()
		s := e.job.VerifStatus()
		for _, w := range want {
			if s == w {
				return true
			}
		}
		// While a dead member is still registered and unexpired the job retries the failing deployment in a tight
		// loop (Starting -> Paused -> Starting ...; the clock is frozen, so nothing expires by itself): that is a
		// settled condition too, equivalent to Paused.
		e.mu.Lock()
		retrying := e.nDeploys-deploys0 >= 20 && !e.parked
		e.mu.Unlock()
		if retrying {
			for _, w := range want {
				if w == "Paused" {
					return true
				}
			}
		}
		time.Sleep(200 * time.Microsecond)
	}
	return false
}

func c15Fake(c *lib.Ctx) { c15FakeRun(c, false) }

// c12JobAcks: the same scripts judged by C12's job-level rule only (acknowledgements of an abandoned checkpoint
// that arrive while the next assembly is being deployed never complete it).
func c12JobAcks(c *lib.Ctx) { c15FakeRun(c, true) }

func c15FakeRun(c *lib.Ctx, c12only bool) {
	r := c.R
	workers := 1 + r.Intn(3)
	standbys := r.Intn(3)
	e := &fakeEnv{c: c, nodes: map[string]*fnode{}, workers: workers, clock: clocks.NewFrozenClock(), now: time.Unix(0, 0), pending: map[string]bool{}}
	c.OnPanic = func() any { return e.wit() }
	e.src = cluster.NewVSource(2, 10, "increasing", func(int, int) int { return 1 })
	e.loc = &cluster.RecLocation{StorageLocation: locations.NewLocalDirectory(filepath.Join(c.Dir, "job"))}
	errc := make(chan error, 100)
	go func() {
		for range errc {
		}
	}()
	job, err := jobs.New(&jobs.NewParams{
		JobConfig:           &config.Config{WorkerCount: workers, KeyGroupCount: 16, WorkingStorageLocation: filepath.Join(c.Dir, "work"), Sources: []connectors.SourceConfig{e.src}},
		Clock:               e.clock,
		Store:               e.loc,
		Logger:              ophar.QuietLog,
		OperatorFactory:     func(sender string, n *jobpb.NodeIdentity) proto.Operator { return &fakeOp{e: e, node: n} },
		SourceRunnerFactory: func(n *jobpb.NodeIdentity) proto.SourceRunner { return &fakeSR{e: e, node: n} },
		ErrChan:             errc,
	})
	if err != nil {
		c.Fail("job-start-error", nil, "jobs.New: %v", err)
	}
	e.job = job
	e.installHooks()
	defer vhook.Set(nil)
	var ops, srs []*fnode
	for i := 0; i < workers+standbys; i++ {
		o := &fnode{id: fmt.Sprintf("op%d.%d", i, c.Index), isOp: true, alive: true}
		s := &fnode{id: fmt.Sprintf("sr%d.%d", i, c.Index), alive: true}
		e.mu.Lock() // the hooks are installed: the job of an earlier case may call in at any time
		e.nodes[o.id], e.nodes[s.id] = o, s
		e.mu.Unlock()
		ops, srs = append(ops, o), append(srs, s)
	}
	all := append(append([]*fnode{}, ops...), srs...)
	alive := func() []*fnode {
		var out []*fnode
		for _, n := range all {
			if n.alive {
				out = append(out, n)
			}
		}
		return out
	}
	tickCk := func() {
		defer func() { recover() }()
		if e.job.VerifStatus() != "Running" {
			return // the real clock's ticker is stopped outside Running (the frozen clock's Stop is a no-op)
		}
		e.clock.TickEvery("checkpointing")
	}
	ackAll := func(only func(string) bool) {
		// every live member that was asked to checkpoint the newest id acknowledges it
		e.mu.Lock()
		var id uint64
		asked := map[string]bool{}
		for _, s := range e.startCk {
			if s.id > id {
				id = s.id
				asked = map[string]bool{}
			}
			if s.id == id {
				asked[s.node] = true
			}
		}
		var members []string
		if len(e.deploys) > 0 {
			members = e.deploys[len(e.deploys)-1].members
		}
		e.mu.Unlock()
		if id == 0 {
			return
		}
		for n := range asked {
			if e.nodes[n].alive && (only == nil || only(n)) {
				err := e.job.HandleSourceRunnerCheckpointComplete(context.Background(), &jobpb.SourceRunnerCheckpointCompleteRequest{CheckpointId: id, SourceRunnerId: n, SplitStates: nil})
				e.logf("  [%s acknowledges checkpoint %d: %v]", n, id, err)
			}
		}
		for _, m := range members {
			if n := e.nodes[m]; n != nil && n.alive && (only == nil || only(m)) {
				err := e.job.HandleOperatorCheckpointComplete(context.Background(), &snapshotpb.OperatorCheckpoint{CheckpointId: id, OperatorId: m, DkvFileUri: "x", KeyGroupRange: &snapshotpb.KeyGroupRange{Start: 0, End: 1}})
				e.logf("  [%s acknowledges checkpoint %d: %v]", m, id, err)
			}
		}
	}
	releaseSlow := func() {
		e.mu.Lock()
		ch := e.slowNext
		e.slowNext, e.parked = nil, false
		e.mu.Unlock()
		if ch != nil {
			close(ch)
		}
	}
	defer func() {
		// nothing of this case's job may still be deploying when the next case installs its hooks, and the job must
		// not be left retrying a deploy to dead-but-registered nodes (its hook events would reach the next case):
		// every node dies, their heartbeats expire, and one evaluation purges the registry
		releaseSlow()
		e.sync()
		e.waitStatus(2*time.Second, "Running", "Paused", "Init")
		e.mu.Lock()
		for _, n := range e.nodes {
			n.alive = false
		}
		e.mu.Unlock()
		e.advance(10 * time.Second)
		e.job.HandleDeregisterOperator(&jobpb.NodeIdentity{Id: "nobody", Host: "x"})
		e.sync()
		e.waitStatus(2*time.Second, "Paused", "Init")
		e.sync()
	}()
	// directedLateAcks (C12's job-level rule, driven on purpose): a checkpoint is in progress, the members that are
	// about to leave have acknowledged it, they leave, replacements register, and while the job deploys the next
	// assembly (its Deploy call is slow) the members that stayed acknowledge the old checkpoint.
	fresh := 0
	directedLateAcks := func() {
		e.sync()
		e.mu.Lock()
		armed := e.slowNext != nil
		var asm []string
		if len(e.formed) > 0 {
			asm = append([]string{}, e.formed[len(e.formed)-1]...)
		}
		before := len(e.startCk)
		e.mu.Unlock()
		if armed || len(asm) < 2 || e.job.VerifStatus() != "Running" || e.job.VerifPendingSnapshot() != nil {
			return
		}
		for _, id := range asm {
			if n := e.nodes[id]; n == nil || !n.alive || !n.registered {
				return
			}
		}
		tickCk()
		e.sync()
		p := e.job.VerifPendingSnapshot()
		e.mu.Lock()
		started := len(e.startCk) > before
		e.mu.Unlock()
		if p == nil || !started {
			return
		}
		id := p.ID
		leave := lib.Shuffled(r, asm)[:1+r.Intn(len(asm)-1)] // a non-empty proper subset leaves
		leaving := map[string]bool{}
		for _, n := range leave {
			leaving[n] = true
		}
		e.logf("directed: checkpoint %d in progress; %v acknowledge it and then leave", id, leave)
		ackAll(func(n string) bool { return leaving[n] })
		e.mu.Lock()
		e.slowNext = make(chan struct{})
		e.mu.Unlock()
		for _, n := range leave {
			e.deregister(e.nodes[n])
		}
		for _, n := range leave { // replacements
			fresh++
			f := &fnode{id: fmt.Sprintf("%sy%d.%d", map[bool]string{true: "op", false: "sr"}[e.nodes[n].isOp], fresh, c.Index), isOp: e.nodes[n].isOp, alive: true}
			e.mu.Lock()
			e.nodes[f.id] = f
			e.mu.Unlock()
			all = append(all, f)
			e.register(f)
		}
		e.sync()
		for dl := time.Now().Add(2 * time.Second); time.Now().Before(dl); {
			e.mu.Lock()
			pk := e.parked
			e.mu.Unlock()
			if pk {
				break
			}
			time.Sleep(100 * time.Microsecond)
		}
		e.mu.Lock()
		pk := e.parked
		e.mu.Unlock()
		if pk && !e.published(id) {
			e.logf("directed: while the next assembly is being deployed, the members that stayed acknowledge checkpoint %d", id)
			ackAll(func(n string) bool { return !leaving[n] })
			e.mu.Lock()
			e.lateAcked = append(e.lateAcked, id)
			e.mu.Unlock()
			c.Feat("directed_late_acks", 1)
		}
		releaseSlow()
		e.sync()
		e.waitStatus(5*time.Second, "Running", "Paused", "Init")
		e.sync()
		time.Sleep(2 * time.Millisecond) // an (illegitimate) publication is asynchronous
		e.checkAbandonedNotPublished()
	}
	// the script
	nsteps := 10 + r.Intn(40)
	for step := 0; step < nsteps; step++ {
		if c12only && r.Intn(5) == 0 {
			directedLateAcks()
		}
		switch x := r.Intn(21); {
		case x == 20:
			e.mu.Lock()
			if e.slowNext == nil {
				e.slowNext = make(chan struct{})
				e.logf("the next Deploy call takes long (the member keeps loading)")
			}
			e.mu.Unlock()
		case x < 6:
			n := lib.Pick(r, all)
			if n.alive {
				e.logf("register %s", n.id)
				e.register(n)
			}
		case x < 8:
			n := lib.Pick(r, all)
			e.logf("deregister %s", n.id)
			e.deregister(n)
		case x < 10:
			n := lib.Pick(r, all)
			if n.alive && len(alive()) > 0 {
				e.logf("kill %s (stops answering and heartbeating)", n.id)
				e.mu.Lock()
				n.alive = false
				e.mu.Unlock()
			}
		case x < 13:
			e.logf("3s pass, live nodes heartbeat")
			e.advance(3 * time.Second)
			for _, n := range alive() {
				if n.registered {
					e.register(n)
				}
			}
		case x < 14:
			e.logf("6s pass without heartbeats, then one live node re-registers")
			e.advance(6 * time.Second)
			if a := alive(); len(a) > 0 {
				e.register(lib.Pick(r, a))
			}
		case x < 16:
			if !c12only && r.Intn(3) == 0 {
				// the in-flight checkpoint of a later failure is sometimes a savepoint a user asked for
				func() {
					defer func() { recover() }()
					if e.job.VerifStatus() != "Running" {
						return
					}
					id, err := e.job.HandleCreateSavepoint(context.Background())
					e.logf("a savepoint is requested -> id %d, %v", id, err)
					c.Feat("savepoints_requested", 1)
				}()
				break
			}
			e.logf("checkpoint tick")
			tickCk()
		case x < 18:
			e.logf("every live member acknowledges")
			ackAll(nil)
			e.markDone()
		case x < 19:
			e.logf("half of the members acknowledge")
			ackAll(func(id string) bool { return lib.HashParts(id, step)[0] < '8' })
			e.markDone()
		default:
			n := lib.Pick(r, all)
			e.logf("next deploy to %s fails", n.id)
			e.mu.Lock()
			n.failDeploy = true
			e.mu.Unlock()
		}
		e.sync()
		// a deployment is in progress and one member is still loading: membership changes while the job is Starting
		// (the deployment runs in its own goroutine: while the job is Starting, wait for the armed Deploy to park)
		for dl := time.Now().Add(5 * time.Second); e.job.VerifStatus() == "Starting" && time.Now().Before(dl); {
			e.mu.Lock()
			p, armed := e.parked, e.slowNext != nil
			e.mu.Unlock()
			if p || !armed {
				break
			}
			time.Sleep(100 * time.Microsecond)
		}
		e.mu.Lock()
		inDeploy := e.parked
		var forming []string
		if len(e.formed) > 0 {
			forming = e.formed[len(e.formed)-1]
		}
		e.mu.Unlock()
		if inDeploy {
			c.Feat("membership_changes_during_deployment", 1)
			for k := 1 + r.Intn(2); k > 0; k-- {
				switch r.Intn(5) {
				case 4:
					// members of the PREVIOUS assembly that are still alive acknowledge the checkpoint that was in
					// progress when it failed: the job has abandoned that checkpoint (it deploys a new assembly)
					e.mu.Lock()
					var id uint64
					gen := 0
					for _, s := range e.startCk {
						if s.id > id {
							id, gen = s.id, s.gen
						}
					}
					cur := len(e.formed)
					e.mu.Unlock()
					e.mu.Lock()
					wasDone := e.doneCk[id]
					e.mu.Unlock()
					// only a checkpoint that was still in progress when its assembly failed: one that all members had
					// acknowledged before is complete and its (asynchronous) publication may legitimately still arrive
					if id != 0 && gen < cur && !wasDone && !e.published(id) {
						e.logf("during the deployment: live members of the previous assembly acknowledge its checkpoint %d", id)
						ackAll(nil)
						e.mu.Lock()
						e.lateAcked = append(e.lateAcked, id)
						e.mu.Unlock()
						c.Feat("late_acks_during_deployment", 1)
					}
				case 0, 1:
					n := e.nodes[lib.Pick(r, forming)]
					e.logf("during the deployment: deregister member %s", n.id)
					e.deregister(n)
				case 2:
					n := lib.Pick(r, all)
					if n.alive {
						e.logf("during the deployment: register %s", n.id)
						e.register(n)
					}
				default:
					e.logf("during the deployment: 3s pass, live nodes heartbeat")
					e.advance(3 * time.Second)
					for _, n := range alive() {
						if n.registered {
							e.register(n)
						}
					}
				}
				e.sync()
			}
			e.logf("the slow Deploy call returns")
			releaseSlow()
			e.sync()
		}
		// deployments run asynchronously: let the job settle before time moves on, so that "live at the moment
		// of the Deploy call" is decidable
		if !e.waitStatus(5*time.Second, "Running", "Paused", "Init") {
			c.Inconclusive("the job stayed in status %s", e.job.VerifStatus())
		}
		if !c12only {
			e.checkDeploys()
			e.checkRunningOnMembers()
		}
		e.checkAbandonedNotPublished()
	}
	releaseSlow()
	// faults stop: revive nothing, but make sure enough fresh nodes exist and everybody heartbeats
	e.logf("faults stop: fresh nodes register until %d of each kind are live", workers)
	liveOps, liveSRs := 0, 0
	for _, n := range all {
		if n.alive {
			if n.isOp {
				liveOps++
			} else {
				liveSRs++
			}
		}
	}
	for i := 0; liveOps < workers || liveSRs < workers; i++ {
		if liveOps < workers {
			o := &fnode{id: fmt.Sprintf("opx%d.%d", i, c.Index), isOp: true, alive: true}
			e.mu.Lock()
			e.nodes[o.id] = o
			e.mu.Unlock()
			all = append(all, o)
			liveOps++
		}
		if liveSRs < workers {
			s := &fnode{id: fmt.Sprintf("srx%d.%d", i, c.Index), alive: true}
			e.mu.Lock()
			e.nodes[s.id] = s
			e.mu.Unlock()
			all = append(all, s)
			liveSRs++
		}
	}
	progressed := false
	before := len(e.loc.Log())
	for k := 0; k < 20 && !progressed; k++ {
		e.advance(6 * time.Second) // dead members expire
		for _, n := range alive() {
			e.register(n)
		}
		e.sync()
		e.waitStatus(2*time.Second, "Running", "Paused")
		tickCk()
		e.sync()
		ackAll(nil)
		e.sync()
		deadline := time.Now().Add(300 * time.Millisecond)
		for time.Now().Before(deadline) {
			for _, op := range e.loc.Log()[before:] {
				if op.Op == "write" && strings.HasSuffix(op.Path, ".snapshot") {
					progressed = true
				}
			}
			if progressed {
				break
			}
			time.Sleep(200 * time.Microsecond)
		}
		if !c12only {
			e.checkDeploys()
		}
		e.checkAbandonedNotPublished()
	}
	c.Feat("scripts", 1)
	c.Feat("deploy_calls", int64(e.nDeploys))
	c.Feat("assemblies_formed", int64(len(e.formed)))
	if !progressed && !c12only {
		if pend := e.job.VerifPendingSnapshot(); pend != nil {
			var gone []string
			for _, id := range pend.WaitingFor {
				if n := e.nodes[id]; n == nil || !n.alive {
					gone = append(gone, id)
				}
			}
			if len(gone) > 0 {
				c.Fail("checkpointing-stuck", e.wit(), "faults stopped, %d live nodes of each kind registered and heartbeating, 20 rounds of (heartbeat, checkpoint tick, acknowledgements of all live members) were driven and no checkpoint was published: the pending checkpoint %d waits for %v which are gone", workers, pend.ID, gone)
			}
		}
		c.Fail("no-progress-after-faults", e.wit(), "faults stopped, %d live nodes of each kind registered and heartbeating, 20 rounds of (heartbeat, checkpoint tick, acknowledgements of all live members) were driven and no checkpoint was published (job status %s)", workers, e.job.VerifStatus())
	}
	c.Feat("recovered_and_checkpointed", 1)
	c.SetSig(e.nDeploys > 0, workers, standbys, e.log)
	if c.Index < 3 {
		c.Sample(map[string]any{"workers": workers, "standbys": standbys, "script": e.log})
	}
}

// markDone: after an acknowledgement step of the script, every checkpoint the runners were asked for and that
// is not the job's pending one any more is complete (or was discarded).
func (e *fakeEnv) markDone() {
	p := e.job.VerifPendingSnapshot()
	e.mu.Lock()
	defer e.mu.Unlock()
	if e.doneCk == nil {
		e.doneCk = map[uint64]bool{}
	}
	for _, s := range e.startCk {
		if p == nil || p.ID != s.id {
			e.doneCk[s.id] = true
		}
	}
}

// published reports whether a job snapshot with that id has been written (file name: job-<base64url of the
// big-endian complement of the id>.snapshot, storage/snapshots pathSegment).
func (e *fakeEnv) published(id uint64) bool {
	buf := make([]byte, 8)
	binary.BigEndian.PutUint64(buf, math.MaxUint64-id)
	name := "job-" + base64.RawURLEncoding.EncodeToString(buf) + ".snapshot"
	for _, op := range e.loc.Log() {
		if op.Op == "write" && filepath.Base(op.Path) == name {
			return true
		}
	}
	return false
}

// checkAbandonedNotPublished (C12 at job level): a checkpoint that was in progress when its assembly failed is
// never completed by acknowledgements that arrive while the job is already deploying the next assembly.
func (e *fakeEnv) checkAbandonedNotPublished() {
	e.mu.Lock()
	late := append([]uint64{}, e.lateAcked...)
	e.mu.Unlock()
	if len(late) == 0 {
		return
	}
	for _, op := range e.loc.Log() {
		if op.Op != "write" || !strings.HasSuffix(op.Path, ".snapshot") {
			continue
		}
		b, err := e.loc.Read(op.Path)
		if err != nil {
			continue
		}
		var jc snapshotpb.JobCheckpoint
		if gproto.Unmarshal(b, &jc) != nil {
			continue
		}
		for _, id := range late {
			if jc.Id == id {
				e.c.Fail("abandoned-checkpoint-published", e.wit(), "checkpoint %d was in progress when its assembly failed; acknowledgements of surviving members that arrived while the job was deploying the next assembly completed it and it was published (%s)", id, op.Path)
			}
		}
	}
}

// checkRunningOnMembers (safety): "when a member deregisters the job stops using that assembly" — once the job
// has processed a deregistration (deregister() pushes two more tasks through the serial queue before it counts)
// and has settled, it is not Running on an assembly that contains the departed member.
func (e *fakeEnv) checkRunningOnMembers() {
	e.sync()
	if e.job.VerifStatus() != "Running" {
		return
	}
	e.mu.Lock()
	var last []string
	gone := ""
	if len(e.formed) > 0 {
		last = e.formed[len(e.formed)-1]
		for _, id := range last {
			if n := e.nodes[id]; n != nil && !n.registered && gone == "" {
				gone = id
			}
		}
	}
	w := map[string]any{"workers": e.workers, "script": append([]string{}, e.log...), "assembly": last, "job_status": "Running"}
	e.mu.Unlock()
	if gone != "" {
		e.c.Fail("running-on-departed-member", w, "the job is Running on assembly %v although %s has deregistered and the job has processed that call", last, gone)
	}
	e.c.Feat("running_assembly_membership_checks", 1)
}

// checkDeploys (safety): every Deploy went to a node the job may consider registered and live, names exactly
// WorkerCount operators, and all operator deploys of one round name the same, latest completed checkpoint.
func (e *fakeEnv) checkDeploys() {
	e.mu.Lock()
	ds := append([]fDeploy{}, e.deploys...)
	e.mu.Unlock()
	e.mu.Lock()
	ill := append([]string{}, e.illegal...)
	e.mu.Unlock()
	if len(ill) > 0 {
		e.c.Fail("assembly-with-non-member", e.wit(), "%s", ill[0])
	}
	for _, d := range ds {
		if d.legal != "" {
			e.c.Fail("deploy-to-non-member", e.wit(), "the job sent Deploy to %s although %s", d.node, d.legal)
		}
		if len(d.members) != e.workers {
			e.c.Fail("deploy-wrong-assembly-size", e.wit(), "Deploy to %s names %d operators, the job is configured for %d workers", d.node, len(d.members), e.workers)
		}
		ms := append([]string{}, d.members...)
		sort.Strings(ms)
		for i := 1; i < len(ms); i++ {
			if ms[i] == ms[i-1] {
				e.c.Fail("deploy-duplicate-member", e.wit(), "Deploy to %s names operator %s twice", d.node, ms[i])
			}
		}
	}
}
