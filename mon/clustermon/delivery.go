package main

import (
	"fmt"
	"log/slog"
	"sync"
	"time"

	"reduction.dev/reduction/partitioning"
	"verif/cluster"
	"verif/lib"
	"verif/ophar"
)

// streamOracles checks the recorded per-operator input streams (adapter boundary, recorded before HandleEvent):
//
//	C04  per sender and operator: records arrive in read order; no watermark overtakes a record read before it
//	C11  per sender and operator: watermarks never decrease; follow the forwarded timestamps closely (lower bound);
//	     never reach the largest timestamp keyed so far (upper bound, via the KeyEventBatch log)
//	C16  barrier cut: records of split i before runner r's barrier N are exactly those with offset < the position r reported for N
func (x *run) streamOracles(which string) {
	stream := x.cl.Stream()
	type sk struct{ op, sender string }
	by := map[sk][]cluster.StreamEv{}
	for _, e := range stream {
		k := sk{e.Operator, e.Sender}
		by[k] = append(by[k], e)
	}
	srPos := map[string]map[uint64]map[int]int{} // runner -> checkpoint -> split -> position
	for _, a := range x.cl.SRAcks() {
		if srPos[a.Runner] == nil {
			srPos[a.Runner] = map[uint64]map[int]int{}
		}
		srPos[a.Runner][a.ID] = a.Pos
	}
	keyed := x.cl.KeyedLog()
	nW, nB, nK := 0, 0, 0
	for k, evs := range by {
		lastIdx := map[int]int{} // reader incarnation -> last read index seen
		maxTs := int64(-1 << 62)
		lastW := int64(-1 << 62)
		var barriers []int // indexes of barriers in evs
		for i, e := range evs {
			switch e.Kind {
			case 'K':
				nK++
				if which == "C04" || which == "all" {
					if li, ok := lastIdx[e.Rec.Reader]; ok && e.Rec.ReadIdx < li {
						x.c.Fail("records-reordered-in-transit", x.wit("stream", fmtStream(evs, i)), "operator %s received from %s record %d/%d (read #%d) after a record read later (#%d) by the same reader", k.op, k.sender, e.Rec.Split, e.Rec.Off, e.Rec.ReadIdx, li)
					}
					lastIdx[e.Rec.Reader] = e.Rec.ReadIdx
				}
				if e.Ts > maxTs {
					maxTs = e.Ts
				}
			case 'W':
				nW++
				if which == "C11" || which == "all" {
					if e.Ts < lastW {
						x.c.Fail("watermark-decreased", x.wit("stream", fmtStream(evs, i)), "operator %s received from %s watermark %d after watermark %d", k.op, k.sender, e.Ts, lastW)
					}
					// lower bound: it follows the timestamps already forwarded in this very stream
					if maxTs > -1<<61 && e.Ts < maxTs-1 {
						x.c.Fail("watermark-lags", x.wit("stream", fmtStream(evs, i)), "operator %s received from %s watermark %d although a record with timestamp %d was delivered before it in the same stream (expected >= %d)", k.op, k.sender, e.Ts, maxTs, maxTs-1)
					}
					// upper bound: strictly below the largest timestamp this runner had keyed when the watermark was delivered
					mk := int64(-1 << 62)
					for _, kl := range keyed {
						if kl.Runner == k.sender && kl.Tick < e.Tick && kl.MaxTs > mk {
							mk = kl.MaxTs
						}
					}
					if e.Ts > -1<<61 && e.Ts >= mk {
						x.c.Fail("watermark-reaches-event-time", x.wit("stream", fmtStream(evs, i)), "operator %s received from %s watermark %d, the largest timestamp that runner had keyed until then is %d", k.op, k.sender, e.Ts, mk)
					}
					if x.o.workers == 1 && x.o.tsMode == "increasing" && maxTs > -1<<61 && e.Ts > maxTs-1 && (which == "C11") {
						// one runner, one operator, increasing timestamps: everything keyed before is also delivered before → equality
						// (only when no later record can have been forwarded: checked through the upper bound above)
					}
				}
				if which == "C04" || which == "all" {
					// no watermark overtakes a record read before it: with per-reader increasing timestamps a later K with ts <= w+1 was read before the watermark was stamped
					if x.o.tsMode == "increasing" {
						for _, l := range evs[i+1:] {
							if l.Kind == 'K' && l.Ts <= e.Ts+1 && l.Rec.Reader == readerOfLast(evs[:i]) {
								x.c.Fail("watermark-overtook-record", x.wit("stream", fmtStream(evs, i)), "operator %s received from %s watermark %d before record %d/%d with timestamp %d that the runner had forwarded before stamping it", k.op, k.sender, e.Ts, l.Rec.Split, l.Rec.Off, l.Ts)
							}
						}
					}
				}
				lastW = e.Ts
			case 'B':
				nB++
				barriers = append(barriers, i)
			}
		}
		if which == "C16" || which == "C04" || which == "all" {
			for _, bi := range barriers {
				id := evs[bi].Barrier
				pos, ok := srPos[k.sender][id]
				if !ok {
					x.c.Fail("barrier-without-positions", x.wit(), "operator %s received barrier %d from %s, which never reported split positions for it", k.op, id, k.sender)
				}
				// the reader incarnation that produced this barrier: the one whose records surround it
				for j, e := range evs {
					if e.Kind != 'K' {
						continue
					}
					p, has := pos[e.Rec.Split]
					if !has {
						continue // split of another incarnation of this runner
					}
					if !sameEpoch(evs, j, bi) {
						continue
					}
					if j < bi && e.Rec.Off >= p {
						x.c.Fail("record-after-position-before-barrier", x.wit("stream", fmtStream(evs, bi)), "operator %s received record %d/%d from %s BEFORE its barrier %d, but the runner reported position %d for that split: after a restore the record is read again (its effect would be applied twice)", k.op, e.Rec.Split, e.Rec.Off, k.sender, id, p)
					}
					if j > bi && e.Rec.Off < p {
						x.c.Fail("record-before-position-after-barrier", x.wit("stream", fmtStream(evs, bi)), "operator %s received record %d/%d from %s AFTER its barrier %d, but the runner reported position %d for that split: after a restore the record is skipped (its effect is lost)", k.op, e.Rec.Split, e.Rec.Off, k.sender, id, p)
					}
				}
			}
		}
	}
	if which == "C11" || which == "all" {
		// Across the operators of one runner: a watermark is stamped in the runner's send loop and broadcast; the
		// records the runner had forwarded by then precede it in the stream of the operator they were routed to.
		// The k-th watermark of a runner must therefore stay strictly below the largest timestamp among the
		// records that precede the k-th watermark in ANY of its operator streams (it may not run ahead of what was
		// forwarded, e.g. on the strength of records that are keyed but still queued).
		bySender := map[string][][]cluster.StreamEv{}
		for k, evs := range by {
			bySender[k.sender] = append(bySender[k.sender], evs)
		}
		for sender, streams := range bySender {
			var wms [][]int // per stream: indexes of its watermarks
			same := true
			for _, evs := range streams {
				var idx []int
				for i, e := range evs {
					if e.Kind == 'W' {
						idx = append(idx, i)
					}
				}
				wms = append(wms, idx)
				same = same && len(idx) == len(wms[0])
			}
			if !same || len(wms) == 0 {
				x.c.Feat("runners_with_unequal_watermark_streams_skipped", 1)
				continue
			}
			for kth := range wms[0] {
				w := streams[0][wms[0][kth]].Ts
				fwd := int64(-1 << 62)
				equal := true
				for si, evs := range streams {
					equal = equal && evs[wms[si][kth]].Ts == w
					for _, e := range evs[:wms[si][kth]] {
						if e.Kind == 'K' && e.Ts > fwd {
							fwd = e.Ts
						}
					}
				}
				if !equal || fwd <= -1<<61 || w <= -1<<61 {
					continue
				}
				if w >= fwd {
					x.c.Fail("watermark-ahead-of-forwarded-records", x.wit("stream", fmtStream(streams[0], wms[0][kth])), "runner %s announced watermark %d as its watermark #%d, but the largest timestamp among the records it had forwarded to any operator before that watermark is %d (a watermark stays below the event times forwarded so far)", sender, w, kth+1, fwd)
				}
				x.c.Feat("watermarks_checked_against_forwarded_records", 1)
			}
		}
	}
	x.c.Feat("stream_keyed_events", int64(nK))
	x.c.Feat("stream_watermarks", int64(nW))
	x.c.Feat("stream_barriers", int64(nB))
}

// sameEpoch: both stream positions belong to the same reader incarnation run (no reader change in between).
func sameEpoch(evs []cluster.StreamEv, a, b int) bool {
	lo, hi := min(a, b), max(a, b)
	rd := -1
	for _, e := range evs[lo : hi+1] {
		if e.Kind == 'K' {
			if rd >= 0 && e.Rec.Reader != rd {
				return false
			}
			rd = e.Rec.Reader
		}
	}
	return true
}

func readerOfLast(evs []cluster.StreamEv) int {
	for i := len(evs) - 1; i >= 0; i-- {
		if evs[i].Kind == 'K' {
			return evs[i].Rec.Reader
		}
	}
	return -1
}

func fmtStream(evs []cluster.StreamEv, around int) []string {
	var out []string
	for i := max(0, around-12); i < min(len(evs), around+12); i++ {
		e := evs[i]
		mark := "  "
		if i == around {
			mark = "=>"
		}
		switch e.Kind {
		case 'K':
			out = append(out, fmt.Sprintf("%s K %d/%d read#%d ts=%d key=%q", mark, e.Rec.Split, e.Rec.Off, e.Rec.ReadIdx, e.Ts, e.Key))
		case 'W':
			out = append(out, fmt.Sprintf("%s W %d", mark, e.Ts))
		case 'B':
			out = append(out, fmt.Sprintf("%s B %d", mark, e.Barrier))
		default:
			out = append(out, fmt.Sprintf("%s %c", mark, e.Kind))
		}
	}
	return out
}

// ownerOracle: every keyed event reached the handler of the operator owning its key, exactly once (C04/C05).
func (x *run) ownerOracle() {
	applied := map[string]int{}
	for _, w := range x.cl.Workers() {
		rng, ok := x.cl.RangeOf(w)
		for _, call := range w.H.Calls(0) {
			for _, ev := range call.Events {
				if ev.Kind != 'K' {
					continue
				}
				applied[ev.ID]++
				kg := partitioning.KeyGroup(ophar.KeyGroupOf(ev.Key, x.o.keyGroups))
				if !ok || !rng.IncludesKeyGroup(kg) {
					x.c.Fail("delivered-to-non-owner", x.wit(), "keyed event %s (key %q, key group %d) was handed to the handler of %s which owns %v", ev.ID, ev.Key, kg, w.OpID, rng)
				}
			}
		}
	}
	for id, n := range applied {
		if n != 1 {
			x.c.Fail("delivered-more-than-once", x.wit(), "keyed event %s reached a handler %d times in a run without failures", id, n)
		}
	}
	for id := range x.expectedIDs(x.o.perSplit) {
		if applied[id] == 0 {
			x.c.Fail("never-delivered", x.wit(), "keyed event %s never reached a handler (drain checkpoint was published)", id)
		}
	}
	x.c.Feat("keyed_events_delivered", int64(len(applied)))
}

func c04Delivery(c *lib.Ctx) {
	o := pickOpts(c.R)
	x := newRun(c, o)
	defer x.close()
	c.OnPanic = func() any { return x.wit() }
	x.start(0)
	// periodic checkpoints as noise while records flow
	noise := c.R.Intn(3)
	for i := 0; i < noise; i++ {
		time.Sleep(time.Duration(c.R.Intn(3000)) * time.Microsecond)
		if x.checkpoint(5*time.Second) == nil {
			break
		}
	}
	x.waitCaughtUp()
	if x.checkpoint(cluster.Watchdog) == nil {
		x.c.Inconclusive("the drain checkpoint was not published within the watchdog (job errors %v)", x.cl.JobErrors())
	}
	x.checkHandlers()
	x.ownerOracle()
	x.checkFinalState(x.o.perSplit)
	x.streamOracles("all")
	c.Feat(fmt.Sprintf("workers_%d", o.workers), 1)
	c.SetSig(true, fmt.Sprintf("%+v", o), x.keys)
	if c.Index < 3 {
		c.Sample(map[string]any{"options": fmt.Sprintf("%+v", o), "keyed_events": len(x.expectedIDs(o.perSplit)), "log": x.log})
	}
}

// c16Cut: checkpoints at seeded logical moments (mid read chunk, with key-by batches pending, back to back).
func c16Cut(c *lib.Ctx) {
	o := pickOpts(c.R)
	o.perSplit = 40 + c.R.Intn(80)
	x := newRun(c, o)
	defer x.close()
	c.OnPanic = func() any { return x.wit() }
	// gate reading so that checkpoints fall at chosen positions
	stops := []int{}
	for p := 3 + c.R.Intn(10); p < o.perSplit; p += 3 + c.R.Intn(25) {
		stops = append(stops, p)
	}
	x.src.SetLimit(0)
	x.start(0)
	cks := 0
	for _, p := range stops {
		x.src.SetLimit(p)
		switch c.R.Intn(3) {
		case 0:
			x.waitCaughtUp() // idle pipeline at the cut
		case 1:
			time.Sleep(time.Duration(c.R.Intn(400)) * time.Microsecond) // mid flow
		}
		if x.checkpoint(10*time.Second) != nil {
			cks++
		}
		if c.R.Intn(4) == 0 { // back to back
			if x.checkpoint(10*time.Second) != nil {
				cks++
			}
		}
	}
	x.src.SetLimit(o.perSplit)
	x.waitCaughtUp()
	if x.checkpoint(cluster.Watchdog) == nil {
		x.c.Inconclusive("the drain checkpoint was not published within the watchdog (job errors %v)", x.cl.JobErrors())
	}
	x.checkHandlers()
	x.checkFinalState(o.perSplit)
	x.streamOracles("C16")
	x.assignmentOracle()
	c.Feat("checkpoints_published", int64(cks+1))
	c.SetSig(cks > 0, fmt.Sprintf("%+v", o), stops)
	if c.Index < 3 {
		c.Sample(map[string]any{"options": fmt.Sprintf("%+v", o), "checkpoint_positions": stops, "log": x.log})
	}
}

// c16Bulk: reads that return hundreds to thousands of records at once (Kinesis GetRecords returns up to 10000).
// The reader's cursor is past the whole read as soon as ReadEvents returns, so a checkpoint requested while the
// runner is still emitting such a read must wait for all of it.
func c16Bulk(c *lib.Ctx) {
	o := pickOpts(c.R)
	o.workers = 1 + c.R.Intn(2)
	o.splits = 1 + c.R.Intn(2)
	o.perSplit = 1500 + c.R.Intn(2500)
	o.keyGroups = lib.Pick(c.R, []int{7, 256})
	o.maxSize = lib.Pick(c.R, []int{8, 32})
	o.timers, o.bulk = false, true
	x := newRun(c, o)
	defer x.close()
	c.OnPanic = func() any { return x.wit() }
	x.src.SetLimit(0)
	x.start(0)
	x.src.SetLimit(o.perSplit)
	cks := 0
	// checkpoints are requested while records are flowing: whenever the operators' streams have grown by a seeded amount
	next := 50 + c.R.Intn(400)
	deadline := time.Now().Add(cluster.Watchdog)
	for !x.src.CaughtUp(func(r *cluster.VReader) bool { return x.cl.ReaderLive(r) }) && time.Now().Before(deadline) {
		if len(x.cl.Stream()) >= next {
			if x.checkpoint(10*time.Second) != nil {
				cks++
			}
			next = len(x.cl.Stream()) + 100 + c.R.Intn(900)
		} else {
			time.Sleep(50 * time.Microsecond)
		}
	}
	x.waitCaughtUp()
	if x.checkpoint(cluster.Watchdog) == nil {
		x.c.Inconclusive("the drain checkpoint was not published within the watchdog (job errors %v)", x.cl.JobErrors())
	}
	x.checkHandlers()
	x.checkFinalState(o.perSplit)
	x.streamOracles("C16")
	c.Feat("checkpoints_published_during_bulk_reads", int64(cks))
	big := 0
	for _, n := range x.src.ReadSizes() {
		if n > 512 {
			big++
		}
	}
	c.Feat("reads_of_more_than_512_records", int64(big))
	c.SetSig(cks > 0 && big > 0, fmt.Sprintf("%+v", o), cks)
	if c.Index < 2 {
		c.Sample(map[string]any{"options": fmt.Sprintf("%+v", o), "checkpoints_during_flow": cks, "reads_over_512": big})
	}
}

// c13RetentionOrder: retention notices reach every operator in the order in which the store issued them, also
// when an operator is slow to take one (C13 "never names an older one as the only one to keep", at the
// operators, where it matters: an operator drops every checkpoint older than the named ones).
func c13RetentionOrder(c *lib.Ctx) {
	o := pickOpts(c.R)
	if o.keyGroups == 65535 {
		o.keyGroups = 256
	}
	o.workers = 1 + c.R.Intn(3)
	o.perSplit = 30 + c.R.Intn(40)
	if c.R.Intn(2) == 0 {
		// a slow log sink for the job's snapshot store (it logs through the default logger): a seeded fraction of its
		// log calls yields or sleeps for a moment, so the goroutines that publish consecutive checkpoints and
		// announce them can overtake each other at every log call
		lag := lib.NewLagLogHandler(c.R.Int63(), lib.Pick(c.R, []int{30, 60}))
		lag.LongP = 12 // now and then the sink stalls for longer than a checkpoint takes
		slog.SetDefault(slog.New(lag))
		defer func() {
			slog.SetDefault(ophar.QuietLog)
			c.Feat("store_log_calls_delayed", lag.Lags.Load())
		}()
	}
	x := newRun(c, o)
	defer x.close()
	c.OnPanic = func() any { return x.wit() }
	x.src.SetLimit(0)
	x.start(0)
	pos := 0
	step := func() {
		pos = min(o.perSplit, pos+2+c.R.Intn(8))
		x.src.SetLimit(pos)
		if c.R.Intn(2) == 0 {
			x.waitCaughtUp()
		}
	}
	step()
	if x.checkpoint(10*time.Second) == nil {
		c.Inconclusive("no first checkpoint (job errors %v)", x.cl.JobErrors())
	}
	episodes := 1 + c.R.Intn(3)
	for ep := 0; ep < episodes; ep++ {
		// the next retention update is slow at one operator (it is held before it is applied) while 1..3 further
		// checkpoints complete and are published
		release := make(chan struct{})
		held := make(chan struct{})
		var once sync.Once
		x.cl.Lock()
		x.cl.HoldRetain = func(node string, ids []uint64) {
			first := false
			once.Do(func() { first = true })
			if first {
				close(held)
				<-release
			}
		}
		x.cl.Unlock()
		step()
		x.checkpoint(10 * time.Second)
		select {
		case <-held:
			c.Feat("retention_updates_held_at_an_operator", 1)
			for k := 1 + c.R.Intn(3); k > 0; k-- {
				step()
				if x.checkpoint(5*time.Second) != nil {
					c.Feat("checkpoints_published_while_a_retention_update_was_held", 1)
				}
			}
		case <-time.After(2 * time.Second):
		}
		close(release)
		x.cl.Lock()
		x.cl.HoldRetain = nil
		x.cl.Unlock()
		// let the queued notices arrive
		for last, stable := -1, 0; stable < 5; {
			n := len(x.cl.RetainLog())
			if n == last {
				stable++
			} else {
				last, stable = n, 0
			}
			time.Sleep(1 * time.Millisecond)
		}
	}
	x.src.SetLimit(o.perSplit)
	x.waitCaughtUp()
	x.checkpoint(10 * time.Second)
	time.Sleep(3 * time.Millisecond)
	newest := map[string]uint64{}
	n := 0
	for _, rec := range x.cl.RetainLog() {
		var m uint64
		for _, id := range rec.IDs {
			m = max(m, id)
		}
		if m < newest[rec.Node] {
			c.Fail("retention-notice-went-backwards", x.wit("retention_updates_applied", fmt.Sprint(x.cl.RetainLog())), "operator %s applied the retention update %v after it had already applied one that named checkpoint %d: it drops every checkpoint older than the named ones, here the newest completed one", rec.Node, rec.IDs, newest[rec.Node])
		}
		newest[rec.Node] = m
		n++
	}
	x.checkHandlers()
	c.Feat("retention_updates_applied", int64(n))
	c.SetSig(n > 1, fmt.Sprintf("%+v", o), episodes)
}

// assignmentOracle: every split assigned to exactly one runner per splitter incarnation, resumed from the checkpointed position.
func (x *run) assignmentOracle() {
	bySplitter := map[int]map[string][]cluster.Assignment{}
	for _, a := range x.src.Assignments() {
		if bySplitter[a.Splitter] == nil {
			bySplitter[a.Splitter] = map[string][]cluster.Assignment{}
		}
		bySplitter[a.Splitter][a.SplitID] = append(bySplitter[a.Splitter][a.SplitID], a)
	}
	for gen, m := range bySplitter {
		for s := 0; s < x.o.splits; s++ {
			as := m[fmt.Sprint(s)]
			if len(as) != 1 {
				x.c.Fail("split-not-assigned-once", x.wit(), "splitter incarnation %d assigned split %d %d times", gen, s, len(as))
			}
		}
	}
}

// c11Runner: the runner side of C11 on timestamp sequences of every shape.
func c11Runner(c *lib.Ctx) {
	o := pickOpts(c.R)
	o.tsMode = lib.Pick(c.R, []string{"increasing", "reversed", "random", "constant", "extreme"})
	if c.Index%3 == 0 {
		o.workers = 1 // one runner, one operator: the watermark can be predicted exactly
		o.tsMode = "increasing"
	}
	x := newRun(c, o)
	defer x.close()
	c.OnPanic = func() any { return x.wit() }
	late := 0
	if o.splits >= 2 && c.R.Intn(3) == 0 {
		// a second assignment round: the last splits are handed to their runners only after the runners have
		// forwarded records of the first ones (shards discovered later)
		late = 1 + c.R.Intn(o.splits-1)
		x.src.Late = late
	}
	x.start(0)
	x.waitCaughtUp()
	if late > 0 {
		time.Sleep(2 * time.Duration(x.tun.WatermarkIntervalNanos))
		if x.src.ReleaseLate() {
			x.logf("second assignment round: %d more splits", late)
			c.Feat("second_assignment_rounds", 1)
		}
		x.waitCaughtUp()
	}
	time.Sleep(3 * time.Duration(x.tun.WatermarkIntervalNanos)) // a few more watermark ticks after the last record
	if x.checkpoint(cluster.Watchdog) == nil {
		x.c.Inconclusive("the drain checkpoint was not published within the watchdog (job errors %v)", x.cl.JobErrors())
	}
	x.checkHandlers()
	x.streamOracles("C11")
	c.Feat("ts_mode_"+o.tsMode, 1)
	c.SetSig(true, fmt.Sprintf("%+v", o))
	if c.Index < 3 {
		c.Sample(map[string]any{"options": fmt.Sprintf("%+v", o), "log": x.log})
	}
}
