package main

import (
	"fmt"
	"path/filepath"
	"runtime"
	"sort"
	"sync"
	"sync/atomic"
	"time"

	"verif/cluster"
	"verif/lib"
	"verif/ophar"
)

// C01 / C15: failures. Crash points are logical predicates on recorded events (DESIGN §6 C01).

type epochs struct {
	mu      sync.Mutex
	rounds  map[string]bool
	history []string
	last    uint64
	restore []uint64 // checkpoint id every deploy round restored from (0 = none)
}

// installEpochSwitch: when the job deploys a new assembly the shadow of every key is reset to the cut of
// the checkpoint named in the Deploy requests (M4). All members of one round must name the same checkpoint.
func (x *run) installEpochSwitch() *epochs {
	ep := &epochs{rounds: map[string]bool{}}
	x.ep = ep
	x.cl.OnOperatorDeploy = func(rec cluster.DeployRec) {
		ms := append([]string{}, rec.Members...)
		sort.Strings(ms)
		var id uint64
		for i, c := range rec.Ckpts {
			if i > 0 && c != id {
				ep.mu.Lock()
				ep.history = append(ep.history, fmt.Sprintf("MIXED checkpoints in one deploy request: %v", rec.Ckpts))
				ep.mu.Unlock()
			}
			id = c
		}
		key := fmt.Sprintf("round %d: %v from checkpoint %d", rec.Round, ms, id)
		ep.mu.Lock()
		defer ep.mu.Unlock()
		if ep.rounds[key] {
			return
		}
		ep.rounds[key] = true
		ep.restore = append(ep.restore, id)
		ep.last = id
		ep.history = append(ep.history, fmt.Sprintf("deploy round %s", key))
		x.cl.Lock()
		cut := x.cuts[id]
		x.cl.Unlock()
		if id == 0 {
			cut = map[string]ophar.KeyShadow{}
		}
		x.cl.Store.Reset(cut)
	}
	return ep
}

// waitApplied waits until every keyed event of the input (up to limit) is in the shadow state.
func (x *run) waitApplied(limit int, d time.Duration) bool {
	want := x.expectedIDs(limit)
	deadline := time.Now().Add(d)
	for time.Now().Before(deadline) {
		n := 0
		for _, ks := range x.cl.Store.Snapshot() {
			n += len(ks["seen"])
		}
		if n >= len(want) {
			return true
		}
		time.Sleep(300 * time.Microsecond)
	}
	return false
}

// appliedOrDrained: has every keyed event of the input up to limit taken effect? When that has not happened within
// the watchdog the verdict is not taken from the clock: one more checkpoint is driven. Its barriers travel behind
// every record that was read, so once it is published every record has reached a handler — or is lost for good
// (decided). If that checkpoint does not complete either, nothing is decided.
func (x *run) appliedOrDrained(limit int) (ok, decided bool) {
	if x.waitApplied(limit, cluster.Watchdog) {
		return true, true
	}
	if x.checkpoint(3*cluster.Watchdog) == nil {
		return false, false
	}
	return x.waitApplied(limit, 2*time.Second), true
}

func (x *run) replaceAll() { x.replaceAllWith(nil) }

// replaceAllWith kills every worker, runs between (e.g. a job restart) and starts as many fresh workers.
func (x *run) replaceAllWith(between func()) {
	old := x.cl.NotKilled()
	for _, w := range old {
		x.logf("kill %s", w.Name)
		x.cl.Kill(w)
	}
	lib.GCSettle()
	if between != nil {
		between()
	}
	if lib.Known("in-place-redeploy") {
		// Known finding (DESIGN §12.5): a replacement that registers while a dead member has not yet expired
		// joins an assembly with the dead member, that deploy fails half-way and the retry deploys the
		// replacement a second time in place, which tears nothing down. Until that is repaired the explored
		// family lets the dead members expire first.
		x.cl.JobClock.Advance(6 * time.Second)
	}
	for range old {
		w := x.cl.AddWorker()
		x.logf("start %s", w.Name)
	}
}

// nudge makes the job notice dead members: heartbeat deadline passes, live workers re-register.
func (x *run) nudge() {
	x.cl.JobClock.Advance(6 * time.Second)
	for _, w := range x.cl.Live() {
		x.cl.Heartbeat(w)
	}
}

// c01FullRestart: family F — all workers of the assembly are replaced (what the repo's own e2e tests do).
func c01FullRestart(c *lib.Ctx) { fullRestart(c, -1) }

// c16Recovery: the recovery runs of C01 with most crashes at the point where the source positions and the
// operators' state can come apart: every member acknowledged checkpoint N, the job snapshot's write is in
// flight, the workers die, and the write completes while the next assembly is being deployed.
func c16Recovery(c *lib.Ctx) { fullRestart(c, 5) }

func fullRestart(c *lib.Ctx, force int) {
	o := pickOpts(c.R)
	if o.keyGroups == 65535 {
		o.keyGroups = 256
	}
	o.perSplit = 40 + c.R.Intn(60)
	x := newRun(c, o)
	defer x.close()
	c.OnPanic = func() any { return x.wit() }
	ep := x.installEpochSwitch()
	r := c.R
	crashes := 1 + r.Intn(3)
	x.src.SetLimit(0)
	x.start(0)
	pos := 0
	for k := 0; k < crashes; k++ {
		// progress, maybe a checkpoint, more progress, crash at a seeded logical point
		pos = min(o.perSplit, pos+3+r.Intn(o.perSplit/2))
		x.src.SetLimit(pos)
		mode := r.Intn(7)
		if force >= 0 && r.Intn(4) > 0 {
			mode = force
		}
		var publishLater func() // mode 5: releases the held publication
		switch mode {
		case 5: // every member has acknowledged the checkpoint, its publication is still in flight when the workers die
			x.waitCaughtUp()
			release := make(chan struct{})
			held := make(chan struct{})
			var once sync.Once
			x.cl.Loc.SetHoldWrite(func(path string) {
				if filepath.Ext(path) == ".snapshot" {
					first := false
					once.Do(func() { first = true })
					if first {
						close(held)
						<-release
					}
				}
			})
			for dl := time.Now().Add(5 * time.Second); time.Now().Before(dl); {
				x.cl.TickCheckpoint()
				select {
				case <-held:
					dl = time.Now()
				case <-time.After(2 * time.Millisecond):
				}
			}
			select {
			case <-held:
				x.logf("crash point: checkpoint acknowledged by every member, the write of its job snapshot is in flight")
				c.Feat("crashes_with_publication_in_flight", 1)
				var relOnce sync.Once
				publishLater = func() { relOnce.Do(func() { close(release) }) }
			default:
				close(release)
				x.logf("crash point: idle (no checkpoint could be started)")
			}
			x.cl.Loc.SetHoldWrite(nil)
		case 6: // a memtable flush of some operator straddles a checkpoint; the next checkpoint follows at once; crash
			var armed atomic.Bool
			arrived, release := make(chan struct{}), make(chan struct{})
			armed.Store(true)
			cluster.SetHook(func(name string, arg any) {
				if name == "dkv.flush.before-swap" && armed.CompareAndSwap(true, false) {
					close(arrived)
					<-release
				}
			})
			parked := false
			for step := 0; step < 60 && !parked; step++ {
				pos = min(o.perSplit, pos+1)
				x.src.SetLimit(pos)
				select {
				case <-arrived:
					parked = true
				case <-time.After(time.Millisecond):
				}
			}
			if !parked && !armed.CompareAndSwap(true, false) {
				<-arrived // it parked this very moment
				parked = true
			}
			if parked {
				// the flush has written its table but not swapped it in: its memtable is sealed, the WAL was cut. More
				// records are applied, checkpoint N is taken (the WAL is rotated with the sealed segment and the active
				// buffer carried over), then the flush finishes and truncates the WAL, and N+1 follows with nothing written
				// in between: what was applied between the rotation and N exists only in memtables and in the WAL.
				// (only little can be applied meanwhile: the parked task blocks the flush queue, the next rotation of
				// that operator's memtable waits for it, and its event loop with it)
				pos = min(o.perSplit, pos+1)
				x.src.SetLimit(pos)
				for dl := time.Now().Add(100 * time.Millisecond); time.Now().Before(dl) && !x.src.CaughtUp(func(rd *cluster.VReader) bool { return x.cl.ReaderLive(rd) }); {
					time.Sleep(200 * time.Microsecond)
				}
				straddled := x.checkpoint(2*time.Second) != nil
				close(release)
				lib.DKVIdle(cluster.Watchdog)
				x.waitCaughtUp()
				x.checkpoint(10 * time.Second)
				if straddled {
					x.logf("crash point: idle after two checkpoints with a memtable flush straddling the first")
					c.Feat("crashes_after_a_flush_straddling_a_checkpoint", 1)
				} else {
					x.logf("crash point: idle after a checkpoint (the parked flush held the operator's event loop; released first)")
				}
			} else {
				close(release)
				x.checkpoint(10 * time.Second)
				x.logf("crash point: idle after published checkpoint (no memtable flush happened)")
			}
			cluster.SetHook(nil)
		case 0: // crash with an idle pipeline right after a published checkpoint
			x.waitCaughtUp()
			x.checkpoint(10 * time.Second)
			x.logf("crash point: idle after published checkpoint")
		case 1: // checkpoint, then more records applied, crash mid flow
			x.checkpoint(10 * time.Second)
			pos = min(o.perSplit, pos+1+r.Intn(10))
			x.src.SetLimit(pos)
			time.Sleep(time.Duration(r.Intn(600)) * time.Microsecond)
			x.logf("crash point: mid flow after checkpoint")
		case 2: // no checkpoint at all since the last epoch
			time.Sleep(time.Duration(r.Intn(600)) * time.Microsecond)
			x.logf("crash point: mid flow, no checkpoint in this epoch")
		case 3, 4: // during a checkpoint: after the j-th acknowledgement reached the job, the rest is held
			total := 2 * o.workers
			j := r.Intn(total)
			var mu sync.Mutex
			seen := 0
			release := make(chan struct{})
			hold := func() {
				mu.Lock()
				seen++
				n := seen
				mu.Unlock()
				if n > j {
					<-release
				}
			}
			x.cl.Lock()
			x.cl.HoldOpAck = func(cluster.OpAck) { hold() }
			x.cl.HoldSRAck = func(cluster.SRAck) { hold() }
			x.cl.Unlock()
			before := len(x.cl.PublishedSnapshots())
			deadline := time.Now().Add(5 * time.Second)
			ticked := false
			for time.Now().Before(deadline) {
				if !ticked {
					ticked = x.cl.TickCheckpoint()
				}
				mu.Lock()
				n := seen
				mu.Unlock()
				if n > j || len(x.cl.PublishedSnapshots()) > before {
					break
				}
				time.Sleep(200 * time.Microsecond)
			}
			x.logf("crash point: during a checkpoint, %d of %d acknowledgements forwarded", j, total)
			// kill first (the held acknowledgements then come from dead nodes and are dropped), then release
			for _, w := range x.cl.Live() {
				x.cl.MarkDead(w)
			}
			close(release)
			x.cl.Lock()
			x.cl.HoldOpAck, x.cl.HoldSRAck = nil, nil
			x.cl.Unlock()
			c.Feat("crashes_during_checkpoint", 1)
		}
		c.Feat(fmt.Sprintf("crash_mode_%d", mode), 1)
		jobToo := r.Intn(4) == 0 && publishLater == nil
		if publishLater != nil {
			// the publication completes while the job deploys the next assembly (at the first operator Deploy call):
			// the assembly restores from the checkpoint that was current when the job started it, operators AND sources
			prev := x.cl.OnOperatorDeploy
			x.cl.Lock()
			x.cl.OnOperatorDeploy = func(rec cluster.DeployRec) {
				if prev != nil {
					prev(rec)
				}
				publishLater()
			}
			x.cl.Unlock()
			defer publishLater()
		}
		x.replaceAllWith(func() {
			if jobToo {
				// the job process dies as well and restarts from its storage (LoadCheckpoint picks the newest snapshot)
				x.logf("job killed and restarted from storage")
				if err := x.cl.StartJob(); err != nil {
					x.c.Fail("job-restart-error", x.wit(), "jobs.New on the existing storage: %v", err)
				}
				c.Feat("job_restarts", 1)
			}
		})
		x.nudge()
		if r.Intn(3) == 0 {
			// a checkpoint is requested the instant the job runs again: the split assignment has been delivered
			// to the runners (the job waits for that) but their loops may not have taken it yet
			for dl := time.Now().Add(cluster.Watchdog); x.cl.Job.VerifStatus() != "Running" && time.Now().Before(dl); {
				runtime.Gosched()
			}
			if x.checkpoint(10*time.Second) != nil {
				c.Feat("checkpoints_at_the_instant_of_running", 1)
			}
		}
		x.waitAssigned(k + 2)
	}
	x.src.SetLimit(o.perSplit)
	x.waitCaughtUp()
	if ok, decided := x.appliedOrDrained(o.perSplit); !ok {
		x.checkHandlers()
		if !decided {
			x.c.Inconclusive("after the last recovery every split was read to its end; not every keyed event has taken effect yet and the draining checkpoint did not complete within the bound (job errors %v; goroutines: %s)", x.cl.JobErrors(), lib.BlockedSummary())
		}
		x.c.Fail("record-lost", x.wit("epochs", ep.history), "after the last recovery every split was read to its end and a checkpoint taken after that was published, but not every keyed event of the input took effect on state (restored from checkpoints %v)", ep.restore)
	}
	// bounded progress: checkpoints complete again after the recovery (C15), which also drains
	snap := x.checkpoint(8 * time.Second)
	x.checkHandlers()
	x.checkFinalState(o.perSplit)
	x.streamOracles("C16")
	if snap == nil {
		x.stuckCheck(ep)
	}
	x.deployOracle(ep)
	c.Feat("recoveries", int64(crashes))
	c.SetSig(true, fmt.Sprintf("%+v", o), x.log)
	if c.Index < 3 {
		c.Sample(map[string]any{"options": fmt.Sprintf("%+v", o), "log": x.log, "epochs": ep.history})
	}
}

// stuckCheck (C15, bounded progress): faults have stopped, a full assembly is registered and processing, K
// checkpoint ticks were driven and none completed. It is a violation only with a stuck-state witness.
func (x *run) stuckCheck(ep *epochs) {
	for i := 0; i < 20; i++ {
		x.cl.TickCheckpoint()
		x.nudge()
		time.Sleep(500 * time.Microsecond)
		if len(x.cl.PublishedSnapshots()) > 0 && x.checkpoint(300*time.Millisecond) != nil {
			return
		}
	}
	if pend := x.cl.Job.VerifPendingSnapshot(); pend != nil {
		var deadExpected []string
		for _, id := range pend.WaitingFor {
			if !x.cl.NodeLive(id) {
				deadExpected = append(deadExpected, id)
			}
		}
		if len(deadExpected) > 0 {
			x.c.Fail("checkpointing-stuck", x.wit("epochs", ep.history), "after the recovery 20 checkpoint ticks were driven and no checkpoint completed: the store's pending checkpoint %d still waits for acknowledgements from %v, nodes that are dead / not in the current assembly (every new CreateCheckpoint answers 'checkpoint in progress')", pend.ID, deadExpected)
		}
	}
	x.c.Inconclusive("no checkpoint completed after the recovery within the bound, and no stuck-state witness was found")
}

// deployOracle (C15 safety): deploys go only to live registered nodes, to exactly WorkerCount of each kind, all
// members of one round from the same checkpoint, which is the latest completed one.
func (x *run) deployOracle(ep *epochs) {
	for _, h := range ep.history {
		if len(h) > 5 && h[:5] == "MIXED" {
			x.c.Fail("deploy-mixed-checkpoints", x.wit("epochs", ep.history), "%s", h)
		}
	}
	for _, d := range x.cl.Deploys() {
		if d.DeadNode {
			// not a violation: a killed node stays registered until its heartbeat expires, the job cannot know
			// better (the fake tier decides membership exactly, at assembly formation)
			x.c.Feat("deploys_to_killed_but_unexpired_nodes", 1)
		}
		if len(d.Members) != x.o.workers {
			x.c.Fail("deploy-wrong-assembly-size", x.wit("epochs", ep.history), "Deploy to %s names %d operators, the job is configured for %d workers", d.Node, len(d.Members), x.o.workers)
		}
	}
	for _, s := range x.cl.StartCheckpoints() {
		if s.Dead {
			x.c.Feat("start_checkpoint_to_dead_node", 1)
		}
	}
}

// kfPartialRedeploy (family P): one worker of two dies while the pipeline is idle; the survivor is redeployed
// in place together with a replacement. Deterministic reproducer of the known finding in-place-redeploy: the
// survivor's source runner stops the whole worker on the first failed send to the dead operator, and a second
// Deploy in place tears down nothing of the previous deployment.
func kfPartialRedeploy(c *lib.Ctx) {
	o := runOpts{workers: 2, keyGroups: 16, splits: 2, perSplit: 60, maxSize: 2, maxDelay: time.Millisecond, tsMode: "increasing"}
	x := newRun(c, o)
	defer x.close()
	c.Exclude = nil // this part is the reproducer of the finding the other parts stay out of
	c.OnPanic = func() any { return x.wit() }
	ep := x.installEpochSwitch()
	x.src.SetLimit(30)
	x.start(0)
	x.waitCaughtUp()
	if x.checkpoint(cluster.Watchdog) == nil {
		c.Inconclusive("no checkpoint")
	}
	time.Sleep(20 * time.Millisecond) // idle pipeline: batches flushed, nothing in flight
	victim := x.cl.Live()[1]
	x.logf("kill %s while the pipeline is idle; %s survives", victim.Name, x.cl.Live()[0].Name)
	x.cl.Kill(victim)
	w := x.cl.AddWorker()
	x.logf("start %s", w.Name)
	x.nudge()
	x.waitAssigned(2)
	for i := 0; i < 5; i++ {
		lib.GCSettle() // the survivor's previous database object is garbage now
	}
	x.src.SetLimit(o.perSplit)
	survivor := x.cl.Live()[0]
	deadline := time.Now().Add(cluster.Watchdog)
	for !x.src.CaughtUp(func(r *cluster.VReader) bool { return x.cl.ReaderLive(r) }) {
		if gone, err := survivor.Exited(); gone {
			x.checkHandlers()
			x.c.Fail("survivor-stopped-after-in-place-redeploy", x.wit("epochs", ep.history), "family P: the surviving worker %s stopped by itself after it was redeployed in place (%v); edge errors: %v", survivor.Name, err, x.cl.EdgeErrors())
		}
		if time.Now().After(deadline) {
			x.c.Inconclusive("readers did not reach the limit within the watchdog")
		}
		time.Sleep(300 * time.Microsecond)
	}
	ok := x.waitApplied(o.perSplit, 5*time.Second)
	x.checkHandlers()
	if !ok {
		x.c.Fail("record-lost", x.wit("epochs", ep.history), "family P: after the in-place redeploy of the survivor not every keyed event took effect")
	}
	x.checkFinalState(o.perSplit)
	c.SetSig(true, "kf-partial-redeploy")
	c.Sample(x.log)
}
