package main

import (
	"context"
	"fmt"
	"os"
	"path/filepath"
	"strings"
	"sync"
	"time"

	"reduction.dev/reduction/batching"
	"reduction.dev/reduction/storage/snapshots"
	"verif/cluster"
	"verif/lib"
	"verif/ophar"
)

// requestSavepoint: the job refuses savepoints unless it is Running (a user retries); after a restart the
// harness therefore waits for Running first.
func (x *run) requestSavepoint() (uint64, error) {
	deadline := time.Now().Add(cluster.Watchdog)
	for {
		if x.cl.Job.VerifStatus() == "Running" {
			id, err := x.cl.Job.HandleCreateSavepoint(context.Background())
			if err == nil || !strings.Contains(err.Error(), "job not running") {
				return id, err
			}
		}
		if time.Now().After(deadline) {
			x.c.Inconclusive("the job did not reach Running within the watchdog (status %s, job errors %v)", x.cl.Job.VerifStatus(), x.cl.JobErrors())
		}
		time.Sleep(200 * time.Microsecond)
	}
}

// C14: savepoints are self-contained and restore the checkpointed job state (DESIGN §6 C14).
func c14Savepoint(c *lib.Ctx) { c14Run(c, false) }

// c14AfterScaleDown: the directed variant — state is flushed to table files, the job is scaled down so that one
// operator inherits the tables of several former operators (equal file names in different directories), and the
// savepoint is taken while those inherited tables are still referenced.
func c14AfterScaleDown(c *lib.Ctx) { c14Run(c, true) }

func c14Run(c *lib.Ctx, scaleDown bool) {
	o := pickOpts(c.R)
	if o.keyGroups == 65535 {
		o.keyGroups = 256
	}
	o.perSplit = 40 + c.R.Intn(50)
	o.timers = true
	if scaleDown {
		o.workers = 2 + c.R.Intn(3)
		o.splits = max(o.splits, 2)
	}
	x := newRun(c, o)
	// the end of every asynchronous publication of the job's snapshot store (hook): a savepoint whose publication
	// has ended without an artifact is lost, one whose publication has not ended is merely slow
	var pubMu sync.Mutex
	pubEnded := map[uint64]error{}
	ended := map[uint64]bool{}
	cluster.SetHook(func(name string, arg any) {
		if name == "snapshots.publication-ended" {
			e := arg.(snapshots.VerifPublicationEnded)
			pubMu.Lock()
			pubEnded[e.ID], ended[e.ID] = e.Err, true
			pubMu.Unlock()
		}
	})
	defer cluster.SetHook(nil)
	if !scaleDown && c.R.Intn(4) == 0 {
		// a memtable so small that every write rotates it: at an idle moment an operator has flushed everything it
		// has written (empty memtable, the WAL's entries are all in tables)
		x.tun.MemTableSize, x.tun.MaxWALSize = 40, 600
		c.Feat("cases_with_fully_flushed_operators", 1)
	}
	if scaleDown {
		// every operator flushes several tables before the first checkpoint; few compactions, so that the inherited
		// tables stay referenced for a while
		x.tun.MemTableSize, x.tun.MaxWALSize, x.tun.TargetFileSize = 300, 600, 1<<20
		x.tun.L0TableNumCompactionTrigger = 4
	}
	closed := false
	defer func() {
		if !closed {
			x.close()
		}
	}()
	c.OnPanic = func() any { return x.wit() }
	r := c.R
	x.installEpochSwitch()
	x.src.SetLimit(0)
	x.start(0)
	// phase 1: some state (in memory only, or flushed — depends on the dkv tuning of the case), maybe periodic checkpoints
	p1 := 5 + r.Intn(o.perSplit/2)
	x.src.SetLimit(p1)
	if r.Intn(2) == 0 {
		x.waitCaughtUp()
	}
	for i := r.Intn(3); i > 0; i-- {
		x.checkpoint(10 * time.Second)
	}
	// sometimes the job was rescaled before: its operators then reference tables inherited from several former
	// operators (other directories, table numbering restarts per database) when the savepoint is taken
	if scaleDown || r.Intn(3) == 0 {
		if scaleDown {
			x.waitCaughtUp()
		}
		if x.checkpoint(10*time.Second) == nil {
			c.Inconclusive("no checkpoint before the rescale (job errors %v)", x.cl.JobErrors())
		}
		n2 := 1 + r.Intn(4)
		if o.workers > 1 && (scaleDown || r.Intn(3) > 0) {
			n2 = 1 + r.Intn(o.workers-1) // scale down: one operator inherits from several
		}
		x.logf("rescale before the savepoint: every worker and the job are stopped, the job restarts with %d workers (was %d)", n2, o.workers)
		for _, w := range x.cl.NotKilled() {
			x.cl.Kill(w)
		}
		lib.GCSettle()
		x.cl.Cfg.Workers = n2
		o.workers, x.o.workers = n2, n2
		pubMu.Lock()
		pubEnded, ended = map[uint64]error{}, map[uint64]bool{} // the restarted job may use an id again that never completed
		pubMu.Unlock()
		if err := x.cl.StartJob(); err != nil {
			c.Fail("job-restart-error", x.wit(), "jobs.New on the existing storage: %v", err)
		}
		for i := 0; i < n2; i++ {
			x.cl.AddWorker()
		}
		x.waitAssigned(2)
		p1 = min(o.perSplit, p1+2+r.Intn(10))
		x.src.SetLimit(p1)
		if r.Intn(2) == 0 {
			x.waitCaughtUp()
		}
		c.Feat("savepoints_after_rescale", 1)
	}
	// the savepoint request, at a seeded moment relative to periodic checkpoints
	mode := r.Intn(6)
	var spID uint64
	var err error
	startsBefore := len(x.cl.StartCheckpoints())
	switch mode {
	case 0: // idle
		x.waitCaughtUp()
		if r.Intn(2) == 0 {
			lib.DKVIdle(2 * time.Second) // also the operators' flushes and compactions have finished
		}
		x.logf("savepoint requested (idle)")
		spID, err = x.requestSavepoint()
	case 1: // mid flow
		x.logf("savepoint requested (mid flow)")
		spID, err = x.requestSavepoint()
	case 4, 5: // the asynchronous publication of the savepoint's checkpoint overlaps the next periodic checkpoint
		x.waitCaughtUp()
		release := make(chan struct{})
		var once sync.Once
		held := make(chan struct{})
		x.cl.Loc.SetHoldWrite(func(path string) {
			if filepath.Ext(path) == ".snapshot" {
				first := false
				once.Do(func() { first = true })
				if first {
					close(held)
					<-release
				}
			}
		})
		x.logf("savepoint requested; its publication is held while the next periodic checkpoint completes at the operators")
		// the source runners' acknowledgements of the NEXT checkpoint are held too, so that it cannot complete at
		// the job (and have the savepoint's checkpoint dropped by retention) before the artifact is written
		srRelease := make(chan struct{})
		defer func() {
			select {
			case <-srRelease:
			default:
				close(srRelease)
			}
		}()
		spID, err = x.requestSavepoint()
		overtaken := mode == 5 // the next checkpoint completes at the job and is published before the savepoint's snapshot write returns
		x.cl.Lock()
		sp := spID
		if !overtaken {
			x.cl.HoldSRAck = func(a cluster.SRAck) {
				if a.ID > sp {
					<-srRelease
				}
			}
		}
		x.cl.Unlock()
		defer func() {
			x.cl.Lock()
			x.cl.HoldSRAck = nil
			x.cl.Unlock()
		}()
		if err == nil {
			select {
			case <-held:
				// more state, then the next periodic checkpoint
				x.src.SetLimit(min(o.perSplit, p1+2+r.Intn(6)))
				x.waitCaughtUp()
				deadline := time.Now().Add(5 * time.Second)
				for time.Now().Before(deadline) {
					x.cl.TickCheckpoint()
					n := 0
					for _, a := range x.cl.OpAcks() {
						if a.ID > spID {
							n++
						}
					}
					if n >= o.workers && !overtaken {
						c.Feat("savepoint_publication_overlapped_next_checkpoint", 1)
						break
					}
					if overtaken {
						// the next checkpoint completes at the job and is published while the savepoint's snapshot write is still in flight
						done := false
						for _, p := range x.cl.PublishedSnapshots() {
							if sn, e2 := x.cl.ReadSnapshot(p); e2 == nil && sn.Id > spID {
								done = true
							}
						}
						if done {
							x.logf("checkpoint after the savepoint's was published while the savepoint's snapshot write was in flight")
							c.Feat("savepoint_overtaken_by_next_checkpoint", 1)
							break
						}
					}
					time.Sleep(300 * time.Microsecond)
				}
			case <-time.After(5 * time.Second):
			}
		}
		close(release)
		// once the artifact is written the next checkpoint may complete
		if err == nil {
			dl := time.Now().Add(cluster.Watchdog)
			for time.Now().Before(dl) {
				if uri, e2 := x.cl.Job.HandleGetSavepointURI(context.Background(), spID); e2 == nil {
					if _, e3 := os.Stat(uri); e3 == nil {
						break
					}
				}
				time.Sleep(300 * time.Microsecond)
			}
		}
		x.cl.Lock()
		x.cl.HoldSRAck = nil
		x.cl.Unlock()
		close(srRelease)
	case 2, 3: // while a periodic checkpoint is in progress: it must fold into it
		release := make(chan struct{})
		var once sync.Once
		got := make(chan struct{})
		x.cl.Lock()
		x.cl.HoldOpAck = func(cluster.OpAck) { once.Do(func() { close(got) }); <-release }
		x.cl.Unlock()
		before := len(x.cl.StartCheckpoints())
		deadline := time.Now().Add(5 * time.Second)
		for !x.cl.TickCheckpoint() && time.Now().Before(deadline) {
			time.Sleep(200 * time.Microsecond)
		}
		select {
		case <-got:
		case <-time.After(5 * time.Second):
		}
		pendingStarts := x.cl.StartCheckpoints()[before:]
		x.logf("savepoint requested while periodic checkpoint is in progress (acks held)")
		spID, err = x.requestSavepoint()
		if mode == 3 && err == nil {
			// a second request while the first is pending must not start anything either
			x.logf("second savepoint request")
			_, err2 := x.cl.Job.HandleCreateSavepoint(context.Background())
			_ = err2
		}
		if err == nil && len(pendingStarts) > 0 {
			if spID != pendingStarts[0].ID {
				c.Fail("savepoint-started-second-checkpoint", x.wit(), "a savepoint requested while checkpoint %d was in progress got id %d", pendingStarts[0].ID, spID)
			}
			for _, s := range x.cl.StartCheckpoints()[before+len(pendingStarts):] {
				c.Fail("savepoint-started-second-checkpoint", x.wit(), "a savepoint requested while checkpoint %d was in progress made the job send StartCheckpoint(%d) to %s", pendingStarts[0].ID, s.ID, s.Node)
			}
			c.Feat("savepoints_folded_into_pending_checkpoint", 1)
		}
		// half of the folded savepoints are then overtaken: the write of the checkpoint's job snapshot is held while
		// the next periodic checkpoint completes and is published
		wRelease := make(chan struct{})
		wHeld := make(chan struct{})
		overtakeFolded := err == nil && r.Intn(2) == 0
		if overtakeFolded {
			var wOnce sync.Once
			x.cl.Loc.SetHoldWrite(func(path string) {
				if filepath.Ext(path) == ".snapshot" {
					first := false
					wOnce.Do(func() { first = true })
					if first {
						close(wHeld)
						<-wRelease
					}
				}
			})
		}
		x.cl.Lock()
		x.cl.HoldOpAck = nil
		x.cl.Unlock()
		close(release)
		if overtakeFolded {
			select {
			case <-wHeld:
				x.src.SetLimit(min(o.perSplit, p1+2+r.Intn(6)))
				x.waitCaughtUp()
				for dl := time.Now().Add(5 * time.Second); time.Now().Before(dl); {
					x.cl.TickCheckpoint()
					done := false
					for _, p := range x.cl.PublishedSnapshots() {
						if sn, e2 := x.cl.ReadSnapshot(p); e2 == nil && sn.Id > spID {
							done = true
						}
					}
					if done {
						x.logf("the folded savepoint's checkpoint %d was overtaken: a later checkpoint was published while its snapshot write was in flight", spID)
						c.Feat("folded_savepoint_overtaken_by_next_checkpoint", 1)
						break
					}
					time.Sleep(300 * time.Microsecond)
				}
			case <-time.After(5 * time.Second):
			}
			x.cl.Loc.SetHoldWrite(nil)
			close(wRelease)
		}
	}
	if err != nil {
		c.Fail("savepoint-request-error", x.wit(), "HandleCreateSavepoint: %v", err)
	}
	_ = startsBefore
	// the artifact appears
	var spURI string
	artifact := func() bool {
		uri, e2 := x.cl.Job.HandleGetSavepointURI(context.Background(), spID)
		if e2 == nil {
			if _, e3 := os.Stat(uri); e3 == nil {
				spURI = uri
				return true
			}
		}
		return false
	}
	// The publication of the savepoint's checkpoint runs asynchronously. Its end is observed through the hook:
	// ended without an artifact = the request was lost (violation); not ended within the watchdog = inconclusive.
	for deadline := time.Now().Add(cluster.Watchdog); !artifact(); {
		pubMu.Lock()
		done, perr := ended[spID], pubEnded[spID]
		pubMu.Unlock()
		if done && !artifact() {
			c.Fail("savepoint-never-written", x.wit(), "savepoint %d was requested and its checkpoint acknowledged by every member; the asynchronous publication of checkpoint %d has ended (error: %v) and the savepoint artifact does not exist (job errors %v)", spID, spID, perr, x.cl.JobErrors())
		}
		// a logical verdict before the watchdog: a checkpoint completes inside the call that delivers the last
		// acknowledgement. Every member's acknowledgement accepted and the checkpoint still in progress = the savepoint
		// request disturbed the running job (nothing can complete it any more, and no other checkpoint can start)
		accepted := x.cl.AcksAccepted(spID) // read before the pending checkpoint: an acknowledgement accepted by now has been counted
		if p := x.cl.Job.VerifPendingSnapshot(); p != nil && p.ID == spID && len(p.WaitingFor) > 0 {
			lost := true
			for _, n := range p.WaitingFor {
				lost = lost && accepted[n]
			}
			if lost {
				c.Fail("checkpoint-stuck-after-savepoint-request", x.wit(), "savepoint %d: checkpoint %d is still in progress and waits for %v, whose acknowledgements the job has already accepted: they were dropped, the checkpoint can never complete and no further checkpoint can start", spID, spID, p.WaitingFor)
			}
		}
		if time.Now().After(deadline) {
			c.Inconclusive("the publication of savepoint %d did not end within the watchdog (job errors %v)", spID, x.cl.JobErrors())
		}
		time.Sleep(300 * time.Microsecond)
	}
	x.logf("savepoint %d at %s", spID, spURI)
	// the job keeps running undisturbed: more records, more checkpoints (retention drops the savepoint's checkpoint)
	p2 := min(o.perSplit, p1+3+r.Intn(20))
	x.src.SetLimit(p2)
	x.waitCaughtUp()
	for i := 1 + r.Intn(2); i > 0; i-- {
		x.checkpoint(10 * time.Second)
	}
	x.checkHandlers()
	x.cl.Lock()
	cut, ok := x.cuts[spID]
	x.cl.Unlock()
	if !ok {
		c.Fail("savepoint-without-acks", x.wit(), "savepoint %d exists but the operators never acknowledged checkpoint %d", spID, spID)
	}
	// everything dies, ALL working storage is deleted
	x.close()
	closed = true
	lib.GCSettle()
	for _, d := range []string{filepath.Join(c.Dir, "work"), filepath.Join(c.Dir, "job", "checkpoints")} {
		os.RemoveAll(d)
	}
	x.logf("all workers and the job killed; working storage and job checkpoints deleted")
	// restoreFrom starts a new job from a savepoint URI (all working storage is gone) with the given worker count and
	// checks that it deploys and that every split resumes from the position recorded in the savepoint's checkpoint.
	restoreFrom := func(prev *run, spID uint64, spURI string, cut map[string]ophar.KeyShadow, o2 runOpts, limit int) *run {
		y := newRun(c, o2)
		y.keys = prev.keys
		y.log = prev.log
		y.src = cluster.NewVSource(o.splits, o.perSplit, o.tsMode, x.chunk)
		y.src.SetLimit(limit)
		cfg := prev.cl.Cfg
		cfg.Workers = o2.workers
		cfg.Source = y.src
		cfg.SavepointURI = spURI
		cfg.Batch = batching.EventBatcherParams{MaxSize: o.maxSize, MaxDelay: o.maxDelay}
		y.cl = cluster.New(cfg)
		y.cl.ContinueNamesOf(prev.cl)
		y.cl.SetChecks(exactlyOnceCheck)
		y.installCutRecorder()
		y.cl.TimerFn = prev.cl.TimerFn
		y.cuts = prev.cuts
		y.cl.Store.Reset(cut)
		c.OnPanic = func() any { return y.wit() }
		y.logf("new job from savepoint %d with %d workers (was %d)", spID, o2.workers, prev.o.workers)
		if err := y.cl.StartJob(); err != nil {
			c.Fail("savepoint-restore-error", y.wit(), "jobs.New from the savepoint URI: %v", err)
		}
		for i := 0; i < o2.workers; i++ {
			y.cl.AddWorker()
		}
		// every worker of the new job is alive: a Deploy that fails means the operator cannot open its database from what
		// the savepoint restored
		stopWatch := make(chan struct{})
		deployFailed := make(chan string, 1)
		go func() {
			for {
				select {
				case <-stopWatch:
					return
				case <-time.After(500 * time.Microsecond):
				}
				for _, d := range y.cl.Deploys() {
					if d.Err != nil && !d.DeadNode {
						select {
						case deployFailed <- fmt.Sprintf("%s %s: %v", d.Kind, d.Node, d.Err):
						default:
						}
						return
					}
				}
			}
		}()
		assigned := make(chan struct{})
		go func() {
			defer func() { recover() }()
			for {
				n := 0
				for _, a := range y.src.Assignments() {
					if a.Splitter >= 1 {
						n++
					}
				}
				if n >= o.splits {
					close(assigned)
					return
				}
				select {
				case <-stopWatch:
					return
				case <-time.After(300 * time.Microsecond):
				}
			}
		}()
		select {
		case <-assigned:
		case why := <-deployFailed:
			close(stopWatch)
			c.Fail("savepoint-restore-error", y.wit(), "the job started from savepoint %d cannot deploy: Deploy of %s (working storage was deleted; only the savepoint exists)", spID, why)
		case <-time.After(cluster.Watchdog):
			close(stopWatch)
			c.Inconclusive("splits were not assigned within the watchdog after the restore from savepoint %d (job errors: %v; goroutines: %s)", spID, y.cl.JobErrors(), lib.BlockedSummary())
		}
		close(stopWatch)
		// source positions: every split resumes from the position recorded in the savepoint's checkpoint
		want := map[string]int{}
		for _, a := range prev.cl.SRAcks() {
			if a.ID == spID {
				for s, p := range a.Pos {
					want[fmt.Sprint(s)] = p
				}
			}
		}
		for _, a := range y.src.Assignments() {
			if p, ok := want[a.SplitID]; ok && (!a.HasCursor || a.Cursor != p) {
				c.Fail("savepoint-source-position", y.wit(), "after the restore split %s resumes from cursor %d (has cursor: %v), checkpoint %d recorded position %d", a.SplitID, a.Cursor, a.HasCursor, spID, p)
			}
		}
		return y
	}
	// phase 2: a new job from the savepoint URI, same or different worker count
	o2 := o
	if r.Intn(2) == 0 {
		o2.workers = 1 + r.Intn(4)
	}
	// two in five runs chain a second savepoint: the job started from the first savepoint processes part of the
	// remaining input, takes some periodic checkpoints and a savepoint of its own; everything is deleted again and a
	// third job starts from the second savepoint
	chain := r.Intn(5) < 2
	limit := o.perSplit
	if chain {
		limit = min(o.perSplit, p2+3+r.Intn(15))
	}
	y := restoreFrom(x, spID, spURI, cut, o2, limit)
	defer func() { y.close() }()
	if chain {
		y.waitCaughtUp()
		// periodic checkpoints first: 0..2, or as many as the first job had taken before its savepoint (the second
		// savepoint is then this job's N-th checkpoint, like the first one was the first job's N-th)
		k := r.Intn(3)
		if spID >= 1 && spID <= 7 && r.Intn(4) > 0 {
			k = int(spID) - 1
		}
		for i := k; i > 0; i-- {
			y.checkpoint(10 * time.Second)
		}
		y.waitCaughtUp()
		sp2, err := y.requestSavepoint()
		if err != nil {
			c.Fail("savepoint-request-error", y.wit(), "HandleCreateSavepoint in the job started from savepoint %d: %v", spID, err)
		}
		var uri2 string
		for deadline := time.Now().Add(cluster.Watchdog); uri2 == ""; {
			if u, e2 := y.cl.Job.HandleGetSavepointURI(context.Background(), sp2); e2 == nil {
				if _, e3 := os.Stat(u); e3 == nil {
					uri2 = u
					break
				}
			}
			if time.Now().After(deadline) {
				c.Inconclusive("the second savepoint (%d) was not written within the watchdog (job errors %v)", sp2, y.cl.JobErrors())
			}
			time.Sleep(300 * time.Microsecond)
		}
		y.logf("second savepoint %d at %s (taken by the job that was started from savepoint %d)", sp2, uri2, spID)
		y.checkHandlers()
		y.cl.Lock()
		cut2, ok2 := y.cuts[sp2]
		y.cl.Unlock()
		if !ok2 {
			c.Fail("savepoint-without-acks", y.wit(), "savepoint %d exists but the operators never acknowledged checkpoint %d", sp2, sp2)
		}
		y.close()
		lib.GCSettle()
		for _, d := range []string{filepath.Join(c.Dir, "work"), filepath.Join(c.Dir, "job", "checkpoints")} {
			os.RemoveAll(d)
		}
		y.logf("all workers and the job killed again; working storage and job checkpoints deleted")
		o3 := o2
		if r.Intn(2) == 0 {
			o3.workers = 1 + r.Intn(4)
		}
		y = restoreFrom(y, sp2, uri2, cut2, o3, o.perSplit)
		spID = sp2
		c.Feat("chained_second_savepoints", 1)
	}
	y.waitCaughtUp()
	if ok, decided := y.appliedOrDrained(o.perSplit); !ok {
		y.checkHandlers()
		if !decided {
			c.Inconclusive("after restoring from savepoint %d every split was read to its end; not every keyed event has taken effect yet and the draining checkpoint did not complete within the bound (job errors %v; goroutines: %s)", spID, y.cl.JobErrors(), lib.BlockedSummary())
		}
		c.Fail("record-lost", y.wit(), "after restoring from savepoint %d, reading every split to its end and publishing a checkpoint taken after that, not every keyed event of the input took effect on state", spID)
	}
	y.checkpoint(8 * time.Second)
	y.checkHandlers()
	y.checkFinalState(o.perSplit)
	c.Feat(fmt.Sprintf("savepoint_mode_%d", mode), 1)
	if o2.workers != o.workers {
		c.Feat("restored_into_different_worker_count", 1)
	}
	c.SetSig(true, fmt.Sprintf("%+v", o), o2.workers, mode, p1, p2)
	if c.Index < 3 {
		c.Sample(map[string]any{"options": fmt.Sprintf("%+v", o), "restore_workers": o2.workers, "log": y.log})
	}
}
