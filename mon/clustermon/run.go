// clustermon — monitors over a complete in-process job (real jobs.Job, real source runners and
// operators, harness source): C04, C16 (cut), C11 (runner side), C01, C14, C15. DESIGN §6.
package main

import (
	"fmt"
	"math/rand"
	"sort"
	"strconv"
	"strings"
	"sync"
	"time"

	"reduction.dev/reduction/batching"
	"reduction.dev/reduction/partitioning"
	"reduction.dev/reduction/proto/snapshotpb"
	"reduction.dev/reduction/util/vhook"
	"verif/cluster"
	"verif/lib"
	"verif/ophar"
)

type runOpts struct {
	workers, keyGroups, splits, perSplit int
	maxSize                              int
	maxDelay                             time.Duration
	tsMode                               string
	latency                              bool
	timers                               bool
	bulk                                 bool // some reads return hundreds to thousands of records at once
	slowKeyBy                            bool // key-by calls take 0..3 x MaxDelay: the reorder buffer fills, size and time-out flushes overlap
}

func pickOpts(r *rand.Rand) runOpts {
	o := runOpts{
		workers:   1 + r.Intn(4),
		keyGroups: lib.Pick(r, []int{7, 256, 256, 1000, 65535}),
		splits:    1 + r.Intn(6),
		perSplit:  20 + r.Intn(60),
		maxSize:   lib.Pick(r, []int{1, 2, 3, 8, 32}),
		maxDelay:  time.Duration(lib.Pick(r, []int{1, 2, 5})) * time.Millisecond,
		tsMode:    "increasing",
		latency:   r.Intn(3) == 0,
		timers:    r.Intn(2) == 0,
	}
	if o.keyGroups == 65535 && o.workers > 2 {
		o.workers = 2
	}
	o.slowKeyBy = r.Intn(3) == 0
	return o
}

type run struct {
	c     *lib.Ctx
	r     *rand.Rand
	o     runOpts
	cl    *cluster.Cluster
	src   *cluster.VSource
	keys  [][]byte
	log   []string
	tun   vhook.TuningValues
	epoch int
	// cuts[N] = shadow at job checkpoint N (union over the operators' acks) — M4
	cuts map[uint64]map[string]ophar.KeyShadow
	// cutEpoch: the deploy epoch whose operators acknowledged the id. A restarted job numbers on from the newest
	// published snapshot, so an id whose checkpoint never completed is used again by the next assembly.
	cutEpoch map[uint64]int
	ep       *epochs
	chunk    func(reader, call int) int
}

func (x *run) logf(format string, a ...any) {
	x.log = append(x.log, fmt.Sprintf(format, a...))
	x.c.Logf("%s", x.log[len(x.log)-1])
}

func (x *run) wit(extra ...any) map[string]any {
	w := map[string]any{"options": fmt.Sprintf("%+v", x.o), "log": x.log, "tuning": x.tun}
	for i := 0; i+1 < len(extra); i += 2 {
		w[fmt.Sprint(extra[i])] = extra[i+1]
	}
	if x.ep != nil {
		x.ep.mu.Lock()
		w["epochs"] = append([]string{}, x.ep.history...)
		x.ep.mu.Unlock()
	}
	var acks []string
	for _, a := range x.cl.OpAcks() {
		acks = append(acks, fmt.Sprintf("t%d op-ack %s ckpt %d [%d,%d)", a.Tick, a.Operator, a.ID, a.Start, a.End))
	}
	for _, a := range x.cl.SRAcks() {
		acks = append(acks, fmt.Sprintf("t%d sr-ack %s ckpt %d pos %v", a.Tick, a.Runner, a.ID, a.Pos))
	}
	w["acks"] = acks
	var asg []string
	for _, a := range x.src.Assignments() {
		asg = append(asg, fmt.Sprintf("t%d splitter#%d split %s -> %s cursor %d(%v)", a.Tick, a.Splitter, a.SplitID, a.Runner, a.Cursor, a.HasCursor))
	}
	w["assignments"] = asg
	w["published"] = x.cl.PublishedSnapshots()
	if errs := x.cl.JobErrors(); len(errs) > 0 {
		w["job_errors"] = fmt.Sprint(errs)
	}
	if errs := x.cl.EdgeErrors(); len(errs) > 0 {
		w["edge_errors"] = errs
	}
	if ps := x.cl.RPCPanics(); len(ps) > 0 {
		w["request_handler_panics"] = ps
	}
	return w
}

func fanout(seed int64) func(split, off int) int {
	return func(split, off int) int {
		h := lib.HashParts("fan", seed, split, off)
		switch h[0] {
		case '0':
			return 0
		case '1':
			return 2
		}
		return 1
	}
}

func newRun(c *lib.Ctx, o runOpts) *run {
	r := c.R
	x := &run{c: c, r: r, o: o, cuts: map[uint64]map[string]ophar.KeyShadow{}}
	x.keys = lib.KeyUniverse(r, 3+r.Intn(10), 3)
	chunkSeed := r.Int63()
	x.chunk = func(reader, call int) int {
		h := lib.HashParts("chunk", chunkSeed, reader, call)
		if o.bulk && h[1]%3 == 0 {
			return 300 + (int(h[2])*256+int(h[3]))%2200 // one read of 300..2500 records
		}
		return int(h[0]%8) % 6 // 0..5 records per read, including empty reads
	}
	x.src = cluster.NewVSource(o.splits, o.perSplit, o.tsMode, x.chunk)
	x.tun = vhook.TuningValues{
		MemTableSize: uint64(lib.Pick(r, []int{300, 1500, 1 << 20})), MaxWALSize: uint64(lib.Pick(r, []int{600, 1 << 20})),
		TargetFileSize: uint64(lib.Pick(r, []int{400, 1 << 20})), L0TableNumCompactionTrigger: lib.Pick(r, []int{1, 2, 4}),
		TuneCompactor: true, MaxSizeAmplificationPercent: lib.Pick(r, []int{0, 50, 200}), SmallestLevelSize: int64(lib.Pick(r, []int{400, 256 << 20})), LevelSizeMultiplier: 10,
		WatermarkIntervalNanos: int64(lib.Pick(r, []int{1, 2, 5})) * int64(time.Millisecond),
	}
	if o.bulk {
		// thousands of records per case: with a 300-byte memtable every state read would scan hundreds of table
		// files; the bulk cases are about the cut, not the LSM
		x.tun.MemTableSize, x.tun.MaxWALSize, x.tun.TargetFileSize = 1<<20, 1<<20, 1<<20
	}
	vhook.SetTuning(&x.tun)
	seed := c.Seed*1000 + int64(c.Index)
	cfg := cluster.Config{Workers: o.workers, KeyGroups: o.keyGroups, Batch: batching.EventBatcherParams{MaxSize: o.maxSize, MaxDelay: o.maxDelay},
		Dir: c.Dir, Source: x.src, Keys: x.keys, Seed: seed, Fanout: fanout(seed)}
	if o.timers {
		cfg.ExtraProgram = func(rec cluster.Record, j int) ophar.Program {
			if (rec.Off+rec.Split)%5 == 0 {
				return ophar.Program{{Op: "TIMER", T: rec.Ts + 3000}}
			}
			return nil
		}
	}
	x.cl = cluster.New(cfg)
	x.cl.SetChecks(exactlyOnceCheck)
	if lib.Known("in-place-redeploy") {
		c.Exclude = func() string {
			if n := x.cl.RedeployedInPlace(); n != "" {
				return "known finding in-place-redeploy: " + n + " accepted a second Deploy in place"
			}
			return ""
		}
	}
	x.cl.TimerFn = func(key []byte, t int64) ophar.Program {
		return ophar.Program{{Op: "PUT", NS: "fired", EK: []byte(strconv.FormatInt(t, 10)), V: []byte("1")}}
	}
	if o.latency {
		x.cl.Latency = func(seq int) {
			if h := lib.HashParts("lat", seed, seq); h[0] < '4' {
				time.Sleep(time.Duration(h[1]%8) * 40 * time.Microsecond)
			}
		}
	}
	if o.slowKeyBy {
		x.cl.KeyLatency = func(runner string, call int) {
			h := lib.HashParts("keylat", seed, runner, call)
			if h[0] < '8' { // half of the calls
				time.Sleep(time.Duration(int(h[1])%7) * o.maxDelay / 2)
			}
		}
	}
	x.installCutRecorder()
	return x
}

// installCutRecorder (M4): freeze the shadow of the acknowledging operator's keys at the instant of its ack. Called
// again when a run's cluster is replaced (a job started from a savepoint).
func (x *run) installCutRecorder() {
	o := x.o
	x.cl.OnOpAck = func(a cluster.OpAck, w *cluster.Worker) {
		rng := partitioning.KeyGroupRange{Start: a.Start, End: a.End}
		snap := w.H.ShadowSnapshot(func(k []byte) bool {
			return rng.IncludesKeyGroup(partitioning.KeyGroup(ophar.KeyGroupOf(k, o.keyGroups)))
		})
		g := 0
		if x.ep != nil {
			x.ep.mu.Lock()
			g = len(x.ep.restore)
			x.ep.mu.Unlock()
		}
		x.cl.Lock()
		if x.cutEpoch == nil {
			x.cutEpoch = map[uint64]int{}
		}
		if pg, ok := x.cutEpoch[a.ID]; x.cuts[a.ID] == nil || !ok || pg != g {
			x.cuts[a.ID] = map[string]ophar.KeyShadow{}
			x.cutEpoch[a.ID] = g
		}
		for k, v := range snap {
			x.cuts[a.ID][k] = v
		}
		x.cl.Unlock()
	}
}

// exactlyOnceCheck: the program keeps seen/<id> and last/<split> entries inside the keyed state itself,
// so a duplicate application or a per-(split,key) reordering is visible from the state the handler is given.
func exactlyOnceCheck(h *ophar.Handler, key []byte, pl ophar.Payload, sh ophar.KeyShadow) (string, string) {
	if sh != nil {
		if _, dup := sh["seen"][pl.ID]; dup {
			return "record-applied-twice", fmt.Sprintf("keyed event %s of key %q reaches the handler although the state of that key already holds its effect", pl.ID, key)
		}
	}
	p := strings.Split(pl.ID, "/")
	if len(p) == 3 && sh != nil {
		off, _ := strconv.Atoi(p[1])
		if last, ok := sh["last"][p[0]]; ok {
			if lo, _ := strconv.Atoi(string(last)); lo > off || (lo == off && p[2] == "0") {
				return "per-split-key-order", fmt.Sprintf("keyed event %s of key %q reaches the handler after offset %d of the same split and key", pl.ID, key, lo)
			}
		}
	}
	return "", ""
}

func (x *run) close() {
	if n := len(x.cl.RPCPanics()); n > 0 {
		x.c.Feat("request_handler_panics_recovered", int64(n))
	}
	x.cl.StopAll()
	vhook.SetTuning(nil)
}

// start brings up the job and the workers and waits until every split has a reader.
func (x *run) start(extraWorkers int) {
	if x.o.workers > x.o.splits && x.r.Intn(2) == 0 {
		// more runners than splits: the AssignSplits call to one runner that gets nothing fails once (a transient RPC
		// error that costs nothing); the other runners' assignments must be unaffected, each split keeps ONE reader
		var once sync.Once
		x.cl.FailAssign = func(node string, splits int) (err error) {
			if splits == 0 {
				once.Do(func() {
					err = fmt.Errorf("verif: transient transport error")
					x.c.Feat("empty_assignment_rpc_failures", 1)
				})
			}
			return err
		}
	}
	if err := x.cl.StartJob(); err != nil {
		x.c.Fail("job-start-error", x.wit(), "jobs.New: %v", err)
	}
	for i := 0; i < x.o.workers+extraWorkers; i++ {
		x.cl.AddWorker()
	}
	x.waitAssigned(1)
}

// waitAssigned waits until the gen-th splitter incarnation has assigned every split (watchdog → inconclusive).
func (x *run) waitAssigned(gen int) {
	deadline := time.Now().Add(cluster.Watchdog)
	for {
		n := 0
		for _, a := range x.src.Assignments() {
			if a.Splitter >= gen {
				n++
			}
		}
		if n >= x.o.splits-x.src.HeldLate() {
			return
		}
		if time.Now().After(deadline) {
			errs := lastDeployErrors(x.cl.Deploys(), 3)
			for _, e := range errs {
				// a live worker whose Deploy handler panics cannot be recovered, however often the job retries
				if strings.Contains(e, "request handler panicked") {
					x.c.Fail("recovery-deploy-panic", x.wit(), "the job keeps deploying (%d Deploy calls) and never gets to assign the splits: the Deploy handler of a live worker panics: %v", len(x.cl.Deploys()), errs)
				}
			}
			x.c.Inconclusive("splits were not assigned within the watchdog (deploys: %v, last deploy errors: %v, job errors: %v; goroutines: %s)", len(x.cl.Deploys()), errs, x.cl.JobErrors(), lib.BlockedSummary())
		}
		time.Sleep(200 * time.Microsecond)
	}
}

func (x *run) waitCaughtUp() {
	deadline := time.Now().Add(cluster.Watchdog)
	for !x.src.CaughtUp(func(r *cluster.VReader) bool { return x.cl.ReaderLive(r) }) {
		if time.Now().After(deadline) {
			x.c.Inconclusive("readers did not reach the limit within the watchdog (job errors: %v, edge errors: %v; goroutines: %s)", x.cl.JobErrors(), x.cl.EdgeErrors(), lib.BlockedSummary())
		}
		time.Sleep(200 * time.Microsecond)
	}
}

// checkpoint triggers the job's checkpoint ticker and waits for the publication of a new snapshot.
// Returns nil when nothing was published within the bound (the caller decides what that means).
func (x *run) checkpoint(wait time.Duration) *snapshotpb.JobCheckpoint {
	before := len(x.cl.PublishedSnapshots())
	startsBefore := len(x.cl.StartCheckpoints())
	deadline := time.Now().Add(wait)
	var wantID uint64
	var lastTick time.Time
	logged := false
	for time.Now().Before(deadline) {
		// The tick starts a checkpoint unless an earlier one is still pending (the job then retries later), and a
		// checkpoint that was started on an assembly the job then abandons is discarded: tick whenever the job has
		// no checkpoint in progress, and wait for the publication of an id our ticks started.
		for _, s := range x.cl.StartCheckpoints()[startsBefore:] {
			if !s.Dead && (wantID == 0 || s.ID < wantID) {
				wantID = s.ID
			}
		}
		if wantID != 0 {
			pubs := x.cl.PublishedSnapshots()
			for _, p := range pubs[min(before, len(pubs)):] {
				snap, err := x.cl.ReadSnapshot(p)
				if err != nil || snap.Id < wantID {
					continue // superseded meanwhile, or the late publication of an earlier checkpoint
				}
				x.logf("job checkpoint %d published", snap.Id)
				return snap
			}
		}
		if time.Since(lastTick) > 2*time.Millisecond && x.cl.Job.VerifPendingSnapshot() == nil {
			if x.cl.TickCheckpoint() {
				if !logged {
					x.logf("checkpoint tick")
					logged = true
				}
				lastTick = time.Now()
			}
		}
		time.Sleep(200 * time.Microsecond)
	}
	return nil
}

// expectedIDs is the set of keyed events the input produces.
func (x *run) expectedIDs(limit int) map[string][]byte {
	out := map[string][]byte{}
	for s := 0; s < x.o.splits; s++ {
		for o := 0; o < min(limit, x.o.perSplit); o++ {
			for j := 0; j < x.cl.Cfg.Fanout(s, o); j++ {
				out[fmt.Sprintf("%d/%d/%d", s, o, j)] = x.cl.KeyOf(s, o, j)
			}
		}
	}
	return out
}

// checkHandlers collects assertion failures of every worker's handler.
func (x *run) checkHandlers() {
	for _, w := range x.cl.Workers() {
		if ps := w.H.Problems(); len(ps) > 0 {
			p := ps[0]
			x.c.Fail(p.Kind, x.wit("operator", w.OpID), "operator %s: %s", w.OpID, p.Detail)
		}
	}
}

// checkFinalState: every keyed event of the input applied exactly once (seen entries in the final shadow).
func (x *run) checkFinalState(limit int) {
	want := x.expectedIDs(limit)
	shadow := x.cl.Store.Snapshot()
	got := map[string]string{}
	for k, ks := range shadow {
		for id := range ks["seen"] {
			if prev, dup := got[id]; dup {
				x.c.Fail("record-under-two-keys", x.wit(), "keyed event %s is recorded in the state of keys %q and %q", id, prev, k)
			}
			got[id] = k
		}
	}
	var missing, extra []string
	for id, key := range want {
		if k, ok := got[id]; !ok {
			missing = append(missing, id)
		} else if k != string(key) {
			x.c.Fail("record-under-wrong-key", x.wit(), "keyed event %s is recorded under key %q, it was keyed %q", id, k, key)
		}
	}
	for id := range got {
		if _, ok := want[id]; !ok {
			extra = append(extra, id)
		}
	}
	sort.Strings(missing)
	sort.Strings(extra)
	if len(missing) > 0 {
		x.c.Fail("record-lost", x.wit(), "%d keyed events of the input never took effect on state (after the drain checkpoint was published): %v", len(missing), firstN(missing, 12))
	}
	if len(extra) > 0 {
		x.c.Fail("record-invented", x.wit(), "state holds keyed events the input does not produce: %v", firstN(extra, 12))
	}
	x.c.Feat("keyed_events_applied", int64(len(got)))
}

func firstN(xs []string, n int) []string {
	if len(xs) > n {
		return xs[:n]
	}
	return xs
}

func lastDeployErrors(ds []cluster.DeployRec, n int) []string {
	var out []string
	for i := len(ds) - 1; i >= 0 && len(out) < n; i-- {
		if ds[i].Err != nil {
			out = append(out, fmt.Sprintf("round %d %s %s: %v", ds[i].Round, ds[i].Kind, ds[i].Node, ds[i].Err))
		}
	}
	return out
}
