package main

import (
	"log/slog"

	"verif/lib"
	"verif/ophar"
)

func n(q, t int) func(string) int {
	return func(tier string) int {
		if tier == "thorough" {
			return t
		}
		return q
	}
}

var clAssume = []string{
	"the whole job runs in one process without HTTP: adapters call the same Handle* methods the connect handlers call (one HandleEvent per event of a batch); the transport itself is out of reach",
	"runs are ended by drain-by-checkpoint: once every split is read to its end one more checkpoint is taken; when it is published every record has been applied (or the oracles show a lost record)",
	"wall clock only paces real timers/tickers and feeds watchdogs (inconclusive)",
	"exactly-once and per-split order are recorded inside the keyed state itself (seen/<id>, last/<split>) and asserted by the harness handler against the state it is given",
}

func main() {
	slog.SetDefault(ophar.QuietLog)
	lib.Main(
		&lib.Prop{ID: "C04", Part: "delivery", Level: "exploration", NCases: n(40, 1500), Run: c04Delivery, Assumptions: clAssume,
			Rule: "failure-free runs of a complete job: harness source with 1..6 splits x 20..80 records, seeded read chunking 0..5 incl. empty reads, 0/1/2 keyed events per record, 1..4 workers, key groups {7,256,1000,65535}, batching MaxSize {1,2,3,8,32} x MaxDelay {1,2,5} ms for the three batchers involved (key-by fetcher, per-operator batchers, operator batcher), seeded handler latencies, periodic checkpoints as noise, drain by checkpoint; oracles: every keyed event reaches exactly one handler exactly once and it is the handler of the operator owning its key group; per (split,key) offsets strictly increase (asserted from last/<split> entries in the supplied state); records of one reader arrive at each operator in read order; no watermark or barrier overtakes a record read before it (timestamps per reader strictly increasing; reported split positions vs barrier position in every operator stream); final state holds every keyed event exactly once; non-trivial = always; distinct by options hash"},
		&lib.Prop{ID: "C16", Part: "cut", Level: "exploration", NCases: n(30, 1200), Run: c16Cut, Assumptions: clAssume,
			Rule: "the same job with reading gated at seeded offsets so that checkpoints are triggered with an idle pipeline, mid flow, with key-by batches pending and back to back; for every checkpoint N, runner r and split i: in every operator stream no record of split i with offset < reported position arrives after r's barrier N and none with offset >= position before it; every splitter incarnation assigns every split exactly once; final state = every keyed event once; non-trivial = >=1 intermediate checkpoint; distinct by (options, positions)"},
		&lib.Prop{ID: "C16", Part: "bulk-reads", Level: "exploration", NCases: n(8, 150), Run: c16Bulk, Assumptions: clAssume,
			Rule: "1..2 runners, 1..2 splits of 1500..4000 records, a third of the reads return 300..2500 records at once (the reader's cursor is past the whole read when ReadEvents returns); checkpoints are requested while the records of such reads are flowing (whenever the operators' streams grew by a seeded amount); barrier-cut oracle of part cut on every stream (no record below the reported position after the barrier, none at or above it before), every keyed event exactly once in the final state; non-trivial = >=1 checkpoint during the flow and >=1 read of more than 512 records; distinct by (options, checkpoints)"},
		&lib.Prop{ID: "C13", Part: "retention-order", Level: "exploration", NCases: n(15, 400), Run: c13RetentionOrder, Assumptions: clAssume,
			Rule: "a complete job with 1..3 workers; 1..3 episodes in which the next retention update is held at one operator before it is applied while 1..3 further checkpoints complete and are published, then released; at every operator the retention updates are applied in non-decreasing order of the newest checkpoint they name; non-trivial = >=2 updates applied; distinct by (options, episodes)"},
		&lib.Prop{ID: "C11", Part: "runner-watermarks", Level: "exploration", NCases: n(30, 1200), Run: c11Runner, Assumptions: clAssume,
			Rule: "the same job with event timestamps increasing / reversed / random / constant / extreme (1970+1ns .. ~2255), 1..4 runners, watermark interval tuned to 1..5 ms; per operator stream and sender: watermarks never decrease, watermark >= largest timestamp delivered earlier in that stream - 1 ns (follows closely), watermark < largest timestamp that runner had keyed when it was delivered (never reaches); non-trivial = always; distinct by options"},
		&lib.Prop{ID: "C01", Part: "full-restart", Level: "fault_enumeration", NCases: n(25, 800), Run: c01FullRestart,
			Assumptions: append([]string{"family F: every worker of the assembly is replaced by a fresh one (new process); survivors redeployed in place are family P (see known findings)", "the job notices dead members through heartbeat expiry (FrozenClock advanced by 6 s) and the re-registration of the replacements"}, clAssume...),
			Rule:        "1..3 crashes per run at seeded logical points: idle right after a published checkpoint / mid flow after a checkpoint with post-cut records applied / mid flow with no checkpoint in the epoch / during a checkpoint after the j-th of the 2W acknowledgements reached the job (the others held, then dropped with the dying nodes), every j; all workers killed and replaced, job redeploys from its latest completed checkpoint, reading resumes from the checkpointed cursors; oracles: at every deploy round the shadow of every key is reset to the cut of the checkpoint named in the Deploy requests (frozen at the operators' acknowledgements) and every handler invocation's supplied state must equal it (no record lost, none applied twice: seen/<id> and last/<split> entries), final state = every keyed event of the input exactly once, barrier-cut oracle on every stream, deploys only to live nodes / exactly W members / one checkpoint per round, and bounded progress: a checkpoint completes again after the recovery or a stuck-state witness is shown; non-trivial = always; distinct by (options, log)"},
		&lib.Prop{ID: "C15", Part: "kf-partial-redeploy", Level: "fault_enumeration", NCases: n(1, 1), Run: kfPartialRedeploy,
			Rule: "deterministic reproducer of the known finding at job level (family P): one of two workers dies with an idle pipeline, the survivor is redeployed in place with a replacement, GC runs, reading continues; the handler-side state oracle / final-state check show the loss"},
		&lib.Prop{ID: "C12", Part: "job-redeploy-acks", Level: "exploration", NCases: n(300, 20000), Run: c12JobAcks,
			Assumptions: []string{"the real jobs.Job and snapshot store with fake operators and source runners (the scripts of C15's fast tier)", "only C12's job-level rule is judged here; the other oracles of those scripts belong to C15"},
			Rule:        "scripts of register / deregister / kill / heartbeat / expiry / checkpoint tick / partial acknowledgements with slow Deploy calls: while the job is deploying a new assembly (a Deploy call is parked, so Job.start is past the point where it abandons the previous assembly's checkpoint), the surviving members of the PREVIOUS assembly acknowledge the checkpoint that was in progress when it failed; that checkpoint must never be published; non-trivial = >=1 Deploy call; distinct by script hash"},
		&lib.Prop{ID: "C15", Part: "assembly-fake", Level: "fault_enumeration", NCases: n(200, 20000), Run: c15Fake,
			Assumptions: []string{"fast tier: the real jobs.Job (registry, liveness, assembly, snapshot store, FrozenClock) with fake operators and source runners that answer Deploy / StartCheckpoint and acknowledge on request", "'live' is what the job can know: registered and last heartbeat within the 5 s deadline on the job's clock at the moment of the call", "liveness is restated as bounded progress: after faults stop, 20 rounds of (6 s pass, heartbeats, checkpoint tick, acknowledgements) must publish a checkpoint; no progress is a violation, reported with the stuck-state witness when there is one"},
			Rule:        "scripts of 10..50 seeded steps over W (1..3) workers plus 0..2 standbys per kind: register / deregister / kill (stops answering and heartbeating) / 3 s pass with heartbeats / 6 s pass without / checkpoint tick / all or half of the members acknowledge / next deploy to a node fails; after every step the job settles and every Deploy call seen so far must have gone to a node that was registered and live at that moment, naming exactly W distinct operators; then faults stop, fresh nodes fill up to W live of each kind, and checkpointing must resume within the bound; non-trivial = >=1 Deploy call; distinct by script hash"},
		&lib.Prop{ID: "C15", Part: "real-recovery", Level: "fault_enumeration", NCases: n(12, 400), Run: c01FullRestart,
			Assumptions: append([]string{"slow tier: real workers; the same scenarios as C01/full-restart, judged for C15: deploys only to live nodes, exactly W members, one checkpoint per deploy round, checkpointing resumes after the recovery (or stuck-state witness), replacement workers keep processing to the end of the input"}, clAssume...),
			Rule:        "see C01/full-restart (crash points incl. during a checkpoint after the j-th acknowledgement); C15 oracles: deployOracle + bounded progress (a checkpoint is published after the last recovery) + every record of the input processed by the recovered assembly"},
		&lib.Prop{ID: "C14", Part: "after-scale-down", Level: "exploration", NCases: n(10, 200), Run: c14AfterScaleDown,
			Assumptions: append([]string{"local-directory storage (the artifact code copies files)"}, clAssume...),
			Rule:        "directed variant of part savepoint: 2..4 workers with a 300-byte memtable (every operator writes several table files before the first checkpoint, few compactions), the whole job is restarted with fewer workers so that one operator inherits the tables of several former operators (equal file names in different directories), the savepoint is requested while those tables are still referenced, then everything is killed, working storage and job checkpoints are deleted and a new job starts from the savepoint URI; same oracles as part savepoint (state supplied to every handler call = shadow cut of the savepoint's checkpoint, every split resumes from its recorded position, final state = every keyed event once)"},
		&lib.Prop{ID: "C14", Part: "savepoint", Level: "exploration", NCases: n(20, 600), Run: c14Savepoint,
			Assumptions: append([]string{"local-directory storage (the artifact code copies files)", "restore = a new job created with SavepointURI after every worker and the job were killed and the working storage and the job's checkpoints directory were deleted"}, clAssume...),
			Rule:        "a job builds state (memory only or flushed, by dkv tuning; timers pending), 0..2 periodic checkpoints, then a savepoint is requested when idle / mid flow / while a periodic checkpoint is in progress with its acknowledgements held (once or twice); the job continues (more records, more checkpoints, retention); everything is killed and ALL working storage deleted; a new job starts from the savepoint URI with the same or a different worker count; oracles: the request folds into the pending checkpoint (same id, no extra StartCheckpoint), first phase undisturbed (handler-side state oracle), after the restore the shadow is the cut of the savepoint's checkpoint and every handler invocation's supplied state must equal it, every split resumes from the recorded position, pending timers fire, every keyed event of the input takes effect exactly once; non-trivial = always; distinct by (options, mode, positions)"},
	)
}
