// POC: parse a small proto3 subset and drive protoc-gen-go / protoc-gen-connect-go.
package main

import (
	"bytes"
	"fmt"
	"os"
	"os/exec"
	"path/filepath"
	"strings"
	"unicode"

	"google.golang.org/protobuf/proto"
	"google.golang.org/protobuf/reflect/protodesc"
	"google.golang.org/protobuf/reflect/protoreflect"
	"google.golang.org/protobuf/reflect/protoregistry"
	"google.golang.org/protobuf/types/descriptorpb"
	"google.golang.org/protobuf/types/pluginpb"
	_ "google.golang.org/protobuf/types/known/timestamppb"
	_ "reduction.dev/reduction-protocol/handlerpb"
	_ "reduction.dev/reduction-protocol/jobconfigpb"
)

type tok struct{ s string }

func lex(src string) []string {
	var out []string
	i := 0
	for i < len(src) {
		c := src[i]
		switch {
		case c == '/' && i+1 < len(src) && src[i+1] == '/':
			for i < len(src) && src[i] != '\n' {
				i++
			}
		case c == '/' && i+1 < len(src) && src[i+1] == '*':
			j := strings.Index(src[i+2:], "*/")
			i += j + 4
		case unicode.IsSpace(rune(c)):
			i++
		case c == '"':
			j := i + 1
			for src[j] != '"' {
				j++
			}
			out = append(out, src[i:j+1])
			i = j + 1
		case unicode.IsLetter(rune(c)) || c == '_' || unicode.IsDigit(rune(c)) || c == '.':
			j := i
			for j < len(src) && (unicode.IsLetter(rune(src[j])) || src[j] == '_' || unicode.IsDigit(rune(src[j])) || src[j] == '.') {
				j++
			}
			out = append(out, src[i:j])
			i = j
		default:
			out = append(out, string(c))
			i++
		}
	}
	return out
}

type parser struct {
	t []string
	p int
}

func (p *parser) next() string { s := p.t[p.p]; p.p++; return s }
func (p *parser) peek() string { return p.t[p.p] }
func (p *parser) expect(s string) {
	if g := p.next(); g != s {
		panic(fmt.Sprintf("expected %q got %q at %d", s, g, p.p))
	}
}

var scalars = map[string]descriptorpb.FieldDescriptorProto_Type{
	"double": descriptorpb.FieldDescriptorProto_TYPE_DOUBLE, "float": descriptorpb.FieldDescriptorProto_TYPE_FLOAT,
	"int32": descriptorpb.FieldDescriptorProto_TYPE_INT32, "int64": descriptorpb.FieldDescriptorProto_TYPE_INT64,
	"uint32": descriptorpb.FieldDescriptorProto_TYPE_UINT32, "uint64": descriptorpb.FieldDescriptorProto_TYPE_UINT64,
	"bool": descriptorpb.FieldDescriptorProto_TYPE_BOOL, "string": descriptorpb.FieldDescriptorProto_TYPE_STRING,
	"bytes": descriptorpb.FieldDescriptorProto_TYPE_BYTES,
}

func unq(s string) string { return strings.Trim(s, `"`) }

func atoi(s string) int32 { var n int32; fmt.Sscanf(s, "%d", &n); return n }

func (p *parser) field(msg *descriptorpb.DescriptorProto, oneof int32) {
	label := descriptorpb.FieldDescriptorProto_LABEL_OPTIONAL
	if p.peek() == "repeated" {
		p.next()
		label = descriptorpb.FieldDescriptorProto_LABEL_REPEATED
	}
	typ := p.next()
	name := p.next()
	p.expect("=")
	num := atoi(p.next())
	p.expect(";")
	f := &descriptorpb.FieldDescriptorProto{Name: proto.String(name), Number: proto.Int32(num), Label: label.Enum()}
	if st, ok := scalars[typ]; ok {
		f.Type = st.Enum()
	} else {
		f.TypeName = proto.String(typ) // resolved later
	}
	if oneof >= 0 {
		f.OneofIndex = proto.Int32(oneof)
	}
	msg.Field = append(msg.Field, f)
}

func (p *parser) message() *descriptorpb.DescriptorProto {
	m := &descriptorpb.DescriptorProto{Name: proto.String(p.next())}
	p.expect("{")
	for p.peek() != "}" {
		switch p.peek() {
		case "oneof":
			p.next()
			m.OneofDecl = append(m.OneofDecl, &descriptorpb.OneofDescriptorProto{Name: proto.String(p.next())})
			p.expect("{")
			for p.peek() != "}" {
				p.field(m, int32(len(m.OneofDecl)-1))
			}
			p.expect("}")
		case "message":
			p.next()
			m.NestedType = append(m.NestedType, p.message())
		default:
			p.field(m, -1)
		}
	}
	p.expect("}")
	return m
}

func parse(path, src string) *descriptorpb.FileDescriptorProto {
	p := &parser{t: lex(src)}
	fd := &descriptorpb.FileDescriptorProto{Name: proto.String(path), Options: &descriptorpb.FileOptions{}}
	for p.p < len(p.t) {
		switch k := p.next(); k {
		case "syntax":
			p.expect("=")
			fd.Syntax = proto.String(unq(p.next()))
			p.expect(";")
		case "import":
			fd.Dependency = append(fd.Dependency, unq(p.next()))
			p.expect(";")
		case "package":
			fd.Package = proto.String(p.next())
			p.expect(";")
		case "option":
			n := p.next()
			p.expect("=")
			v := unq(p.next())
			p.expect(";")
			if n == "go_package" {
				fd.Options.GoPackage = proto.String(v)
			}
		case "message":
			fd.MessageType = append(fd.MessageType, p.message())
		case "service":
			s := &descriptorpb.ServiceDescriptorProto{Name: proto.String(p.next())}
			p.expect("{")
			for p.peek() != "}" {
				p.expect("rpc")
				m := &descriptorpb.MethodDescriptorProto{Name: proto.String(p.next())}
				p.expect("(")
				m.InputType = proto.String(p.next())
				p.expect(")")
				p.expect("returns")
				p.expect("(")
				m.OutputType = proto.String(p.next())
				p.expect(")")
				p.expect(";")
				s.Method = append(s.Method, m)
			}
			p.expect("}")
			fd.Service = append(fd.Service, s)
		default:
			panic("unexpected " + k)
		}
	}
	return fd
}

func main() {
	root := os.Args[1]
	outDir := os.Args[2]
	files := []string{"proto/snapshotpb/snapshot.proto", "proto/jobpb/job.proto", "proto/workerpb/worker.proto", "proto/e2epb/e2e.proto", "connectors/kafka/kafkapb/kafka.proto", "connectors/kinesis/kinesispb/kinesis.proto"}
	all := map[string]*descriptorpb.FileDescriptorProto{}
	var order []string
	var addDep func(name string)
	addDep = func(name string) {
		if _, ok := all[name]; ok {
			return
		}
		d, err := protoregistry.GlobalFiles.FindFileByPath(name)
		if err != nil {
			panic(name + ": " + err.Error())
		}
		imps := d.Imports()
		for i := 0; i < imps.Len(); i++ {
			addDep(imps.Get(i).Path())
		}
		all[name] = protodesc.ToFileDescriptorProto(d)
		order = append(order, name)
	}
	var parsed []*descriptorpb.FileDescriptorProto
	for _, f := range files {
		b, err := os.ReadFile(filepath.Join(root, f))
		if err != nil {
			panic(err)
		}
		parsed = append(parsed, parse(f, string(b)))
	}
	local := map[string]bool{}
	for _, f := range files {
		local[f] = true
	}
	// symbol table: fully-qualified message names
	syms := map[string]bool{}
	var collect func(prefix string, ms []*descriptorpb.DescriptorProto)
	collect = func(prefix string, ms []*descriptorpb.DescriptorProto) {
		for _, m := range ms {
			syms[prefix+"."+m.GetName()] = true
			collect(prefix+"."+m.GetName(), m.NestedType)
		}
	}
	for _, fd := range parsed {
		for _, d := range fd.Dependency {
			if !local[d] {
				addDep(d)
			}
		}
		collect("."+fd.GetPackage(), fd.MessageType)
	}
	protoregistry.GlobalFiles.RangeFiles(func(d protoreflect.FileDescriptor) bool {
		ms := d.Messages()
		for i := 0; i < ms.Len(); i++ {
			syms["."+string(ms.Get(i).FullName())] = true
		}
		return true
	})
	resolve := func(pkg, scope, name string) string {
		if strings.HasPrefix(name, ".") {
			return name
		}
		// innermost scope outward
		parts := strings.Split(strings.TrimPrefix(scope, "."), ".")
		for i := len(parts); i >= 0; i-- {
			cand := "." + strings.Join(append(append([]string{}, parts[:i]...), name), ".")
			if i == 0 {
				cand = "." + name
			}
			if syms[cand] {
				return cand
			}
		}
		panic("unresolved type " + name + " in " + scope)
	}
	var fix func(scope string, m *descriptorpb.DescriptorProto)
	fix = func(scope string, m *descriptorpb.DescriptorProto) {
		my := scope + "." + m.GetName()
		for _, f := range m.Field {
			if f.TypeName != nil {
				f.TypeName = proto.String(resolve("", my, f.GetTypeName()))
				f.Type = descriptorpb.FieldDescriptorProto_TYPE_MESSAGE.Enum()
			}
		}
		for _, n := range m.NestedType {
			fix(my, n)
		}
	}
	for _, fd := range parsed {
		scope := "." + fd.GetPackage()
		for _, m := range fd.MessageType {
			fix(scope, m)
		}
		for _, s := range fd.Service {
			for _, m := range s.Method {
				m.InputType = proto.String(resolve("", scope, m.GetInputType()))
				m.OutputType = proto.String(resolve("", scope, m.GetOutputType()))
			}
		}
		all[fd.GetName()] = fd
		order = append(order, fd.GetName())
	}
	req := &pluginpb.CodeGeneratorRequest{FileToGenerate: files, Parameter: proto.String("paths=source_relative")}
	for _, n := range order {
		req.ProtoFile = append(req.ProtoFile, all[n])
	}
	in, _ := proto.Marshal(req)
	for _, plugin := range os.Args[3:] {
		cmd := exec.Command(plugin)
		cmd.Stdin = bytes.NewReader(in)
		var out bytes.Buffer
		cmd.Stdout = &out
		cmd.Stderr = os.Stderr
		if err := cmd.Run(); err != nil {
			panic(err)
		}
		var resp pluginpb.CodeGeneratorResponse
		if err := proto.Unmarshal(out.Bytes(), &resp); err != nil {
			panic(err)
		}
		if resp.Error != nil {
			panic(resp.GetError())
		}
		for _, f := range resp.File {
			dst := filepath.Join(outDir, f.GetName())
			os.MkdirAll(filepath.Dir(dst), 0o755)
			os.WriteFile(dst, []byte(f.GetContent()), 0o644)
			_ = dst
		}
	}
}
