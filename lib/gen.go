package lib

import (
	"bytes"
	"fmt"
	"math/rand"
	"sort"
)

// M1 — byte-string generators. Keys come from a small alphabet chosen to provoke aliasing:
// prefixes of one another, embedded 0x00, bytes >= 0x80, invalid UTF-8, the empty string.
var keyAtoms = [][]byte{
	{}, {0x00}, {0x00, 0x00}, {0x01}, []byte("a"), []byte("a\x00"), []byte("aa"), []byte("ab"), []byte("b"),
	{0x7f}, {0x80}, {0xc3, 0x28}, {0xff}, {0xff, 0xff}, {0xe2, 0x82}, []byte("k"),
}

// Key returns a key built from 0..maxAtoms atoms.
func Key(r *rand.Rand, maxAtoms int) []byte {
	n := r.Intn(maxAtoms + 1)
	var b []byte
	for i := 0; i < n; i++ {
		b = append(b, keyAtoms[r.Intn(len(keyAtoms))]...)
	}
	if b == nil {
		b = []byte{}
	}
	return b
}

// KeyUniverse returns n distinct keys (sorted), always including some prefix-related ones.
func KeyUniverse(r *rand.Rand, n, maxAtoms int) [][]byte {
	seen := map[string]bool{}
	var out [][]byte
	for tries := 0; len(out) < n && tries < n*50; tries++ {
		k := Key(r, maxAtoms)
		if tries < 2 && maxAtoms > 0 { // favour the empty and one-atom keys
			k = Key(r, 1)
		}
		if seen[string(k)] {
			// derive a relative: extend by an atom
			k = append(append([]byte{}, k...), keyAtoms[1+r.Intn(len(keyAtoms)-1)]...)
			if seen[string(k)] {
				continue
			}
		}
		seen[string(k)] = true
		out = append(out, k)
	}
	sort.Slice(out, func(i, j int) bool { return bytes.Compare(out[i], out[j]) < 0 })
	return out
}

// NonEmptyKeyUniverse is KeyUniverse without the empty key.
func NonEmptyKeyUniverse(r *rand.Rand, n, maxAtoms int) [][]byte {
	u := KeyUniverse(r, n+1, maxAtoms)
	var out [][]byte
	for _, k := range u {
		if len(k) > 0 && len(out) < n {
			out = append(out, k)
		}
	}
	return out
}

// Prefixes returns every prefix of every key (deduplicated) plus a few absent ones.
func Prefixes(keys [][]byte) [][]byte {
	seen := map[string]bool{}
	var out [][]byte
	add := func(p []byte) {
		if !seen[string(p)] {
			seen[string(p)] = true
			out = append(out, append([]byte{}, p...))
		}
	}
	add(nil)
	for _, k := range keys {
		for i := 0; i <= len(k); i++ {
			add(k[:i])
		}
	}
	add([]byte{0x02})
	add([]byte("zz"))
	add([]byte{0xff, 0xff, 0xff})
	sort.Slice(out, func(i, j int) bool { return bytes.Compare(out[i], out[j]) < 0 })
	return out
}

// ValueGen produces unique values "<writer>:<counter>" padded to a seeded length, so a read
// identifies the write it observed. Occasionally the empty value.
type ValueGen struct {
	Writer string
	N      int
}

func (g *ValueGen) Next(r *rand.Rand, maxPad int) []byte {
	g.N++
	v := []byte(fmt.Sprintf("%s:%d", g.Writer, g.N))
	if maxPad > 0 {
		pad := r.Intn(maxPad + 1)
		if r.Intn(8) == 0 {
			pad = maxPad
		}
		for i := 0; i < pad; i++ {
			v = append(v, byte('.'+i%3))
		}
	}
	return v
}

// Q renders bytes for witnesses.
func Q(b []byte) string { return fmt.Sprintf("%q", b) }

// Pick returns a random element.
func Pick[T any](r *rand.Rand, xs []T) T { return xs[r.Intn(len(xs))] }

// Perm returns the k-th permutation source: a seeded shuffle copy.
func Shuffled[T any](r *rand.Rand, xs []T) []T {
	out := append([]T{}, xs...)
	r.Shuffle(len(out), func(i, j int) { out[i], out[j] = out[j], out[i] })
	return out
}
