package lib

import (
	"bufio"
	"encoding/json"
	"os"
	"strings"
	"sync"
)

var (
	knownOnce sync.Once
	knownIDs  = map[string]bool{}
)

// Known reports whether a finding id is listed with status "known" in known_findings.jsonl
// ($VERIF_KNOWN, default /verif/known_findings.jsonl). Generators use it as the exclusion predicate
// of DESIGN §7: while a finding is listed, random exploration stays out of its trigger region;
// when the entry is removed (defect fixed) the region is explored again. Read-only.
func Known(id string) bool {
	knownOnce.Do(func() {
		p := os.Getenv("VERIF_KNOWN")
		if p == "" {
			p = "/verif/known_findings.jsonl"
		}
		f, err := os.Open(p)
		if err != nil {
			return
		}
		defer f.Close()
		sc := bufio.NewScanner(f)
		sc.Buffer(make([]byte, 1<<20), 1<<20)
		for sc.Scan() {
			line := strings.TrimSpace(sc.Text())
			if line == "" || strings.HasPrefix(line, "#") {
				continue
			}
			var d struct{ Status, ID string }
			if json.Unmarshal([]byte(line), &d) == nil && d.Status == "known" {
				knownIDs[d.ID] = true
			}
		}
	})
	return knownIDs[id]
}
