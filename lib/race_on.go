//go:build race

package lib

// RaceEnabled reports whether the monitor was built with the race detector.
const RaceEnabled = true
