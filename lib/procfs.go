package lib

import "reduction.dev/reduction/dkv/storage"

// ProcFS marks the files of a file system as belonging to one (simulated) operating-system process. The
// repository counts live Table objects per stored file "within this process" (dkv/sst liveTables, keyed by
// (Namespace, URI)); a harness that runs several operators of one job inside one test process would otherwise give
// them a protection real workers do not have: a table file would not be deleted while a NEIGHBOUR's Table object for
// the same URI is alive. With ProcFS the count is per simulated process, as in a deployment.
type ProcFS struct {
	Inner storage.FileSystem
	Proc  any // identity of the simulated process (comparable)
}

type procFile struct {
	storage.File
	proc any
}

// Namespace is looked up by sst.retainFile.
func (f procFile) Namespace() any {
	if in, ok := f.File.(interface{ Namespace() any }); ok {
		return [2]any{f.proc, in.Namespace()}
	}
	return f.proc
}

func (p ProcFS) New(path string) storage.File  { return procFile{p.Inner.New(path), p.Proc} }
func (p ProcFS) Open(path string) storage.File { return procFile{p.Inner.Open(path), p.Proc} }
func (p ProcFS) Copy(src, dst string) error    { return p.Inner.Copy(src, dst) }
