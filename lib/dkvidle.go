package lib

import (
	"time"

	"reduction.dev/reduction/dkv/bg"
)

// DKVIdle waits until no background task of any dkv database of the process is queued or running
// (hook counter of the verif build). The task queues of dkv are process global and a database's
// goroutine runs whichever queued function it receives, possibly another database's: with two active
// databases DB.WaitOnTasks may return while the database's own flush still runs elsewhere, and its
// WaitGroup panics ("reused before previous Wait has returned") when that flush then enqueues the
// compaction. WaitOnTasks is a test helper of the repository with no caller in it; the harness only
// calls it once the whole process is idle, to collect the tasks' error.
func DKVIdle(d time.Duration) bool {
	deadline := time.Now().Add(d)
	for {
		if bg.VerifOutstanding() == 0 {
			return true
		}
		if time.Now().After(deadline) {
			return false
		}
		time.Sleep(100 * time.Microsecond)
	}
}

// WaitDB waits for process-wide idleness and then returns the error of db's tasks.
// idle=false: the watchdog fired (inconclusive for the caller).
func WaitDB(db interface{ WaitOnTasks() error }, d time.Duration) (idle bool, err error) {
	if !DKVIdle(d) {
		return false, nil
	}
	return true, db.WaitOnTasks()
}
