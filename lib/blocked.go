package lib

import (
	"fmt"
	"regexp"
	"runtime"
	"sort"
	"strings"
)

var frameRe = regexp.MustCompile(`(?m)^(\S+)\(.*\)\n\t(\S+):(\d+)`)

// BlockedSummary condenses a dump of all goroutines into "state @ first repository frame: count" lines
// (for the reason string of an inconclusive verdict: what was everybody waiting for when the watchdog fired).
func BlockedSummary() string {
	buf := make([]byte, 4<<20)
	n := runtime.Stack(buf, true)
	counts := map[string]int{}
	for _, g := range strings.Split(string(buf[:n]), "\n\n") {
		head, _, _ := strings.Cut(g, "\n")
		state := head
		if i := strings.Index(head, "["); i >= 0 {
			state = strings.TrimSuffix(head[i+1:], "]:")
			if j := strings.Index(state, ","); j >= 0 {
				state = state[:j]
			}
		}
		where := ""
		for _, m := range frameRe.FindAllStringSubmatch(g, -1) {
			if strings.HasPrefix(m[2], RepoDir()+"/") {
				f := m[1]
				if k := strings.LastIndex(f, "/"); k >= 0 {
					f = f[k+1:]
				}
				where = fmt.Sprintf("%s (%s:%s)", f, strings.TrimPrefix(m[2], RepoDir()+"/"), m[3])
				break
			}
		}
		if where == "" {
			continue
		}
		counts[state+" @ "+where]++
	}
	var out []string
	for k, v := range counts {
		out = append(out, fmt.Sprintf("%dx %s", v, k))
	}
	sort.Strings(out)
	if len(out) > 14 {
		out = out[:14]
	}
	return strings.Join(out, "; ")
}
