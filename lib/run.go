// Package lib is the shared machinery of the runtime monitors (DESIGN §3).
//
// run.go: the case runner. A monitor binary registers properties; every property is a
// deterministic function (seed, tier, case index) -> execution + oracle verdict.
package lib

import (
	"encoding/json"
	"flag"
	"fmt"
	"hash/fnv"
	"math/rand"
	"os"
	"path/filepath"
	"runtime"
	"runtime/debug"
	"sort"
	"strconv"
	"strings"
	"sync"
	"syscall"
	"time"
)

// Prop describes one monitor for one property (a property may have several parts).
type Prop struct {
	ID          string // property id, e.g. C19
	Part        string // name of this part of the property's check, e.g. "ziptree"
	Level       string
	Rule        string
	Assumptions []string
	// NCases returns the fixed number of cases for a tier ("quick" / "thorough").
	NCases func(tier string) int
	// Run executes case c.Index and reports through c.
	Run func(c *Ctx)
}

// Violation is one oracle failure.
type Violation struct {
	Kind    string `json:"kind"`    // stable class, used to match known findings
	Detail  string `json:"detail"`  // human readable: expected vs observed
	Witness any    `json:"witness"` // materialised history / schedule
}

// CaseResult is one JSON line in the shard output.
type CaseResult struct {
	Prop         string           `json:"prop"`
	Part         string           `json:"part"`
	Index        int              `json:"index"`
	Seed         int64            `json:"seed"`
	Tier         string           `json:"tier"`
	Verdict      string           `json:"verdict"` // held | violated | inconclusive
	Violations   []Violation      `json:"violations,omitempty"`
	Inconclusive string           `json:"inconclusive,omitempty"`
	Sig          string           `json:"sig"`
	Nontrivial   bool             `json:"nontrivial"`
	Feats        map[string]int64 `json:"feats,omitempty"`
	Sample       any              `json:"sample,omitempty"`
	Sigs         []string         `json:"sigs,omitempty"` // extra distinct-state signatures seen in the case
	Ms           int64            `json:"ms"`
}

// Ctx is handed to Prop.Run.
type Ctx struct {
	Prop, Part, Tier string
	Seed             int64
	Index            int
	R                *rand.Rand
	Dir              string // private scratch directory of the case (removed afterwards)
	Verbose          bool
	// OnPanic, when set, supplies the history for a violation raised by a panic in repo code.
	OnPanic func() any
	// Exclude, when set, is asked once at the end of a case that recorded violations. A non-empty answer names
	// a listed known finding whose trigger occurred in this execution (DESIGN §12.5): the case then counts as
	// inconclusive (outside the explored family), never as held.
	Exclude func() string

	mu      sync.Mutex
	res     CaseResult
	sigSet  map[string]struct{}
	stopped bool
}

type stopCase struct{}

// Feat adds n to a named coverage counter.
func (c *Ctx) Feat(name string, n int64) {
	c.mu.Lock()
	defer c.mu.Unlock()
	if c.res.Feats == nil {
		c.res.Feats = map[string]int64{}
	}
	c.res.Feats[name] += n
}

// SetSig sets the distinctness signature of the case and whether it is non-trivial.
func (c *Ctx) SetSig(nontrivial bool, parts ...any) {
	c.mu.Lock()
	defer c.mu.Unlock()
	c.res.Sig = HashParts(parts...)
	c.res.Nontrivial = nontrivial
}

// AddSig records an additional distinct state / trace signature observed inside the case.
func (c *Ctx) AddSig(parts ...any) {
	s := HashParts(parts...)
	c.mu.Lock()
	defer c.mu.Unlock()
	if c.sigSet == nil {
		c.sigSet = map[string]struct{}{}
	}
	if _, ok := c.sigSet[s]; ok {
		return
	}
	if len(c.sigSet) < 4096 {
		c.sigSet[s] = struct{}{}
	}
}

// Sample sets the literal description of the case for the evidence file.
func (c *Ctx) Sample(v any) {
	c.mu.Lock()
	defer c.mu.Unlock()
	c.res.Sample = v
}

// Violate records a violation; the case goes on.
func (c *Ctx) Violate(kind string, witness any, format string, args ...any) {
	c.mu.Lock()
	defer c.mu.Unlock()
	if len(c.res.Violations) >= 8 {
		return
	}
	c.res.Violations = append(c.res.Violations, Violation{Kind: kind, Detail: fmt.Sprintf(format, args...), Witness: witness})
}

// Fail records a violation and ends the case.
func (c *Ctx) Fail(kind string, witness any, format string, args ...any) {
	c.Violate(kind, witness, format, args...)
	panic(stopCase{})
}

// Violated reports whether the case already has a violation.
func (c *Ctx) Violated() bool {
	c.mu.Lock()
	defer c.mu.Unlock()
	return len(c.res.Violations) > 0
}

// Inconclusive ends the case without a verdict.
func (c *Ctx) Inconclusive(format string, args ...any) {
	c.mu.Lock()
	c.res.Inconclusive = fmt.Sprintf(format, args...)
	c.mu.Unlock()
	panic(stopCase{})
}

// Logf prints when replaying.
func (c *Ctx) Logf(format string, args ...any) {
	if c.Verbose {
		fmt.Fprintf(os.Stderr, format+"\n", args...)
	}
}

// HashParts gives a short stable hash of the parts.
func HashParts(parts ...any) string {
	h := fnv.New64a()
	for _, p := range parts {
		fmt.Fprintf(h, "%v\x1f", p)
	}
	return fmt.Sprintf("%016x", h.Sum64())
}

// CaseSeed derives the PRNG seed of a case.
func CaseSeed(prop, part string, seed int64, tier string, index int) int64 {
	h := fnv.New64a()
	// the tier is deliberately not part of the seed: quick cases are a prefix of thorough ones
	fmt.Fprintf(h, "%s/%s/%d/%d", prop, part, seed, index)
	return int64(h.Sum64() & 0x7fffffffffffffff)
}

// HarnessBug aborts the process with exit status 3: the monitor itself is wrong.
func HarnessBug(format string, args ...any) {
	fmt.Fprintf(os.Stderr, "HARNESS-BUG: "+format+"\n", args...)
	debug.PrintStack()
	os.Exit(3)
}

type harnessPanic struct{ msg string }

// Must panics with a harness-bug marker when err != nil (for harness-side plumbing only).
func Must(err error) {
	if err != nil {
		panic(harnessPanic{err.Error()})
	}
}

func runCase(p *Prop, seed int64, tier string, index int, scratch string, verbose bool) (res CaseResult) {
	c := &Ctx{Prop: p.ID, Part: p.Part, Tier: tier, Seed: seed, Index: index, Verbose: verbose}
	c.R = rand.New(rand.NewSource(CaseSeed(p.ID, p.Part, seed, tier, index)))
	c.Dir = filepath.Join(scratch, fmt.Sprintf("%s-%s-%d", p.ID, p.Part, index))
	os.MkdirAll(c.Dir, 0o755)
	defer os.RemoveAll(c.Dir)
	c.res = CaseResult{Prop: p.ID, Part: p.Part, Index: index, Seed: seed, Tier: tier}
	t0 := time.Now()
	func() {
		defer func() {
			if r := recover(); r != nil {
				switch v := r.(type) {
				case stopCase:
				case harnessPanic:
					HarnessBug("case %s/%s #%d: %s", p.ID, p.Part, index, v.msg)
				default:
					st := string(debug.Stack())
					// A panic raised while executing reduction code on an input inside the property's
					// domain is a violation (DESIGN §2.4). Panics whose innermost non-runtime frame is
					// harness code are harness bugs.
					if !panicFromRepo(st) {
						HarnessBug("case %s/%s #%d panicked in harness code: %v\n%s", p.ID, p.Part, index, r, st)
					}
					c.mu.Lock()
					var wit any = trimStack(st)
					if c.OnPanic != nil {
						wit = map[string]any{"stack": trimStack(st), "history": c.OnPanic()}
					}
					c.res.Violations = append(c.res.Violations, Violation{Kind: "panic", Detail: fmt.Sprintf("%v", r), Witness: wit})
					c.mu.Unlock()
				}
			}
		}()
		p.Run(c)
	}()
	if c.Exclude != nil && c.Violated() {
		if why := c.Exclude(); why != "" {
			c.mu.Lock()
			c.res.Inconclusive = fmt.Sprintf("%s (suppressed: %s: %s)", why, c.res.Violations[0].Kind, c.res.Violations[0].Detail)
			c.res.Violations = nil
			if c.res.Feats == nil {
				c.res.Feats = map[string]int64{}
			}
			c.res.Feats["cases_outside_family_known_finding"]++
			c.mu.Unlock()
		}
	}
	c.mu.Lock()
	defer c.mu.Unlock()
	res = c.res
	res.Ms = time.Since(t0).Milliseconds()
	for s := range c.sigSet {
		res.Sigs = append(res.Sigs, s)
	}
	sort.Strings(res.Sigs)
	switch {
	case len(res.Violations) > 0:
		res.Verdict = "violated"
	case res.Inconclusive != "":
		res.Verdict = "inconclusive"
	default:
		res.Verdict = "held"
	}
	if res.Sig == "" {
		res.Sig = HashParts(p.ID, p.Part, index)
	}
	return res
}

// panicFromRepo: is the first non-runtime frame below the panic call located in a file of the
// repository under test? (File paths are used, not function names: iterator closures of repo code
// inlined into harness functions carry harness-looking names.)
func panicFromRepo(stack string) bool {
	lines := strings.Split(stack, "\n")
	seenPanic := false
	for i := 0; i+1 < len(lines); i++ {
		l := lines[i]
		if strings.HasPrefix(l, "panic(") {
			seenPanic = true
			continue
		}
		if !seenPanic || strings.HasPrefix(l, "\t") || l == "" {
			continue
		}
		file := strings.TrimSpace(lines[i+1])
		// skip every standard-library frame (runtime, math/big, iter, ...): the question is whose code called into it
		if strings.Contains(file, "/src/runtime/") || strings.HasPrefix(file, runtime.GOROOT()+"/") || strings.Contains(file, "/golang.org/toolchain@") {
			continue
		}
		return strings.HasPrefix(file, RepoDir()+"/")
	}
	return false
}

// RepoDir is the directory of the repository under test.
func RepoDir() string {
	if d := os.Getenv("VERIF_REPO_DIR"); d != "" {
		return d
	}
	return "/repo"
}

func trimStack(st string) string {
	lines := strings.Split(st, "\n")
	if len(lines) > 40 {
		lines = lines[:40]
	}
	return strings.Join(lines, "\n")
}

// Main is the entry point of every monitor binary.
func Main(props ...*Prop) {
	var (
		propF    = flag.String("prop", "", "property id")
		partF    = flag.String("part", "", "restrict to one part")
		tier     = flag.String("tier", "quick", "quick|thorough")
		seed     = flag.Int64("seed", 1, "VERIF_SEED")
		shard    = flag.Int("shard", 0, "shard index")
		nshard   = flag.Int("nshard", 1, "number of shards")
		out      = flag.String("out", "", "output file (JSON lines)")
		scratch  = flag.String("scratch", "", "scratch directory")
		describe = flag.Bool("describe", false, "print property metadata")
		one      = flag.Int("case", -1, "run only this case index (replay), verbosely")
		start    = flag.Int("start", 0, "skip cases of this shard with index < start")
		scale    = flag.Float64("scale", 1, "multiply the number of cases (race builds use < 1)")
	)
	flag.Parse()
	if *describe {
		type d struct {
			ID, Part, Level, Rule string
			Assumptions           []string
			Quick, Thorough       int
		}
		var ds []d
		for _, p := range props {
			ds = append(ds, d{p.ID, p.Part, p.Level, p.Rule, p.Assumptions, p.NCases("quick"), p.NCases("thorough")})
		}
		json.NewEncoder(os.Stdout).Encode(ds)
		return
	}
	if *scratch == "" {
		*scratch = fmt.Sprintf("/var/tmp/verif.%d", os.Getpid())
		defer os.RemoveAll(*scratch)
	}
	os.MkdirAll(*scratch, 0o755)
	var w *os.File = os.Stdout
	if *out != "" {
		f, err := os.OpenFile(*out, os.O_CREATE|os.O_WRONLY|os.O_APPEND, 0o644)
		if err != nil {
			HarnessBug("open out: %v", err)
		}
		w = f
		defer f.Close()
	}
	enc := json.NewEncoder(w)
	ran := 0
	for _, p := range props {
		if p.ID != *propF || (*partF != "" && p.Part != *partF) {
			continue
		}
		n := p.NCases(*tier)
		if *scale != 1 {
			n = int(float64(n)**scale + 0.999)
			if n < 1 {
				n = 1
			}
		}
		for i := 0; i < n; i++ {
			if *one >= 0 {
				if i != *one {
					continue
				}
			} else if i%*nshard != *shard || i < *start {
				continue
			}
			if *out != "" {
				// descriptor on disk before the case starts: a dying process leaves a witness
				cur, _ := json.Marshal(map[string]any{"prop": p.ID, "part": p.Part, "seed": *seed, "tier": *tier, "index": i})
				os.WriteFile(*out+".cur.tmp", cur, 0o644)
				os.Rename(*out+".cur.tmp", *out+".cur")
			}
			res := runCase(p, *seed, *tier, i, *scratch, *one >= 0)
			enc.Encode(res)
			ran++
			// A race-detector build never gives shadow memory back (dkvmon: ~20 MB per case): when the process has
			// grown past the limit it stops here and the driver continues the shard in a fresh process.
			if *out != "" && *one < 0 && (rssMB() > maxRSSMB() || fdCount() > maxFDs()) {
				os.Remove(*out + ".cur")
				os.WriteFile(*out+".next", []byte(strconv.Itoa(i+1)), 0o644)
				return
			}
		}
		if *out != "" {
			os.Remove(*out + ".cur")
			os.WriteFile(*out+".done."+p.Part, []byte("ok"), 0o644)
		}
	}
	if ran == 0 && *one >= 0 {
		HarnessBug("no such case")
	}
}

func rssMB() int {
	b, err := os.ReadFile("/proc/self/statm")
	if err != nil {
		return 0
	}
	f := strings.Fields(string(b))
	if len(f) < 2 {
		return 0
	}
	pages, _ := strconv.Atoi(f[1])
	return pages * os.Getpagesize() >> 20
}

// fdCount: open file descriptors of this process. Table files of the local file system stay open for the life of
// their object and pinned (dead-process) objects are never collected, so a long shard runs into EMFILE
// ("fork/exec /usr/bin/mkdir: too many open files", then empty files and EOF errors everywhere).
func fdCount() int {
	es, err := os.ReadDir("/proc/self/fd")
	if err != nil {
		return 0
	}
	return len(es)
}

func maxFDs() int {
	var lim syscall.Rlimit
	if syscall.Getrlimit(syscall.RLIMIT_NOFILE, &lim) == nil && lim.Cur > 64 && lim.Cur < 1<<20 {
		return int(lim.Cur) / 3
	}
	return 300
}

func maxRSSMB() int {
	if v, err := strconv.Atoi(os.Getenv("VERIF_MAX_RSS_MB")); err == nil && v > 0 {
		return v
	}
	return 1500
}

// GCSettle forces collection rounds and waits for the cleanup queue to drain (sentinel cleanups):
// models "the previous process is gone, none of its table cleanups is still pending".
func GCSettle() {
	for round := 0; round < 4; round++ {
		// several sentinels per round: cleanups are queued per P, a single sentinel could overtake older entries
		var dones []chan struct{}
		for i := 0; i < 8; i++ {
			done := make(chan struct{})
			obj := new([16]byte)
			runtime.AddCleanup(obj, func(ch chan struct{}) { close(ch) }, done)
			obj = nil
			dones = append(dones, done)
		}
		runtime.GC()
		for _, done := range dones {
			select {
			case <-done:
			case <-time.After(2 * time.Second):
			}
		}
		time.Sleep(300 * time.Microsecond)
	}
}
