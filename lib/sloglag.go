package lib

import (
	"context"
	"log/slog"
	"math/rand"
	"runtime"
	"sync"
	"sync/atomic"
	"time"
)

// LagLogHandler is a slog.Handler that discards every record but takes its time: a seeded fraction of the
// log calls yields the processor several times or sleeps for some microseconds. A log call is a point where real
// code is delayed by I/O (a slow log sink); code that is only correct when log calls return at once is not correct.
// Every level is enabled, so Debug lines are reached too.
type LagLogHandler struct {
	mu    sync.Mutex
	r     *rand.Rand
	p     int // percentage of calls that lag
	LongP int // percentage of calls that lag for 20..80 ms (a sink that stalls); 0 = never
	Calls atomic.Int64
	Lags  atomic.Int64
}

func NewLagLogHandler(seed int64, percent int) *LagLogHandler {
	return &LagLogHandler{r: rand.New(rand.NewSource(seed)), p: percent}
}

func (h *LagLogHandler) Enabled(context.Context, slog.Level) bool { return true }
func (h *LagLogHandler) WithAttrs([]slog.Attr) slog.Handler       { return h }
func (h *LagLogHandler) WithGroup(string) slog.Handler            { return h }
func (h *LagLogHandler) Handle(context.Context, slog.Record) error {
	h.Calls.Add(1)
	h.mu.Lock()
	lag := h.r.Intn(100) < h.p
	kind := h.r.Intn(3)
	n := 1 + h.r.Intn(20)
	long := h.LongP > 0 && h.r.Intn(100) < h.LongP
	longMs := 20 + h.r.Intn(61)
	h.mu.Unlock()
	if long {
		h.Lags.Add(1)
		time.Sleep(time.Duration(longMs) * time.Millisecond)
		return nil
	}
	if !lag {
		return nil
	}
	h.Lags.Add(1)
	switch kind {
	case 0:
		for i := 0; i < n; i++ {
			runtime.Gosched()
		}
	case 1:
		time.Sleep(time.Duration(n*10) * time.Microsecond)
	default:
		time.Sleep(time.Duration(n*100) * time.Microsecond)
	}
	return nil
}
