package lib

import (
	"fmt"
	"math/rand"
	"runtime"
	"sync"
	"time"

	"reduction.dev/reduction/util/vhook"
)

// M8 — schedule control on the vhook points: record every hit, optionally yield (seeded), park
// the goroutine at an armed gate until released, or run a one-shot callback on that goroutine.

type Sched struct {
	mu      sync.Mutex
	r       *rand.Rand
	yieldP  int // yield with probability yieldP/100 at every hook hit
	trace   []string
	gates   map[string]*Gate
	once    map[string]func(arg any)
	counts  map[string]int
	filter  func(name string, arg any) bool
	waiters map[string][]chan struct{}
	all     []*Gate // every gate ever armed (released at the end of the case, parked or not)
}

type Gate struct {
	name     string
	arrived  chan struct{} // closed when a goroutine parks
	release  chan struct{}
	relOnce  sync.Once
	arrOnce  sync.Once
	released bool
}

func NewSched(seed int64, yieldPercent int) *Sched {
	return &Sched{r: rand.New(rand.NewSource(seed)), yieldP: yieldPercent, gates: map[string]*Gate{}, once: map[string]func(any){},
		counts: map[string]int{}, waiters: map[string][]chan struct{}{}}
}

// SetFilter restricts the scheduler to hook hits for which fn is true (e.g. one *dkv.DB).
func (s *Sched) SetFilter(fn func(name string, arg any) bool) { s.filter = fn }

func (s *Sched) Install()   { vhook.Set(s.handle) }
func (s *Sched) Uninstall() { vhook.Set(nil); s.ReleaseAll() }

func (s *Sched) handle(name string, arg any) {
	if s.filter != nil && !s.filter(name, arg) {
		return
	}
	s.mu.Lock()
	s.counts[name]++
	if len(s.trace) < 4000 {
		s.trace = append(s.trace, name)
	}
	for _, w := range s.waiters[name] {
		close(w)
	}
	delete(s.waiters, name)
	g := s.gates[name]
	if g != nil {
		delete(s.gates, name)
	}
	cb := s.once[name]
	if cb != nil {
		delete(s.once, name)
	}
	yield := s.yieldP > 0 && s.r.Intn(100) < s.yieldP
	spin := 0
	if yield {
		spin = s.r.Intn(3)
	}
	s.mu.Unlock()
	if cb != nil {
		cb(arg)
	}
	if g != nil {
		g.arrOnce.Do(func() { close(g.arrived) })
		<-g.release
	}
	if yield {
		switch spin {
		case 0:
			runtime.Gosched()
		case 1:
			time.Sleep(time.Duration(20) * time.Microsecond)
		default:
			for i := 0; i < 3; i++ {
				runtime.Gosched()
			}
		}
	}
}

// Arm makes the next goroutine reaching `name` park until Release.
func (s *Sched) Arm(name string) *Gate {
	g := &Gate{name: name, arrived: make(chan struct{}), release: make(chan struct{})}
	s.mu.Lock()
	s.gates[name] = g
	s.all = append(s.all, g)
	s.mu.Unlock()
	return g
}

// Disarm removes a gate nobody arrived at.
func (s *Sched) Disarm(g *Gate) {
	s.mu.Lock()
	if s.gates[g.name] == g {
		delete(s.gates, g.name)
	}
	s.mu.Unlock()
	g.Release()
}

// Once runs fn on the goroutine that next reaches `name`.
func (s *Sched) Once(name string, fn func(arg any)) {
	s.mu.Lock()
	s.once[name] = fn
	s.mu.Unlock()
}

// ClearOnce removes a pending callback.
func (s *Sched) ClearOnce(name string) {
	s.mu.Lock()
	delete(s.once, name)
	s.mu.Unlock()
}

// WaitHit waits for the next hit of `name` (wall-clock watchdog only; false = not seen).
func (s *Sched) WaitHit(name string, d time.Duration) bool {
	ch := make(chan struct{})
	s.mu.Lock()
	s.waiters[name] = append(s.waiters[name], ch)
	s.mu.Unlock()
	select {
	case <-ch:
		return true
	case <-time.After(d):
		return false
	}
}

// HitWaiter registers interest in the next hit of name and returns the channel (closed on the hit).
func (s *Sched) HitWaiter(name string) <-chan struct{} {
	ch := make(chan struct{})
	s.mu.Lock()
	s.waiters[name] = append(s.waiters[name], ch)
	s.mu.Unlock()
	return ch
}

func (g *Gate) Arrived(d time.Duration) bool {
	select {
	case <-g.arrived:
		return true
	case <-time.After(d):
		return false
	}
}

func (g *Gate) HasArrived() bool {
	select {
	case <-g.arrived:
		return true
	default:
		return false
	}
}

func (g *Gate) Release() { g.relOnce.Do(func() { close(g.release) }) }

// ReleaseAll opens every armed gate.
func (s *Sched) ReleaseAll() {
	s.mu.Lock()
	gs := s.all
	s.all = nil
	s.gates = map[string]*Gate{}
	s.once = map[string]func(any){}
	s.mu.Unlock()
	for _, g := range gs {
		g.Release()
	}
}

// Count returns how often a point was hit.
func (s *Sched) Count(name string) int {
	s.mu.Lock()
	defer s.mu.Unlock()
	return s.counts[name]
}

// TraceHash is the unit of "distinct interleavings observed".
func (s *Sched) TraceHash() string {
	s.mu.Lock()
	defer s.mu.Unlock()
	return HashParts(fmt.Sprint(s.trace))
}

func (s *Sched) Trace() []string {
	s.mu.Lock()
	defer s.mu.Unlock()
	return append([]string{}, s.trace...)
}
