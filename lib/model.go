package lib

import (
	"bytes"
	"sort"
)

// M2a — the reference ordered map: a sorted slice, deliberately naive.
type KV struct {
	K, V []byte
}

type RefMap struct {
	items []KV // sorted by K
}

func NewRefMap() *RefMap { return &RefMap{} }

func (m *RefMap) find(k []byte) (int, bool) {
	i := sort.Search(len(m.items), func(i int) bool { return bytes.Compare(m.items[i].K, k) >= 0 })
	return i, i < len(m.items) && bytes.Equal(m.items[i].K, k)
}

func (m *RefMap) Put(k, v []byte) (old []byte, replaced bool) {
	i, ok := m.find(k)
	if ok {
		old = m.items[i].V
		m.items[i].V = append([]byte{}, v...)
		return old, true
	}
	m.items = append(m.items, KV{})
	copy(m.items[i+1:], m.items[i:])
	m.items[i] = KV{append([]byte{}, k...), append([]byte{}, v...)}
	return nil, false
}

func (m *RefMap) Delete(k []byte) bool {
	i, ok := m.find(k)
	if ok {
		m.items = append(m.items[:i], m.items[i+1:]...)
	}
	return ok
}

func (m *RefMap) Get(k []byte) ([]byte, bool) {
	i, ok := m.find(k)
	if !ok {
		return nil, false
	}
	return m.items[i].V, true
}

func (m *RefMap) Scan(prefix []byte) []KV {
	var out []KV
	for _, it := range m.items {
		if bytes.HasPrefix(it.K, prefix) {
			out = append(out, it)
		}
	}
	return out
}

func (m *RefMap) Len() int { return len(m.items) }

func (m *RefMap) All() []KV { return m.items }

func (m *RefMap) Clone() *RefMap {
	c := &RefMap{items: make([]KV, len(m.items))}
	copy(c.items, m.items)
	return c
}

// EqualKVs compares two scans.
func EqualKVs(a, b []KV) bool {
	if len(a) != len(b) {
		return false
	}
	for i := range a {
		if !bytes.Equal(a[i].K, b[i].K) || !bytes.Equal(a[i].V, b[i].V) {
			return false
		}
	}
	return true
}

// FmtKVs renders a scan for witnesses.
func FmtKVs(a []KV) []string {
	out := make([]string, 0, len(a))
	for _, kv := range a {
		v := kv.V
		if len(v) > 24 {
			v = append(append([]byte{}, v[:24]...), '~')
		}
		out = append(out, Q(kv.K)+"="+Q(v))
	}
	return out
}
