package lib

import (
	"crypto/sha1"
	"fmt"
	"sort"
	"strings"
	"sync"
	"sync/atomic"
	"time"

	"reduction.dev/reduction/dkv/storage"
)

// M7 — GateFS wraps a storage.FileSystem: logs every operation with a logical tick, keeps the
// content (and hash) of every saved file, can hold Save of selected files, and can materialise the
// crash image "files durable after the first k operations".

var Tick atomic.Int64 // one logical clock for all recorders of a process

type FSEvent struct {
	Tick int64
	Op   string // new | save | delete | cleanup-delete | copy | open
	URI  string
	Hash string
	Size int
}

type fileState struct {
	content []byte
	hash    string
	exists  bool
}

type GateFS struct {
	inner storage.FileSystem
	st    *gateState
	ns    any // when set: the live-table namespace files of this view report (stands for another process)
}

// AsOtherProcess returns a view whose files report their own live-table namespace: table objects created through
// it do not count as references for table objects created through other views, as if they lived in another process.
func (g *GateFS) AsOtherProcess() *GateFS {
	return &GateFS{inner: g.inner, st: g.st, ns: new(int)}
}

type gateState struct {
	mu         sync.Mutex
	log        []FSEvent
	files      map[string]*fileState
	overwrites []string // URIs saved a second time with different content
	holdMatch  func(name string) bool
	holdCh     chan struct{}
	parked     int
	failDelete func(uri string) error
	versions   map[string][]byte // uri#hash -> content, every version ever saved
}

func NewGateFS(inner storage.FileSystem) *GateFS {
	return &GateFS{inner: inner, st: &gateState{files: map[string]*fileState{}, versions: map[string][]byte{}}}
}

// WithInner returns a view over another inner file system (e.g. another working directory) that
// shares the log and state.
func (g *GateFS) WithInner(inner storage.FileSystem) *GateFS {
	return &GateFS{inner: inner, st: g.st, ns: g.ns}
}

func (g *GateFS) New(path string) storage.File {
	f := g.inner.New(path)
	g.st.add(FSEvent{Op: "new", URI: f.URI()})
	return &gateFile{File: f, st: g.st, writing: true, ns: g.ns}
}

func (g *GateFS) Open(path string) storage.File {
	f := g.inner.Open(path)
	return &gateFile{File: f, st: g.st, ns: g.ns}
}

func (g *GateFS) Copy(src, dst string) error {
	err := g.inner.Copy(src, dst)
	if err == nil {
		d := g.inner.Open(dst)
		g.st.mu.Lock()
		if s, ok := g.st.files[g.inner.Open(src).URI()]; ok {
			g.st.files[d.URI()] = &fileState{content: s.content, hash: s.hash, exists: true}
		}
		g.st.mu.Unlock()
		g.st.add(FSEvent{Op: "copy", URI: d.URI()})
	}
	return err
}

func (s *gateState) add(e FSEvent) {
	e.Tick = Tick.Add(1)
	s.mu.Lock()
	s.log = append(s.log, e)
	s.mu.Unlock()
}

type gateFile struct {
	storage.File
	st      *gateState
	buf     []byte
	writing bool
	ns      any
}

func (f *gateFile) Write(p []byte) (int, error) {
	f.buf = append(f.buf, p...)
	return f.File.Write(p)
}

func (f *gateFile) Save() error {
	// gate
	f.st.mu.Lock()
	var ch chan struct{}
	if f.st.holdMatch != nil && f.st.holdMatch(f.File.Name()) {
		ch = f.st.holdCh
		f.st.parked++
	}
	f.st.mu.Unlock()
	if ch != nil {
		<-ch
	}
	err := f.File.Save()
	if err != nil {
		return err
	}
	h := fmt.Sprintf("%x", sha1.Sum(f.buf))[:12]
	uri := f.File.URI()
	f.st.mu.Lock()
	if old, ok := f.st.files[uri]; ok && old.exists && old.hash != h && !strings.HasSuffix(uri, "/checkpoints") && !strings.HasSuffix(uri, "checkpoints") {
		f.st.overwrites = append(f.st.overwrites, uri)
	}
	content := append([]byte{}, f.buf...)
	f.st.files[uri] = &fileState{content: content, hash: h, exists: true}
	f.st.versions[uri+"#"+h] = content
	f.st.mu.Unlock()
	f.st.add(FSEvent{Op: "save", URI: uri, Hash: h, Size: len(f.buf)})
	return nil
}

func (f *gateFile) Delete() error {
	uri := f.File.URI()
	f.st.mu.Lock()
	fd := f.st.failDelete
	f.st.mu.Unlock()
	if fd != nil {
		if err := fd(uri); err != nil {
			return err
		}
	}
	err := f.File.Delete()
	if err == nil {
		f.st.markDeleted(uri, "delete")
	}
	return err
}

// Namespace passes on the inner file's namespace (in-memory filesystems have equal URIs).
func (f *gateFile) Namespace() any {
	if f.ns != nil {
		return f.ns
	}
	if n, ok := f.File.(interface{ Namespace() any }); ok {
		return n.Namespace()
	}
	return nil
}

func (f *gateFile) CreateDeleteFunc() func() error {
	inner := f.File.CreateDeleteFunc()
	uri := f.File.URI()
	st := f.st
	return func() error {
		err := inner()
		if err == nil {
			st.markDeleted(uri, "cleanup-delete")
		}
		return err
	}
}

func (s *gateState) markDeleted(uri, op string) {
	s.mu.Lock()
	if fs, ok := s.files[uri]; ok {
		fs.exists = false
	}
	s.mu.Unlock()
	s.add(FSEvent{Op: op, URI: uri})
}

// HoldSaves makes Save of files whose base name matches block until the returned release func is called.
func (g *GateFS) HoldSaves(match func(name string) bool) (release func()) {
	ch := make(chan struct{})
	g.st.mu.Lock()
	g.st.holdMatch = match
	g.st.holdCh = ch
	g.st.parked = 0
	g.st.mu.Unlock()
	var once sync.Once
	return func() {
		once.Do(func() {
			g.st.mu.Lock()
			g.st.holdMatch = nil
			g.st.mu.Unlock()
			close(ch)
		})
	}
}

// WaitParked waits (wall-clock watchdog only) until n saves are parked.
func (g *GateFS) WaitParked(n int, d time.Duration) bool {
	deadline := time.Now().Add(d)
	for time.Now().Before(deadline) {
		g.st.mu.Lock()
		p := g.st.parked
		g.st.mu.Unlock()
		if p >= n {
			return true
		}
		time.Sleep(50 * time.Microsecond)
	}
	return false
}

// Log returns a copy of the event log.
func (g *GateFS) Log() []FSEvent {
	g.st.mu.Lock()
	defer g.st.mu.Unlock()
	return append([]FSEvent{}, g.st.log...)
}

// LogLen is the number of events so far.
func (g *GateFS) LogLen() int {
	g.st.mu.Lock()
	defer g.st.mu.Unlock()
	return len(g.st.log)
}

// Overwrites lists write-once files that were saved again with different content.
func (g *GateFS) Overwrites() []string {
	g.st.mu.Lock()
	defer g.st.mu.Unlock()
	return append([]string{}, g.st.overwrites...)
}

// Exists reports whether the file is currently present (by the log) and its hash.
func (g *GateFS) Exists(uri string) (bool, string) {
	g.st.mu.Lock()
	defer g.st.mu.Unlock()
	fs, ok := g.st.files[uri]
	if !ok {
		return false, ""
	}
	return fs.exists, fs.hash
}

// Content returns the saved content of a file.
func (g *GateFS) Content(uri string) ([]byte, bool) {
	g.st.mu.Lock()
	defer g.st.mu.Unlock()
	fs, ok := g.st.files[uri]
	if !ok || !fs.exists {
		return nil, false
	}
	return fs.content, true
}

// Live lists the URIs of the files currently present.
func (g *GateFS) Live() []string {
	g.st.mu.Lock()
	defer g.st.mu.Unlock()
	var out []string
	for u, fs := range g.st.files {
		if fs.exists {
			out = append(out, u)
		}
	}
	sort.Strings(out)
	return out
}

// DeletesSince lists delete events after log position from.
func (g *GateFS) DeletesSince(from int) []FSEvent {
	g.st.mu.Lock()
	defer g.st.mu.Unlock()
	var out []FSEvent
	for _, e := range g.st.log[from:] {
		if e.Op == "delete" || e.Op == "cleanup-delete" {
			out = append(out, e)
		}
	}
	return out
}

// CrashImage materialises, into a fresh memory file system, the files durable after the first k
// logged operations (saves publish atomically; deletes remove).
func (g *GateFS) CrashImage(k int) *storage.MemoryFilesystem {
	g.st.mu.Lock()
	log := append([]FSEvent{}, g.st.log[:k]...)
	g.st.mu.Unlock()
	type ver struct {
		hash string
		live bool
	}
	state := map[string]ver{}
	for _, e := range log {
		switch e.Op {
		case "save":
			state[e.URI] = ver{e.Hash, true}
		case "delete", "cleanup-delete":
			if v, ok := state[e.URI]; ok {
				v.live = false
				state[e.URI] = v
			}
		}
	}
	img := storage.NewMemoryFilesystem()
	for uri, v := range state {
		if !v.live {
			continue
		}
		content, ok := g.contentByHash(uri, v.hash)
		if !ok {
			continue
		}
		f := img.New(strings.TrimPrefix(uri, "memory://"))
		f.Write(content)
		f.Save()
	}
	return img
}

func (g *GateFS) contentByHash(uri, hash string) ([]byte, bool) {
	g.st.mu.Lock()
	defer g.st.mu.Unlock()
	c, ok := g.st.versions[uri+"#"+hash]
	return c, ok
}
