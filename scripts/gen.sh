#!/bin/bash
# Regenerates the protobuf / connect Go code of $VERIF_REPO_DIR's *current* .proto files into
# $1 (default /verif/.gen) and writes overlay.json there (DESIGN §2.2). /repo is never written.
set -euo pipefail
. /verif/scripts/env.sh
GEN=${1:-/verif/.gen}
REPO=${VERIF_REPO_DIR}
tmp=$(mktemp -d "${GEN%/*}/.gen.tmp.XXXXXX")
/verif/bin/miniprotoc "$REPO" "$tmp" /verif/bin/protoc-gen-go /verif/bin/protoc-gen-connect-go
{
  echo '{"Replace":{'
  first=1
  (cd "$tmp" && find . -type f -name '*.go' | sort) | while read -r f; do
    f=${f#./}
    [ $first = 1 ] || echo ','
    first=0
    printf '"%s/%s":"%s/%s"' "$REPO" "$f" "$GEN" "$f"
  done
  echo '}}'
} > "$tmp/overlay.json"
# atomic swap so concurrent checks never see a half-written tree
if [ -d "$GEN" ]; then
  if diff -rq "$GEN" "$tmp" >/dev/null 2>&1; then rm -rf "$tmp"; exit 0; fi
  old=$(mktemp -d "${GEN%/*}/.gen.old.XXXXXX"); mv "$GEN" "$old/x"; mv "$tmp" "$GEN"; rm -rf "$old"
else
  mv "$tmp" "$GEN"
fi
