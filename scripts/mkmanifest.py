#!/usr/bin/env python3
"""Regenerates MANIFEST.json from plan.json (+ manifest_meta.json). Properties without a plan entry go to not_applicable
with the reason given in manifest_meta.json (default: not built yet)."""
import json, subprocess
plan = json.load(open('/verif/plan.json'))
meta = json.load(open('/verif/manifest_meta.json'))
props = [json.loads(l) for l in open('/verif/properties.jsonl')]
hooks = meta["hooks"]
hooks["source_commits"] = subprocess.check_output(["git","-C","/repo","log","--reverse","--format=%h %s","--grep","^verif hooks"], text=True).strip().splitlines()
checks, na = [], []
for p in props:
    pid = p["id"]
    if pid in plan and pid in meta["checks"]:
        m = meta["checks"][pid]
        checks.append({
            "property_id": pid,
            "quick_cmd": f"./check {pid} quick",
            "thorough_cmd": f"./check {pid} thorough",
            "evidence_file": f"/verif/evidence/{pid}.json",
            "replay_cmd_template": f"./check {pid} --replay {{path}}",
            "engine": "monitors",
            "level_claimed": {"category": plan[pid]["level"], "text": m["text"], "design_ref": m["design_ref"]},
            "level_note": m["note"],
            "technique": m["technique"],
        })
    else:
        na.append({"property_id": pid, "reason": meta.get("not_applicable", {}).get(pid, "monitor not built yet in this session; design in DESIGN.md §6")})
man = {
    "version": 1,
    "setup_cmd": "./scripts/setup.sh",
    "hooks": hooks,
    "engines": [{"name": "monitors", "path": "/verif/check", "serves_properties": [c["property_id"] for c in checks],
                 "kind_free_text": "runtime monitoring: seeded hostile workloads against the real code, reference-model oracles, gates/yields at verif hooks, Go race detector, porcupine"}],
    "checks": checks,
    "notes": meta.get("notes", ""),
    "not_applicable": na,
}
json.dump(man, open('/verif/MANIFEST.json', 'w'), indent=1)
print(len(checks), "checks;", len(na), "not claimed")
