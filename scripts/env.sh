# Sourced by every script. Leaves GOTOOLCHAIN / GOSUMDB alone on purpose (DESIGN §2.1).
export GOFLAGS=-mod=mod GOPROXY=off GONOSUMDB='*' GOPRIVATE='*' GONOSUMCHECK=1
unset GOTOOLCHAIN GOSUMDB 2>/dev/null || true
export VERIF_ROOT=/verif
export VERIF_REPO_DIR=${VERIF_REPO_DIR:-/repo}
