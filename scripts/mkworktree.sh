#!/bin/bash
# usage: mkworktree.sh <name>   — scratch git worktree of /repo HEAD under /tmp/mut/<name>, with the generated
# protobuf code copied in (git-ignored there), so the whole tree compiles and tests run without /verif.
set -euo pipefail
. /verif/scripts/env.sh
name=$1
wt=/tmp/mut/$name
git -C /repo worktree remove --force "$wt" 2>/dev/null || true
rm -rf "$wt"
git -C /repo worktree add --detach "$wt" HEAD >/dev/null 2>&1
gen=$(mktemp -d /tmp/mut/.gen.XXXXXX)
VERIF_REPO_DIR=$wt /verif/scripts/gen.sh "$gen/g" >/dev/null
(cd "$gen/g" && find . -name '*.go' | while read -r f; do mkdir -p "$wt/$(dirname "$f")"; cp "$f" "$wt/$f"; done)
rm -rf "$gen"
echo "$wt"
