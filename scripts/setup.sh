#!/bin/bash
# MANIFEST.setup_cmd: build the framework from files on disk only (offline).
set -euo pipefail
cd /verif
. scripts/env.sh
mkdir -p bin evidence replays
go build -o bin/miniprotoc ./tools/miniprotoc
go build -o bin/protoc-gen-go google.golang.org/protobuf/cmd/protoc-gen-go
go build -o bin/protoc-gen-connect-go connectrpc.com/connect/cmd/protoc-gen-connect-go
./scripts/gen.sh /verif/.gen
# warm the build cache (plain and -race) so the first check does not pay for it
for m in mon/*/; do
  m=$(basename "$m")
  go build -tags verif -overlay .gen/overlay.json -o "bin/$m" "./mon/$m"
done
if [ "${VERIF_SETUP_RACE:-1}" = 1 ]; then
  for m in $(python3 -c 'import json;print(" ".join(sorted({m["mon"] for p in json.load(open("plan.json")).values() for m in p["monitors"] if m.get("race")})))'); do
    go build -race -tags verif -overlay .gen/overlay.json -o "bin/$m.race" "./mon/$m"
  done
fi
echo setup ok
