#!/bin/bash
# Runs the repository's pinned baseline suite with the `verif` guard OFF (no tag, no overlay) and
# compares with /root/.vp/BASELINE.json: exit 0 iff every stable_pass test passes.
. /verif/scripts/env.sh
out=$(mktemp /var/tmp/baseline.XXXXXX.json)
trap 'rm -f "$out"' EXIT
(cd "${VERIF_REPO_DIR}" && go test -json -vet=off -count=1 -timeout 25m ./... > "$out" 2>/dev/null)
python3 - "$out" <<'PY'
import json, sys
passed, failed = set(), set()
for line in open(sys.argv[1], errors="replace"):
    try:
        d = json.loads(line)
    except Exception:
        continue
    if d.get("Test") and d.get("Action") in ("pass", "fail"):
        (passed if d["Action"] == "pass" else failed).add(f'{d["Package"]}::{d["Test"]}')
base = json.load(open("/root/.vp/BASELINE.json"))["stable_pass"]
missing = [t for t in base if t not in passed]
print(f"baseline: {len(base)} expected, {len(base)-len(missing)} passed, {len(failed)} failed tests overall")
for t in missing:
    print("MISSING/FAILED:", t)
sys.exit(1 if missing else 0)
PY
