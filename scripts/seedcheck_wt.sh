#!/bin/bash
# usage: seedcheck.sh <prop id> <dir with patch.diff, meta.json, demo file(s)> [tier]
# 1. confirms the seeded change in a scratch worktree: applies, builds, whole test suite passes, demo fails with / passes without
# 2. runs ./check <id> <tier> (default quick) with VERIF_REPO_DIR = the patched worktree (serialised by a lock); /repo is never touched
set -uo pipefail
. /verif/scripts/env.sh
id=$1; dir=$2; tier=${3:-quick}
name=chk-$id-$$
wt=$(/verif/scripts/mkworktree.sh $name)
trap 'git -C /repo worktree remove --force $wt 2>/dev/null; rm -rf $wt' EXIT
cd $wt
demo_dir=$(python3 -c "import json;print(json.load(open('$dir/meta.json')).get('demo_dir','.'))")
demo_cmd=$(python3 -c "
import json,re,sys
c=json.load(open('$dir/meta.json')).get('demo_cmd','')
c=re.sub(r'/tmp/mut/C[0-9]+(?:r[0-9])?(?![0-9.a-z])', '$wt', c)
c=c.replace('<repo>', '$wt').replace('<worktree>', '$wt')
print(c)")
echo "== demo_dir=$demo_dir demo_cmd=$demo_cmd"
for f in $dir/*_test.go; do [ -f "$f" ] && cp "$f" "$wt/$demo_dir/"; done
echo "== demo on unchanged tree (must pass)"
(cd $wt && eval "$demo_cmd" >/tmp/mut/$name.pass.log 2>&1); rc_pass=$?
echo "   rc=$rc_pass"
if ! git apply --check $dir/patch.diff 2>/tmp/mut/$name.apply.log; then echo "PATCH DOES NOT APPLY"; cat /tmp/mut/$name.apply.log; exit 2; fi
git apply $dir/patch.diff
echo "== build + full suite with the change (must pass, demo excluded)"
for f in $dir/*_test.go; do rm -f "$wt/$demo_dir/$(basename $f)"; done
go build ./... >/tmp/mut/$name.build.log 2>&1; rc_build=$?
go test -vet=off -count=1 ./... >/tmp/mut/$name.suite.log 2>&1
# connectors and rpc cannot build their tests with go1.24 (testing/synctest) on the unchanged tree either
bad=$(grep -E "^(FAIL|--- FAIL)" /tmp/mut/$name.suite.log | grep -v "reduction.dev/reduction/connectors \[setup failed\]" | grep -v "reduction.dev/reduction/rpc \[setup failed\]" | grep -v "^FAIL$")
# known-flaky repo tests (GC-driven file cleanup in storage/snapshots, e2e under load): re-run failing packages up to 3 times
for attempt in 1 2 3; do
  [ -z "$bad" ] && break
  pkgs=$(echo "$bad" | grep "^FAIL" | awk '{print $2}' | sed 's#reduction.dev/reduction#.#' | sort -u)
  [ -z "$pkgs" ] && break
  go test -vet=off -count=1 $pkgs >/tmp/mut/$name.suite.retry.log 2>&1
  bad=$(grep -E "^(FAIL|--- FAIL)" /tmp/mut/$name.suite.retry.log | grep -v "^FAIL$")
done
if [ -n "$bad" ]; then rc_suite=1; else rc_suite=0; fi
echo "   build rc=$rc_build suite rc=$rc_suite"; echo "$bad" | head
for f in $dir/*_test.go; do [ -f "$f" ] && cp "$f" "$wt/$demo_dir/"; done
echo "== demo with the change (must fail)"
(cd $wt && eval "$demo_cmd" >/tmp/mut/$name.fail.log 2>&1); rc_fail=$?
echo "   rc=$rc_fail"
cd /verif
for f in $dir/*_test.go; do rm -f "$wt/$demo_dir/$(basename $f)"; done
echo "== ./check $id $tier against the seeded change (patched worktree, /repo untouched)"
flock /var/tmp/seedcheck.lock env VERIF_REPO_DIR=$wt VERIF_SCRATCH=/var/tmp/verif.seed.$$ ./check $id $tier --no-evidence > /tmp/mut/$name.check.log 2>&1; rc_check=$?
rm -f /verif/bin/*.$(python3 -c "import hashlib;print(hashlib.sha1('$wt'.encode()).hexdigest()[:6])")*
echo "   check rc=$rc_check"; grep -v "^VIOLATION\|^built" /tmp/mut/$name.check.log | tail -6
echo "RESULT id=$id confirmed=$([ $rc_pass = 0 ] && [ $rc_fail != 0 ] && [ $rc_build = 0 ] && [ $rc_suite = 0 ] && echo yes || echo no) detected=$([ $rc_check = 1 ] && echo yes || echo no) (pass=$rc_pass fail=$rc_fail build=$rc_build suite=$rc_suite check=$rc_check)"
