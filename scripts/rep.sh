#!/bin/bash
# usage: rep.sh <mon> <prop> <part> <case> <seed> [tries]  — repeats one case until it is violated, prints the witness summary
mon=$1; prop=$2; part=$3; idx=$4; seed=${5:-1}; tries=${6:-20}
for t in $(seq 1 $tries); do
  timeout -s QUIT 120 /verif/bin/$mon -prop $prop -part $part -case $idx -seed $seed -scratch /var/tmp/vx.$$ > /var/tmp/rep.$$.log 2>&1
  rc=$?
  if [ $rc -ne 0 ] || grep -q '"verdict":"violated"' /var/tmp/rep.$$.log; then echo "try $t rc=$rc"; cp /var/tmp/rep.$$.log /var/tmp/rep.last.log; break; fi
done
rm -rf /var/tmp/vx.$$ /var/tmp/rep.$$.log
