#!/bin/bash
# usage: build_against.sh <repo copy dir> <mon> <out binary>  — builds a monitor against another copy of the repository (validation of the machinery only)
set -euo pipefail
. /verif/scripts/env.sh
copy=$1; mon=$2; out=$3
work=$(mktemp -d /var/tmp/ba.XXXXXX)
sed "s#=> /repo#=> $copy#" /verif/go.mod > $work/go.mod; cp /verif/go.sum $work/go.sum
VERIF_REPO_DIR=$copy /verif/scripts/gen.sh $work/gen >/dev/null
cd /verif && go build -modfile=$work/go.mod -tags verif -overlay $work/gen/overlay.json -o $out ./mon/$mon
rm -rf $work
