#!/usr/bin/env python3
"""Prints the table of DESIGN.md section 12.7 from seeded/*/meta.json and seeded/first_run.json."""
import json, os, re
root = os.path.join(os.path.dirname(os.path.abspath(__file__)), "..", "seeded")
notes = json.load(open(os.path.join(root, "first_run.json")))
print("| seeded change | breaks | what it does | violation kinds reported | parts | first run |")
print("|---|---|---|---|---|---|")
for name in sorted(os.listdir(root)):
    mp = os.path.join(root, name, "meta.json")
    if not os.path.exists(mp):
        continue
    m = json.load(open(mp))
    kinds, parts = set(), set()
    for v in m.get("verif", []):
        for k in (v.get("kinds") or "").split(","):
            k = k.strip()
            if not k:
                continue
            mm = re.match(r"(.+) in part (.+)", k)
            if mm:
                kinds.add(mm.group(1)); parts.add(mm.group(2))
            else:
                kinds.add(k)
    s = m["summary"].replace("|", "/").replace("\n", " ")
    if len(s) > 170:
        s = s[:170] + "..."
    print(f'| `{name}` | {m["property"]} | {s} | {", ".join(sorted(kinds))} | {", ".join(sorted(parts))} | {notes.get(name, "")} |')
