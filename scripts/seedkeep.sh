#!/bin/bash
# usage: seedkeep.sh <prop id> <src dir> <name> [tier] [extra check ids...]
# runs seedcheck; if the change is confirmed it is kept as /verif/seeded/<name>/ with the result recorded in meta.json
id=$1; src=$2; name=$3; tier=${4:-quick}
out=$(/verif/scripts/${SEEDCHECK:-seedcheck.sh} $id $src $tier 2>&1)
echo "$out" | grep -E "RESULT|violations of kind|\] " | head -8
res=$(echo "$out" | grep "^RESULT")
confirmed=$(echo "$res" | sed -n 's/.*confirmed=\([a-z]*\).*/\1/p')
detected=$(echo "$res" | sed -n 's/.*detected=\([a-z]*\).*/\1/p')
kinds=$(echo "$out" | grep -oE "violations of kind [a-z0-9-]+ in part [a-z0-9-]+|\] [a-z0-9-]+:" | sed 's/violations of kind //; s/\] //; s/:$//' | sort -u | tr '\n' ',' )
if [ "$confirmed" = yes ]; then
  mkdir -p /verif/seeded/$name
  cp $src/patch.diff /verif/seeded/$name/
  for f in $src/*_test.go $src/*.go; do [ -f "$f" ] && cp "$f" /verif/seeded/$name/$(basename $f).txt; done
  python3 - "$src/meta.json" "/verif/seeded/$name/meta.json" "$id" "$tier" "$detected" "$kinds" <<'PY'
import json,sys
m=json.load(open(sys.argv[1]))
m["breaks_property"]=sys.argv[3]
m.setdefault("verif",[]).append({"check": f"./check {sys.argv[3]} {sys.argv[4]}", "detected": sys.argv[5]=="yes", "kinds": sys.argv[6], "confirmed_by": "scripts/seedcheck.sh or seedcheck_wt.sh: patch applies, builds, full suite passes (connectors/rpc cannot build tests on go1.24 either way), demo passes without and fails with the change"})
m["note"]="demonstration files are stored with a .txt suffix so that they are not compiled as part of /verif"
json.dump(m,open(sys.argv[2],"w"),indent=1)
PY
fi
echo "KEPT=$confirmed DETECTED=$detected name=$name"
