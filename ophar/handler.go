// Package ophar is the shared machinery around a real operator.Operator (DESIGN §3 M3, M4):
// the scripted recording handler, its shadow state, and the harness-controlled batch timer.
package ophar

import (
	"bytes"
	"context"
	"encoding/json"
	"fmt"
	"sort"
	"sync"
	"time"

	"google.golang.org/protobuf/types/known/timestamppb"
	"reduction.dev/reduction-protocol/handlerpb"
	"verif/lib"
)

// Instr is one instruction of the program an event carries.
type Instr struct {
	Op string `json:"op"` // PUT | DEL | TIMER | SINK
	NS string `json:"ns,omitempty"`
	EK []byte `json:"ek,omitempty"`
	V  []byte `json:"v,omitempty"`
	T  int64  `json:"t,omitempty"` // unix nanoseconds for TIMER
}

type Program []Instr

// Payload is the value of a keyed event.
type Payload struct {
	ID string  `json:"id"` // unique id of the event (split/offset or script position)
	P  Program `json:"p,omitempty"`
	X  string  `json:"x,omitempty"` // opaque extra carried for the recorders (e.g. the source record)
}

// EncodePayloadWith is EncodePayload with the opaque extra.
func EncodePayloadWith(id string, p Program, x string) []byte {
	b, err := json.Marshal(Payload{ID: id, P: p, X: x})
	lib.Must(err)
	return b
}

// DecodePayload parses a keyed event value.
func DecodePayload(v []byte) (Payload, bool) {
	var pl Payload
	if err := json.Unmarshal(v, &pl); err != nil {
		return pl, false
	}
	return pl, true
}

func EncodePayload(id string, p Program) []byte {
	b, err := json.Marshal(Payload{ID: id, P: p})
	lib.Must(err)
	return b
}

// KeyShadow is the committed state of one subject key: namespace -> entry key -> value.
type KeyShadow map[string]map[string][]byte

func (k KeyShadow) clone() KeyShadow {
	out := KeyShadow{}
	for ns, es := range k {
		m := map[string][]byte{}
		for ek, v := range es {
			m[ek] = v
		}
		out[ns] = m
	}
	return out
}

func (k KeyShadow) apply(p Program) {
	for _, in := range p {
		switch in.Op {
		case "PUT":
			if k[in.NS] == nil {
				k[in.NS] = map[string][]byte{}
			}
			v := in.V
			if v == nil {
				v = []byte{}
			}
			k[in.NS][string(in.EK)] = v
		case "DEL":
			if es := k[in.NS]; es != nil {
				delete(es, string(in.EK))
				if len(es) == 0 {
					delete(k, in.NS)
				}
			}
		}
	}
}

func (k KeyShadow) String() string {
	var nss []string
	for ns := range k {
		nss = append(nss, ns)
	}
	sort.Strings(nss)
	var b bytes.Buffer
	for _, ns := range nss {
		var eks []string
		for ek := range k[ns] {
			eks = append(eks, ek)
		}
		sort.Strings(eks)
		fmt.Fprintf(&b, "[%q:", ns)
		for _, ek := range eks {
			v := k[ns][ek]
			if len(v) > 16 {
				v = append(append([]byte{}, v[:16]...), '~')
			}
			fmt.Fprintf(&b, " %q=%q", ek, v)
		}
		b.WriteString("]")
	}
	return b.String()
}

// Ev is one event as the handler saw it.
type Ev struct {
	Kind byte   // 'K' keyed event, 'T' timer expired
	Key  []byte // subject key
	ID   string // payload id for K
	T    int64  // timestamp (unix nanos): event time for K, timer time for T
}

func (e Ev) String() string {
	if e.Kind == 'K' {
		return fmt.Sprintf("K(%q,%s)", e.Key, e.ID)
	}
	return fmt.Sprintf("T(%q,@%d)", e.Key, e.T)
}

// Call is one recorded ProcessEventBatch invocation.
type Call struct {
	Seq       int
	Tick      int64
	Events    []Ev
	Keys      []string // subject keys of the supplied KeyStates, sorted
	Watermark int64    // unix nanos as told to the handler (seconds*1e9+nanos of the proto timestamp)
	WmSeconds int64
}

type Problem struct {
	Kind, Detail string
	Call         int
}

// ShadowStore is the committed keyed state; several handlers (one per operator) may share one.
type ShadowStore struct {
	mu sync.Mutex
	m  map[string]KeyShadow
}

func NewShadowStore() *ShadowStore { return &ShadowStore{m: map[string]KeyShadow{}} }

// Snapshot returns a deep copy of the committed state.
func (s *ShadowStore) Snapshot() map[string]KeyShadow {
	s.mu.Lock()
	defer s.mu.Unlock()
	out := map[string]KeyShadow{}
	for k, v := range s.m {
		out[k] = v.clone()
	}
	return out
}

// Reset replaces the committed state (new epoch: shadow = cut).
func (s *ShadowStore) Reset(to map[string]KeyShadow) {
	s.mu.Lock()
	defer s.mu.Unlock()
	for k := range s.m {
		delete(s.m, k)
	}
	for k, v := range to {
		s.m[k] = v.clone()
	}
}

// Handler is the scripted recording proto.Handler.
type Handler struct {
	Muted     func() bool // reports that the owning worker is dead: calls are answered but neither judged nor recorded
	mutedNow  bool
	Name      string
	mu        sync.Mutex
	store     *ShadowStore
	shadow    map[string]KeyShadow // == store.m, accessed with store.mu held
	calls     []Call
	problems  []Problem
	TimerProg func(key []byte, t int64) Program // program run for a TimerExpired event
	cond      *sync.Cond
	OnCall    func(seq int)  // optional: called (without the lock) at the start of every invocation (latency gates)
	applied   map[string]int // payload id -> times applied (exactly-once evidence)
	Sink      [][]byte
	// Check, when set, is evaluated for every keyed event before its program is applied, with the
	// committed state of its key (e.g. exactly-once and per-split order entries kept in the state itself).
	Check func(h *Handler, key []byte, pl Payload, sh KeyShadow) (kind, detail string)
}

func NewHandler(name string) *Handler { return NewHandlerSharing(name, NewShadowStore()) }

// NewHandlerSharing creates a handler whose committed state lives in a shared store.
func NewHandlerSharing(name string, st *ShadowStore) *Handler {
	h := &Handler{Name: name, store: st, shadow: st.m, applied: map[string]int{}}
	h.cond = sync.NewCond(&h.mu)
	return h
}

func (h *Handler) problem(kind string, format string, a ...any) {
	if h.mutedNow {
		return
	}
	if len(h.problems) < 16 {
		h.problems = append(h.problems, Problem{Kind: kind, Detail: fmt.Sprintf(format, a...), Call: len(h.calls)})
	}
}

// KeyEventBatch is not used by the operator.
func (h *Handler) KeyEventBatch(ctx context.Context, events [][]byte) ([][]*handlerpb.KeyedEvent, error) {
	return nil, fmt.Errorf("ophar.Handler: KeyEventBatch is not scripted here")
}

func (h *Handler) ProcessEventBatch(ctx context.Context, req *handlerpb.ProcessEventBatchRequest) (*handlerpb.ProcessEventBatchResponse, error) {
	if h.OnCall != nil {
		h.mu.Lock()
		seq := len(h.calls)
		h.mu.Unlock()
		h.OnCall(seq)
	}
	h.mu.Lock()
	defer h.mu.Unlock()
	h.store.mu.Lock()
	defer h.store.mu.Unlock()
	// A handler call made by a worker that has been killed does not exist in the modelled execution (the process is
	// dead; in this test process its goroutines may run on for a moment): it gets its response, nothing is judged or
	// recorded, the shadow is left alone.
	h.mutedNow = h.Muted != nil && h.Muted()
	defer func() { h.mutedNow = false }()
	call := Call{Seq: len(h.calls), Tick: lib.Tick.Add(1)}
	if req.Watermark != nil {
		call.WmSeconds = req.Watermark.Seconds
		call.Watermark = req.Watermark.Seconds*1e9 + int64(req.Watermark.Nanos)
	}
	// (i) the supplied state must be exactly the shadow of each distinct key of the batch
	distinct := map[string]bool{}
	for _, e := range req.Events {
		switch ev := e.Event.(type) {
		case *handlerpb.Event_KeyedEvent:
			distinct[string(ev.KeyedEvent.Key)] = true
		case *handlerpb.Event_TimerExpired:
			distinct[string(ev.TimerExpired.Key)] = true
		}
	}
	seen := map[string]bool{}
	for _, ks := range req.KeyStates {
		k := string(ks.Key)
		call.Keys = append(call.Keys, k)
		if seen[k] {
			h.problem("state-duplicate-key", "call %d: KeyStates lists key %q twice", call.Seq, k)
		}
		seen[k] = true
		if !distinct[k] {
			h.problem("state-foreign-key", "call %d: KeyStates holds key %q which no event of the batch refers to", call.Seq, k)
		}
		got := KeyShadow{}
		for _, ns := range ks.StateEntryNamespaces {
			if _, dup := got[ns.Namespace]; dup {
				h.problem("state-duplicate-namespace", "call %d key %q: namespace %q supplied twice", call.Seq, k, ns.Namespace)
			}
			m := map[string][]byte{}
			for _, e := range ns.Entries {
				if _, dup := m[string(e.Key)]; dup {
					h.problem("state-duplicate-entry", "call %d key %q ns %q: entry %q supplied twice", call.Seq, k, ns.Namespace, e.Key)
				}
				v := e.Value
				if v == nil {
					v = []byte{}
				}
				m[string(e.Key)] = v
			}
			if len(m) > 0 {
				got[ns.Namespace] = m
			}
		}
		want := h.shadow[k]
		if want == nil {
			want = KeyShadow{}
		}
		if got.String() != want.String() {
			h.problem("state-mismatch", "call %d: state supplied for key %q is %s, fold of all mutations returned so far is %s", call.Seq, k, got, want)
		}
	}
	for k := range distinct {
		if !seen[k] {
			h.problem("state-missing-key", "call %d: no KeyState supplied for key %q of the batch", call.Seq, k)
		}
	}
	sort.Strings(call.Keys)
	// (ii) interpret the programs on a working copy, return the mutations, commit when returning
	resp := &handlerpb.ProcessEventBatchResponse{}
	for _, e := range req.Events {
		var key []byte
		var prog Program
		switch ev := e.Event.(type) {
		case *handlerpb.Event_KeyedEvent:
			key = ev.KeyedEvent.Key
			var pl Payload
			if err := json.Unmarshal(ev.KeyedEvent.Value, &pl); err != nil {
				h.problem("event-corrupted", "call %d: keyed event value is not a payload: %q", call.Seq, ev.KeyedEvent.Value)
			}
			prog = pl.P
			if !h.mutedNow {
				h.applied[pl.ID]++
			}
			if h.Check != nil && !h.mutedNow {
				if kind, detail := h.Check(h, key, pl, h.shadow[string(key)]); kind != "" {
					h.problem(kind, "call %d: %s", call.Seq, detail)
				}
			}
			call.Events = append(call.Events, Ev{Kind: 'K', Key: key, ID: pl.ID, T: ev.KeyedEvent.Timestamp.AsTime().UnixNano()})
		case *handlerpb.Event_TimerExpired:
			key = ev.TimerExpired.Key
			t := ev.TimerExpired.Timestamp.AsTime().UnixNano()
			if h.TimerProg != nil {
				prog = h.TimerProg(key, t)
			}
			call.Events = append(call.Events, Ev{Kind: 'T', Key: key, T: t})
		default:
			h.problem("event-unknown", "call %d: unknown event %v", call.Seq, e)
			continue
		}
		kr := &handlerpb.KeyResult{Key: key}
		byNS := map[string]*handlerpb.StateMutationNamespace{}
		for _, in := range prog {
			switch in.Op {
			case "PUT", "DEL":
				ns := byNS[in.NS]
				if ns == nil {
					ns = &handlerpb.StateMutationNamespace{Namespace: in.NS}
					byNS[in.NS] = ns
					kr.StateMutationNamespaces = append(kr.StateMutationNamespaces, ns)
				}
				if in.Op == "PUT" {
					v := in.V
					if v == nil {
						v = []byte{}
					}
					ns.Mutations = append(ns.Mutations, &handlerpb.StateMutation{Mutation: &handlerpb.StateMutation_Put{Put: &handlerpb.PutMutation{Key: in.EK, Value: v}}})
				} else {
					ns.Mutations = append(ns.Mutations, &handlerpb.StateMutation{Mutation: &handlerpb.StateMutation_Delete{Delete: &handlerpb.DeleteMutation{Key: in.EK}}})
				}
			case "TIMER":
				kr.NewTimers = append(kr.NewTimers, timestamppb.New(time.Unix(0, in.T)))
			case "SINK":
				resp.SinkRequests = append(resp.SinkRequests, &handlerpb.SinkRequest{Value: in.V})
			}
		}
		resp.KeyResults = append(resp.KeyResults, kr)
		if h.mutedNow {
			continue
		}
		// mutations grouped per namespace are applied namespace by namespace in the order of first
		// appearance: the fold below must follow what was returned, not the raw instruction order
		sh := h.shadow[string(key)]
		if sh == nil {
			sh = KeyShadow{}
			h.shadow[string(key)] = sh
		}
		for _, ns := range kr.StateMutationNamespaces {
			for _, m := range ns.Mutations {
				if p := m.GetPut(); p != nil {
					sh.apply(Program{{Op: "PUT", NS: ns.Namespace, EK: p.Key, V: p.Value}})
				} else if d := m.GetDelete(); d != nil {
					sh.apply(Program{{Op: "DEL", NS: ns.Namespace, EK: d.Key}})
				}
			}
		}
		if len(sh) == 0 {
			delete(h.shadow, string(key))
		}
	}
	if h.mutedNow {
		return resp, nil
	}
	h.calls = append(h.calls, call)
	h.cond.Broadcast()
	return resp, nil
}

// NCalls is the number of invocations so far.
func (h *Handler) NCalls() int {
	h.mu.Lock()
	defer h.mu.Unlock()
	return len(h.calls)
}

// WaitCalls waits until at least n invocations happened (wall-clock watchdog only).
func (h *Handler) WaitCalls(n int, d time.Duration) bool {
	deadline := time.Now().Add(d)
	h.mu.Lock()
	defer h.mu.Unlock()
	for len(h.calls) < n {
		if time.Now().After(deadline) {
			return false
		}
		h.mu.Unlock()
		time.Sleep(50 * time.Microsecond)
		h.mu.Lock()
	}
	return true
}

// Calls returns a copy of the recorded invocations from index from.
func (h *Handler) Calls(from int) []Call {
	h.mu.Lock()
	defer h.mu.Unlock()
	if from > len(h.calls) {
		from = len(h.calls)
	}
	return append([]Call{}, h.calls[from:]...)
}

// Problems returns the assertion failures so far.
func (h *Handler) Problems() []Problem {
	h.mu.Lock()
	defer h.mu.Unlock()
	return append([]Problem{}, h.problems...)
}

// ShadowSnapshot returns a deep copy of the committed state (optionally only keys accepted by keep).
func (h *Handler) ShadowSnapshot(keep func(key []byte) bool) map[string]KeyShadow {
	h.store.mu.Lock()
	defer h.store.mu.Unlock()
	out := map[string]KeyShadow{}
	for k, s := range h.shadow {
		if keep == nil || keep([]byte(k)) {
			out[k] = s.clone()
		}
	}
	return out
}

// ResetShadow replaces the committed state (a new epoch after a restore: shadow = cut).
func (h *Handler) ResetShadow(s map[string]KeyShadow) {
	h.store.mu.Lock()
	defer h.store.mu.Unlock()
	for k := range h.shadow {
		delete(h.shadow, k)
	}
	for k, v := range s {
		h.shadow[k] = v.clone()
	}
}

// MergeShadow overwrites the committed state of the given keys only.
func (h *Handler) MergeShadow(s map[string]KeyShadow, drop func(key []byte) bool) {
	h.store.mu.Lock()
	defer h.store.mu.Unlock()
	for k := range h.shadow {
		if drop != nil && drop([]byte(k)) {
			delete(h.shadow, k)
		}
	}
	for k, v := range s {
		h.shadow[k] = v.clone()
	}
}

// Applied returns how often each payload id was applied.
func (h *Handler) Applied() map[string]int {
	h.mu.Lock()
	defer h.mu.Unlock()
	out := map[string]int{}
	for k, v := range h.applied {
		out[k] = v
	}
	return out
}
