package ophar

import (
	"fmt"
	"sort"
)

// Model predicts, for a *serialised* delivery of events to one operator (one HandleEvent at a time),
// the exact sequence of handler invocations: which events each batch holds (timers of equal
// timestamp form a tie group whose internal order is free), and the watermark told to the handler.
// It mirrors only what the properties state: batching by size / time-out / barrier, timers due
// when the minimum of the senders' latest watermarks reaches them, SetTimer ignored at or below the
// current minimum.

const EpochNanos = int64(0)

type ExpEv struct {
	Ev
	Group int // tie group number (events of one group may appear in any order)
}

type ExpBatch struct {
	Events    []ExpEv
	Watermark int64
	Why       string
}

type Model struct {
	MaxSize    int
	HasDelay   bool
	Vector     map[string]int64
	Reported   bool // some watermark was processed since (re)start
	Composite  int64
	Pending    []ExpEv
	Timers     map[string]int64 // "key\x00t" -> t  (pending timers)
	TimerProg  func(key []byte, t int64) Program
	Progs      map[string]Program // payload id -> program (for K events)
	Batches    []ExpBatch
	group      int
	TimerArmed bool // the batcher's time-out is armed for the current (non-empty) batch
	FiredOnce  map[string]int
	added      int // events handed to the batcher so far (position in the flattened stream)
	// Observe returns the event the handler actually saw at a position of the flattened stream (nil if
	// not delivered yet). It only resolves the free order inside a tie group of equal-timestamp timers.
	Observe func(pos int) *Ev
}

func NewModel(senders []string, maxSize int, hasDelay bool, timerProg func([]byte, int64) Program) *Model {
	m := &Model{MaxSize: maxSize, HasDelay: hasDelay, Vector: map[string]int64{}, Timers: map[string]int64{}, TimerProg: timerProg,
		Progs: map[string]Program{}, FiredOnce: map[string]int{}, Composite: EpochNanos}
	if m.MaxSize <= 0 {
		m.MaxSize = 1
	}
	for _, s := range senders {
		m.Vector[s] = EpochNanos
	}
	return m
}

func timerID(key []byte, t int64) string { return fmt.Sprintf("%s\x00%d", key, t) }

func (m *Model) add(e ExpEv, why string) {
	if len(m.Pending) == 0 && m.HasDelay {
		m.TimerArmed = true
	}
	m.Pending = append(m.Pending, e)
	m.added++
	if len(m.Pending) >= m.MaxSize {
		m.Flush(why + ": batch full")
	}
}

// Keyed: a keyed event was delivered.
func (m *Model) Keyed(key []byte, id string, p Program, ts int64) {
	m.Progs[id] = p
	m.group++
	m.add(ExpEv{Ev: Ev{Kind: 'K', Key: key, ID: id, T: ts}, Group: m.group}, "keyed event")
}

// KeyedUnordered: several keyed events were delivered concurrently (senders released from alignment
// at the same instant); their relative order is free and follows the observed one.
func (m *Model) KeyedUnordered(evs []Ev, progs []Program) {
	m.group++
	g := m.group
	remaining := map[string]int{}
	for i, e := range evs {
		m.Progs[e.ID] = progs[i]
		remaining[e.ID] = i
	}
	for len(remaining) > 0 {
		pick := -1
		if m.Observe != nil {
			if ev := m.Observe(m.added); ev != nil && ev.Kind == 'K' {
				if i, ok := remaining[ev.ID]; ok {
					pick = i
				}
			}
		}
		if pick < 0 {
			for i, e := range evs {
				if _, ok := remaining[e.ID]; ok {
					pick = i
					break
				}
			}
		}
		delete(remaining, evs[pick].ID)
		m.add(ExpEv{Ev: evs[pick], Group: g}, "keyed event (released from alignment)")
	}
}

// Watermark: sender s reported t.
func (m *Model) Watermark(s string, t int64) {
	m.Vector[s] = t
	min := int64(1<<63 - 1)
	for _, v := range m.Vector {
		if v < min {
			min = v
		}
	}
	m.Composite = min
	m.Reported = true
	for {
		// earliest pending timer
		var bestID string
		best := int64(1<<63 - 1)
		for id, t := range m.Timers {
			if t < best || (t == best && id < bestID) {
				best, bestID = t, id
			}
		}
		if bestID == "" || best > m.Composite {
			return
		}
		// the whole tie group of this timestamp that is due *now*
		var ids []string
		for id, t := range m.Timers {
			if t == best {
				ids = append(ids, id)
			}
		}
		sort.Strings(ids)
		m.group++
		g := m.group
		remaining := map[string]bool{}
		for _, id := range ids {
			remaining[id] = true
		}
		for len(remaining) > 0 {
			// The order inside a tie group is free. When a batch boundary falls inside the group it decides
			// which timer programs have run at the flush, so the model follows the order the operator chose
			// (as long as it stays inside the group) instead of guessing.
			pick := ""
			if m.Observe != nil {
				if ev := m.Observe(m.added); ev != nil && ev.Kind == 'T' && ev.T == best && remaining[timerID(ev.Key, ev.T)] {
					pick = timerID(ev.Key, ev.T)
				}
			}
			if pick == "" {
				for _, id := range ids {
					if remaining[id] {
						pick = id
						break
					}
				}
			}
			delete(remaining, pick)
			// a flush inside the group may register new timers, never one that is already due
			delete(m.Timers, pick)
			key := []byte(pick[:len(pick)-len(fmt.Sprintf("\x00%d", best))])
			m.FiredOnce[pick]++
			m.add(ExpEv{Ev: Ev{Kind: 'T', Key: key, T: best}, Group: g}, "timer expired")
		}
	}
}

// TimeOut: the batcher's time-out fired for the current batch.
func (m *Model) TimeOut() {
	if m.TimerArmed && len(m.Pending) > 0 {
		m.Flush("batch time-out")
	}
}

// Barrier: all barriers of a checkpoint have arrived.
func (m *Model) BarrierComplete() {
	if len(m.Pending) > 0 {
		m.Flush("checkpoint barrier")
	}
}

// Flush hands the pending batch to the handler.
func (m *Model) Flush(why string) {
	b := ExpBatch{Events: m.Pending, Watermark: m.Composite, Why: why}
	m.Pending = nil
	m.TimerArmed = false
	for _, e := range b.Events {
		var p Program
		if e.Kind == 'K' {
			p = m.Progs[e.ID]
		} else if m.TimerProg != nil {
			p = m.TimerProg(e.Key, e.T)
		}
		for _, in := range p {
			if in.Op == "TIMER" && in.T > m.Composite {
				m.Timers[timerID(e.Key, in.T)] = in.T
			}
		}
	}
	m.Batches = append(m.Batches, b)
}

// Restart models a restore: watermarks are not part of a checkpoint, every sender counts as the epoch
// again; the pending batch is gone (it was flushed by the barrier before the cut).
func (m *Model) Restart(senders []string, timers map[string]int64) {
	m.Vector = map[string]int64{}
	for _, s := range senders {
		m.Vector[s] = EpochNanos
	}
	m.Composite = EpochNanos
	m.Reported = false
	m.added -= len(m.Pending) // events batched after the cut died with the operator
	m.Pending = nil
	m.TimerArmed = false
	m.Timers = map[string]int64{}
	for k, v := range timers {
		m.Timers[k] = v
	}
}

// TimersSnapshot copies the pending timers.
func (m *Model) TimersSnapshot() map[string]int64 {
	out := map[string]int64{}
	for k, v := range m.Timers {
		out[k] = v
	}
	return out
}

// Matcher compares recorded handler calls with predicted batches incrementally. Batch sizes and the
// watermark told must agree call by call; the events are compared over the flattened stream, tie
// group by tie group (a group of equal-timestamp timers may be split over several batches — even
// over batches not yet flushed — and its internal order is free).
type Matcher struct {
	Calls  int // calls whose size and watermark were checked
	Events int // events of the flattened stream already matched
}

// Match returns "" or a description. openGroup is the tie group of the first event still pending in
// the model's unflushed batch (-1 if none): a trailing group equal to it is not complete yet.
func (mt *Matcher) Match(exp []ExpBatch, got []Call, openGroup int) (kind, detail string) {
	for i := mt.Calls; i < len(got); i++ {
		if i >= len(exp) {
			return "unexpected-handler-call", fmt.Sprintf("handler call %d with events %v was not predicted (only %d batches expected so far)", i, got[i].Events, len(exp))
		}
		e, g := exp[i], got[i]
		if len(e.Events) != len(g.Events) {
			return "batch-composition", fmt.Sprintf("handler call %d holds %d events %v, predicted %d (%s): %v", i, len(g.Events), g.Events, len(e.Events), e.Why, fmtExp(e.Events))
		}
		if g.Watermark != e.Watermark {
			return "watermark-told", fmt.Sprintf("handler call %d was told watermark %d ns (seconds field %d), the minimum of the senders' latest watermarks is %d ns", i, g.Watermark, g.WmSeconds, e.Watermark)
		}
	}
	mt.Calls = len(got)
	var fe []ExpEv
	var fg []Ev
	var callOf []int
	for i := 0; i < len(got); i++ {
		fe = append(fe, exp[i].Events...)
		fg = append(fg, got[i].Events...)
		for range exp[i].Events {
			callOf = append(callOf, i)
		}
	}
	j := mt.Events
	for j < len(fe) {
		k := j
		for k < len(fe) && fe[k].Group == fe[j].Group {
			k++
		}
		if k == len(fe) && fe[j].Group == openGroup {
			break // the rest of this tie group is still in the unflushed batch
		}
		want := map[string]int{}
		for _, x := range fe[j:k] {
			want[x.Ev.String()]++
		}
		for _, x := range fg[j:k] {
			want[x.String()]--
		}
		for s, n := range want {
			if n != 0 {
				kind := "event-order"
				if fe[j].Kind == 'T' {
					kind = "timer-firing"
				}
				return kind, fmt.Sprintf("handler calls %d..%d hold %v where %v was predicted (mismatch on %s)", callOf[j], callOf[k-1], fg[j:k], fmtExp(fe[j:k]), s)
			}
		}
		j = k
		mt.Events = k
	}
	return "", ""
}

// OpenGroup is the tie group of the first pending (unflushed) event, or -1.
func (m *Model) OpenGroup() int {
	if len(m.Pending) == 0 {
		return -1
	}
	return m.Pending[0].Group
}

func fmtExp(es []ExpEv) []string {
	out := make([]string, len(es))
	for i, e := range es {
		out[i] = fmt.Sprintf("%s/g%d", e.Ev.String(), e.Group)
	}
	return out
}
