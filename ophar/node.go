package ophar

import (
	"context"
	"encoding/binary"
	"fmt"
	"io"
	"log/slog"
	"sync"
	"time"

	"google.golang.org/protobuf/types/known/timestamppb"
	"reduction.dev/reduction-protocol/handlerpb"
	"reduction.dev/reduction/batching"
	"reduction.dev/reduction/clocks"
	"reduction.dev/reduction/connectors/embedded"
	"reduction.dev/reduction/dkv"
	"reduction.dev/reduction/dkv/recovery"
	"reduction.dev/reduction/dkv/storage"
	"reduction.dev/reduction/partitioning"
	"reduction.dev/reduction/proto"
	"reduction.dev/reduction/proto/jobpb"
	"reduction.dev/reduction/proto/snapshotpb"
	"reduction.dev/reduction/proto/workerpb"
	"reduction.dev/reduction/rpc"
	"reduction.dev/reduction/workers/operator"
	"verif/lib"
)

var QuietLog = slog.New(slog.NewTextHandler(io.Discard, nil))

const Watchdog = 20 * time.Second

// HTimer is a clocks.Timer fired by the harness at logical points.
type HTimer struct {
	mu      sync.Mutex
	do      func()
	history []func() // every callback ever armed (stale ones can be fired on purpose)
	sets    int
	stops   int
}

func (t *HTimer) Set(d time.Duration, do func()) {
	t.mu.Lock()
	defer t.mu.Unlock()
	t.do = do
	t.history = append(t.history, do)
	t.sets++
}

func (t *HTimer) Stop() {
	t.mu.Lock()
	defer t.mu.Unlock()
	t.do = nil
	t.stops++
}

// Armed reports whether a callback is pending.
func (t *HTimer) Armed() bool {
	t.mu.Lock()
	defer t.mu.Unlock()
	return t.do != nil
}

// Fire runs the pending callback on the calling goroutine (it blocks until the event loop has
// received the token). Returns false when nothing is armed.
func (t *HTimer) Fire() bool {
	t.mu.Lock()
	do := t.do
	t.do = nil
	t.mu.Unlock()
	if do == nil {
		return false
	}
	do()
	return true
}

// FireStale runs the i-th callback ever armed, even if its batch was flushed long ago — what a
// SystemTimer goroutine that already started does.
func (t *HTimer) FireStale(i int) bool {
	t.mu.Lock()
	if i < 0 || i >= len(t.history) {
		t.mu.Unlock()
		return false
	}
	do := t.history[i]
	t.mu.Unlock()
	do()
	return true
}

func (t *HTimer) Armings() int {
	t.mu.Lock()
	defer t.mu.Unlock()
	return len(t.history)
}

// Ack is one OperatorCheckpointComplete seen by the job adapter.
type Ack struct {
	Tick         int64
	CheckpointID uint64
	OperatorID   string
	URI          string
	Start, End   int
	HandlerCalls int // handler invocations completed when the ack was sent (position of the cut)
}

// JobRec is the harness's proto.Job for operator-level monitors.
type JobRec struct {
	proto.NoopJob
	mu      sync.Mutex
	acks    []Ack
	Handler func(opID string) *Handler
	OnAck   func(a Ack) // called synchronously (on the operator's event loop) before the ack returns
	FailAck func(a Ack) error
}

func (j *JobRec) OperatorCheckpointComplete(ctx context.Context, req *snapshotpb.OperatorCheckpoint) error {
	a := Ack{Tick: lib.Tick.Add(1), CheckpointID: req.CheckpointId, OperatorID: req.OperatorId, URI: req.DkvFileUri,
		Start: int(req.KeyGroupRange.GetStart()), End: int(req.KeyGroupRange.GetEnd())}
	if j.Handler != nil {
		if h := j.Handler(req.OperatorId); h != nil {
			a.HandlerCalls = h.NCalls()
		}
	}
	if j.OnAck != nil {
		j.OnAck(a)
	}
	j.mu.Lock()
	j.acks = append(j.acks, a)
	j.mu.Unlock()
	if j.FailAck != nil {
		return j.FailAck(a)
	}
	return nil
}

func (j *JobRec) Acks() []Ack {
	j.mu.Lock()
	defer j.mu.Unlock()
	return append([]Ack{}, j.acks...)
}

// Node is one real operator with its handler and timer.
type Node struct {
	ID      string
	Op      *operator.Operator
	H       *Handler
	Timer   *HTimer
	Sink    *embedded.RecordingSink
	cancel  context.CancelFunc
	done    chan error
	Stopped bool
}

type NodeParams struct {
	ID        string
	Job       proto.Job
	Handler   *Handler
	MaxSize   int
	MaxDelay  time.Duration
	Neighbors func(senderID string, node *jobpb.NodeIdentity) proto.Operator
	RealTimer bool
	Logger    *slog.Logger // nil: discard
}

// StartNode creates and starts an operator (not yet deployed).
func StartNode(p NodeParams) *Node {
	n := &Node{ID: p.ID, H: p.Handler, Timer: &HTimer{}, Sink: &embedded.RecordingSink{}, done: make(chan error, 1)}
	bp := batching.EventBatcherParams{MaxSize: p.MaxSize, MaxDelay: p.MaxDelay, Timer: n.Timer}
	if p.RealTimer {
		bp.Timer = nil
	}
	if p.Neighbors == nil {
		p.Neighbors = func(string, *jobpb.NodeIdentity) proto.Operator { return &proto.UnimplementedOperator{} }
	}
	reg := &regWaiter{Job: p.Job, first: make(chan struct{})}
	n.Op = operator.NewOperator(operator.NewOperatorParams{ID: p.ID, Host: "host-" + p.ID, Job: reg, UserHandler: p.Handler,
		EventBatching: bp, Clock: clocks.NewFrozenClock(), NeighborOperatorFactory: p.Neighbors})
	n.Op.Logger = QuietLog
	if p.Logger != nil {
		n.Op.Logger = p.Logger
	}
	ctx, cancel := context.WithCancel(context.Background())
	n.cancel = cancel
	go func() { n.done <- n.Op.Start(ctx) }()
	// Start registers with the job once it has set itself up (stop function, pollers): nothing is done to the
	// operator before that, so that a Halt right after StartNode does not race with Start's own initialisation
	// (Halt is the repository's test hook for a crash; no production path calls it on a starting operator).
	select {
	case <-reg.first:
	case <-time.After(Watchdog):
	}
	return n
}

// regWaiter signals the operator's first registration call.
type regWaiter struct {
	proto.Job
	once  sync.Once
	first chan struct{}
}

func (r *regWaiter) RegisterOperator(ctx context.Context, n *jobpb.NodeIdentity) error {
	r.once.Do(func() { close(r.first) })
	return r.Job.RegisterOperator(ctx, n)
}

// Deploy deploys the operator as member `ids[idx]` of the assembly.
func (n *Node) Deploy(ids []string, runnerIDs []string, keyGroups int, location string, ckpts []*snapshotpb.OperatorCheckpoint) error {
	ops := make([]*jobpb.NodeIdentity, len(ids))
	for i, id := range ids {
		ops[i] = &jobpb.NodeIdentity{Id: id, Host: "host-" + id}
	}
	return n.Op.HandleDeploy(context.Background(), &workerpb.DeployOperatorRequest{Operators: ops, SourceRunnerIds: runnerIDs,
		KeyGroupCount: int32(keyGroups), StorageLocation: location, Checkpoints: ckpts}, n.Sink)
}

// Kill halts the operator without deregistration (a crashed process).
func (n *Node) Kill() {
	if n.Stopped {
		return
	}
	n.Stopped = true
	n.Op.Halt()
	select {
	case <-n.done:
	case <-time.After(Watchdog):
	}
	// a dead process does nothing any more: let the background tasks of its database finish before
	// anybody reuses its directory
	if db := n.Op.VerifDB(); db != nil {
		lib.DKVIdle(Watchdog)
	}
}

// ---- event constructors

func KeyedEvent(key []byte, id string, p Program, ts int64) *workerpb.Event {
	return &workerpb.Event{Event: &workerpb.Event_KeyedEvent{KeyedEvent: &handlerpb.KeyedEvent{Key: key, Value: EncodePayload(id, p), Timestamp: timestamppb.New(time.Unix(0, ts))}}}
}

func WatermarkEvent(ts int64) *workerpb.Event {
	return &workerpb.Event{Event: &workerpb.Event_Watermark{Watermark: &workerpb.Watermark{Timestamp: timestamppb.New(time.Unix(0, ts))}}}
}

func BarrierEvent(id uint64) *workerpb.Event {
	return &workerpb.Event{Event: &workerpb.Event_CheckpointBarrier{CheckpointBarrier: &workerpb.CheckpointBarrier{CheckpointId: id}}}
}

// Send delivers one event the way the connect handler does.
func (n *Node) Send(sender string, ev *workerpb.Event) error {
	return n.SendBatch(sender, ev)
}

// SendBatch hands one sender's batch to the operator the way a source runner of the same process does:
// through the repository's embedded operator client (the connect handler treats a request the same way).
func (n *Node) SendBatch(sender string, evs ...*workerpb.Event) error {
	return n.SendBatchCtx(context.Background(), sender, evs...)
}

// SendBatchCtx is SendBatch with the request's context (a caller may give up while the request is being served).
func (n *Node) SendBatchCtx(ctx context.Context, sender string, evs ...*workerpb.Event) error {
	cl := rpc.NewOperatorEmbeddedClient(rpc.NewOperatorEmbeddedClientParams{Operator: n.Op, SenderID: sender, ID: n.ID})
	return cl.HandleEventBatch(ctx, evs)
}

// ---- reading an operator's DKV checkpoint back

// Row is one decoded row of an operator database.
type Row struct {
	KeyGroup int
	Schema   byte
	Subject  []byte
	NS       string // state rows
	EK       []byte // state rows
	Value    []byte // state rows
	T        int64  // timer rows (unix nanos)
	Raw      []byte
}

// DecodeRow decodes the documented key layouts: <kg2><0x00><len4><subject><nslen1><ns><entry> and <kg2><0x01><ts8><subject>.
func DecodeRow(k, v []byte) (Row, error) {
	r := Row{Raw: k}
	if len(k) < 3 {
		return r, fmt.Errorf("row key too short: %x", k)
	}
	r.KeyGroup = int(binary.BigEndian.Uint16(k[:2]))
	r.Schema = k[2]
	switch k[2] {
	case 0x00:
		if len(k) < 7 {
			return r, fmt.Errorf("state row too short: %x", k)
		}
		sl := int(binary.BigEndian.Uint32(k[3:7]))
		if len(k) < 7+sl+1 {
			return r, fmt.Errorf("state row subject overruns: %x", k)
		}
		r.Subject = k[7 : 7+sl]
		nl := int(k[7+sl])
		if len(k) < 7+sl+1+nl {
			return r, fmt.Errorf("state row namespace overruns: %x", k)
		}
		r.NS = string(k[8+sl : 8+sl+nl])
		r.EK = k[8+sl+nl:]
		r.Value = v
	case 0x01:
		if len(k) < 11 {
			return r, fmt.Errorf("timer row too short: %x", k)
		}
		r.T = int64(binary.BigEndian.Uint64(k[3:11]))
		r.Subject = k[11:]
	default:
		return r, fmt.Errorf("unknown schema byte %#x in row %x", k[2], k)
	}
	return r, nil
}

// ReadCheckpoint opens the operator checkpoint(s) read-only-ish (a fresh dkv.DB over the same files, in a scratch
// working directory) and returns every row.
func ReadCheckpoint(scratchDir string, handles []recovery.CheckpointHandle) ([]Row, error) {
	fs := storage.NewLocalFilesystem(scratchDir)
	db := dkv.Open(dkv.DBOptions{FileSystem: fs, Logger: QuietLog, DataOwnership: neverDelete{}}, handles)
	var scanErr error
	var rows []Row
	for e := range db.ScanPrefix(nil, &scanErr) {
		r, err := DecodeRow(e.Key(), e.Value())
		if err != nil {
			return nil, err
		}
		rows = append(rows, r)
	}
	if scanErr != nil {
		return nil, scanErr
	}
	lib.DKVIdle(Watchdog)
	return rows, nil
}

// neverDelete: the harness's read-back databases must never delete the files they look at.
type neverDelete struct{}

func (neverDelete) OwnsKey([]byte) bool { return true }
func (neverDelete) ExclusivelyOwnsTable(string, []byte, []byte) (bool, error) {
	return false, nil
}

// KeyGroupOf is the reference key-group function (through the repo's KeySpace; C05 checks it independently).
func KeyGroupOf(key []byte, keyGroups int) int {
	return int(partitioning.NewKeySpace(keyGroups, 1).KeyGroup(key))
}
