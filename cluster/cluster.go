package cluster

import (
	"context"
	"errors"
	"fmt"
	"io"
	"iter"
	"path/filepath"
	"runtime"
	"strings"
	"sync"
	"sync/atomic"
	"time"

	gproto "google.golang.org/protobuf/proto"
	"reduction.dev/reduction-protocol/handlerpb"
	"reduction.dev/reduction-protocol/jobconfigpb"
	"reduction.dev/reduction/batching"
	"reduction.dev/reduction/clocks"
	"reduction.dev/reduction/config"
	"reduction.dev/reduction/connectors"
	"reduction.dev/reduction/connectors/embedded"
	"reduction.dev/reduction/jobs"
	"reduction.dev/reduction/partitioning"
	"reduction.dev/reduction/proto"
	"reduction.dev/reduction/proto/jobpb"
	"reduction.dev/reduction/proto/snapshotpb"
	"reduction.dev/reduction/proto/workerpb"
	"reduction.dev/reduction/rpc"
	"reduction.dev/reduction/storage/locations"
	"reduction.dev/reduction/util/vhook"
	"reduction.dev/reduction/workers/operator"
	"reduction.dev/reduction/workers/sourcerunner"
	"verif/lib"
	"verif/ophar"
)

const Watchdog = 10 * time.Second

// ---------------------------------------------------------------- storage location recorder

type LocOp struct {
	Tick int64
	Op   string // write | remove | copy
	Path string
}

// RecLocation wraps the job's StorageLocation: logs operations, lets the harness wait for a file.
type RecLocation struct {
	locations.StorageLocation
	mu        sync.Mutex
	log       []LocOp
	holdWrite func(path string) // called before a write is performed (may block)
}

// SetHoldWrite installs (or, with nil, removes) a callback that runs before every write and may block.
func (l *RecLocation) SetHoldWrite(f func(path string)) {
	l.mu.Lock()
	l.holdWrite = f
	l.mu.Unlock()
}

func (l *RecLocation) Write(fname string, r io.Reader) (string, error) {
	l.mu.Lock()
	hold := l.holdWrite
	l.mu.Unlock()
	if hold != nil {
		hold(fname)
	}
	uri, err := l.StorageLocation.Write(fname, r)
	if err == nil {
		l.mu.Lock()
		l.log = append(l.log, LocOp{lib.Tick.Add(1), "write", fname})
		l.mu.Unlock()
	}
	return uri, err
}

func (l *RecLocation) Remove(paths ...string) error {
	err := l.StorageLocation.Remove(paths...)
	l.mu.Lock()
	for _, p := range paths {
		l.log = append(l.log, LocOp{lib.Tick.Add(1), "remove", p})
	}
	l.mu.Unlock()
	return err
}

func (l *RecLocation) List() iter.Seq2[string, error] { return l.StorageLocation.List() }

func (l *RecLocation) Log() []LocOp {
	l.mu.Lock()
	defer l.mu.Unlock()
	return append([]LocOp{}, l.log...)
}

// ---------------------------------------------------------------- recorded operator input streams

// StreamEv is one event as delivered to an operator (recorded before HandleEvent is invoked).
type StreamEv struct {
	Tick     int64
	Operator string
	Sender   string // source runner id
	Kind     byte   // K | W | B | C(source complete)
	Key      []byte
	ID       string // payload id "split/off/j"
	Rec      Record
	Ts       int64  // event timestamp (K) or watermark (W)
	Barrier  uint64 // B
}

type SRAck struct {
	Tick   int64
	Runner string
	ID     uint64
	Pos    map[int]int
}

type OpAck struct {
	Tick     int64
	Operator string
	ID       uint64
	URI      string
	Start    int
	End      int
}

// ---------------------------------------------------------------- cluster

type Config struct {
	Workers   int
	KeyGroups int
	Batch     batching.EventBatcherParams
	Dir       string
	Source    *VSource
	Keys      [][]byte
	Seed      int64
	// Fanout decides how many keyed events a record produces (0, 1 or 2).
	Fanout func(split, off int) int
	// ExtraProgram adds instructions to the keyed event j of a record.
	ExtraProgram func(rec Record, j int) ophar.Program
	SavepointURI string
}

type Worker struct {
	Name   string
	SR     *sourcerunner.SourceRunner
	Op     *operator.Operator
	OpID   string
	H      *ophar.Handler
	clock  *clocks.FrozenClock // the source runner's clock
	opClk  *clocks.FrozenClock // the operator's clock (FrozenClock keys pollers by label: they cannot share one)
	cancel context.CancelFunc
	done   chan error
	Dead   bool
	dead   atomic.Bool // same as Dead, readable without the cluster lock
	Range  partitioning.KeyGroupRange
	hasRng bool
	reader *VReader // the reader of its current deployment
	killed bool
	exited chan struct{} // closed when both processes of the worker have returned
	// control-plane calls of the job (Deploy, retention updates) that are executing inside the worker: Kill waits
	// for them, so that nothing of a killed worker still writes to its directory when the case removes it
	inflight sync.WaitGroup
	ExitErr  error
}

type Cluster struct {
	Cfg       Config
	mu        sync.Mutex
	Job       *jobs.Job
	JobClock  *clocks.FrozenClock
	Loc       *RecLocation
	Store     *ophar.ShadowStore
	workers   []*Worker
	acked     map[[2]uint64]map[string]bool // (job incarnation, checkpoint id) -> nodes whose acknowledgement the job accepted
	byOp      map[string]*Worker
	bySR      map[string]*Worker
	stream    []StreamEv
	srAcks    []SRAck
	opAcks    []OpAck
	deploys   []DeployRec
	startCk   []StartCkRec
	keyed     []KeyedRec
	round     int
	inRound   map[string]bool
	edgeErrs  []string
	retainLog []RetainRec
	rpcPanics []string
	keyedMax  map[string]int64
	errc      chan error
	jobErrs   []error
	nextW     int
	TimerFn   func(key []byte, t int64) ophar.Program
	// fault policies
	HoldOpAck  func(a OpAck) // called before forwarding an operator ack to the job (may block)
	HoldSRAck  func(a SRAck) // same for source-runner acks
	FailDeploy func(node string) error
	checks     func(h *ophar.Handler, key []byte, pl ophar.Payload, sh ophar.KeyShadow) (string, string)
	jobGen     int
	Latency    func(seq int)                       // optional handler latency
	KeyLatency func(runner string, call int)       // optional latency of the key-by call (KeyEventBatch)
	FailAssign func(node string, splits int) error // optional: makes an AssignSplits call to a runner fail (transient RPC error)
	HoldRetain func(node string, ids []uint64)     // called when a retention update reaches an operator, before it is applied (may block)
	OnOpAck    func(a OpAck, w *Worker)            // synchronous, on the operator's event loop, before the ack is forwarded
	// OnOperatorDeploy is called before an operator's HandleDeploy is invoked (epoch switch: shadow = cut).
	OnOperatorDeploy func(rec DeployRec)
}

// SetChecks installs the per-keyed-event state check of every worker's handler.
func (c *Cluster) SetChecks(fn func(h *ophar.Handler, key []byte, pl ophar.Payload, sh ophar.KeyShadow) (string, string)) {
	c.checks = fn
}

func (c *Cluster) Lock()   { c.mu.Lock() }
func (c *Cluster) Unlock() { c.mu.Unlock() }

// ReaderLive reports whether the reader belongs to a live worker's current deployment.
func (c *Cluster) ReaderLive(r *VReader) bool {
	c.mu.Lock()
	defer c.mu.Unlock()
	w := c.bySR[r.Runner]
	return w != nil && !w.Dead && w.reader == r
}

type DeployRec struct {
	Round    int // deploy round (one Assembly.Deploy call)
	Tick     int64
	Node     string
	Kind     string // operator | runner
	Members  []string
	Ckpts    []uint64
	Err      error
	DeadNode bool
}

type StartCkRec struct {
	Tick int64
	Node string
	ID   uint64
	Dead bool
}

// Every worker is its own operating-system process in a deployment. The repository counts live Table objects per
// stored file "within this process"; workers of one test process must not protect each other's table files that
// way, so every operator's file system is wrapped with the identity of its worker (hook operator.filesystem).
var (
	procMu sync.Mutex
	procOf = map[string]*int{} // operator id -> simulated process
)

var partHook atomic.Pointer[func(name string, arg any)]

// SetHook installs a part's own vhook handler next to the harness's (nil removes it). cluster.New re-installs the
// dispatcher, so a second cluster of the same case keeps the part's handler.
func SetHook(h func(name string, arg any)) {
	if h == nil {
		partHook.Store(nil)
	} else {
		partHook.Store(&h)
	}
	vhook.Set(dispatchHook)
}

func dispatchHook(name string, arg any) {
	hookFS(name, arg)
	if h := partHook.Load(); h != nil {
		(*h)(name, arg)
	}
}

func hookFS(name string, arg any) {
	if name != "operator.filesystem" {
		return
	}
	a := arg.(*operator.VerifFileSystem)
	procMu.Lock()
	proc := procOf[a.OperatorID]
	procMu.Unlock()
	if proc != nil {
		a.FS = lib.ProcFS{Inner: a.FS, Proc: proc}
	}
}

func New(cfg Config) *Cluster {
	vhook.Set(dispatchHook)
	c := &Cluster{Cfg: cfg, byOp: map[string]*Worker{}, bySR: map[string]*Worker{}, Store: ophar.NewShadowStore(), errc: make(chan error, 100), keyedMax: map[string]int64{}}
	c.Loc = &RecLocation{StorageLocation: locations.NewLocalDirectory(filepath.Join(cfg.Dir, "job"))}
	go func() {
		for e := range c.errc {
			c.mu.Lock()
			c.jobErrs = append(c.jobErrs, e)
			c.mu.Unlock()
		}
	}()
	return c
}

// StartJob creates (or re-creates, after a job crash) the job from its storage.
func (c *Cluster) StartJob() error {
	c.JobClock = clocks.NewFrozenClock()
	c.jobGen++
	job, err := jobs.New(&jobs.NewParams{
		JobConfig: &config.Config{WorkerCount: c.Cfg.Workers, KeyGroupCount: c.Cfg.KeyGroups, WorkingStorageLocation: filepath.Join(c.Cfg.Dir, "work"),
			Sources: []connectors.SourceConfig{c.Cfg.Source}},
		Clock:               c.JobClock,
		Store:               c.Loc,
		Logger:              ophar.QuietLog,
		OperatorFactory:     func(sender string, n *jobpb.NodeIdentity) proto.Operator { return &opAd{c: c, sender: sender, node: n} },
		SourceRunnerFactory: func(n *jobpb.NodeIdentity) proto.SourceRunner { return &srAd{c: c, node: n} },
		ErrChan:             c.errc,
		SavepointURI:        c.Cfg.SavepointURI,
	})
	if err != nil {
		return err
	}
	c.mu.Lock()
	c.Job = job
	c.mu.Unlock()
	return nil
}

// ContinueNamesOf makes this cluster number its workers after those of prev. Operator ids name the
// operators' directories in the shared working storage; real ids are random (ksuid) and never repeat, so two
// clusters of one case must not hand out the same names.
func (c *Cluster) ContinueNamesOf(prev *Cluster) {
	prev.mu.Lock()
	n := prev.nextW
	prev.mu.Unlock()
	c.mu.Lock()
	if n > c.nextW {
		c.nextW = n
	}
	c.mu.Unlock()
}

func (c *Cluster) job() *jobs.Job {
	c.mu.Lock()
	defer c.mu.Unlock()
	return c.Job
}

// AddWorker creates and starts a fresh worker (source runner + operator with coupled lifecycles,
// like workers.Worker.Start).
func (c *Cluster) AddWorker() *Worker {
	c.mu.Lock()
	name := fmt.Sprintf("w%d", c.nextW)
	c.nextW++
	c.mu.Unlock()
	w := &Worker{Name: name, clock: clocks.NewFrozenClock(), opClk: clocks.NewFrozenClock(), done: make(chan error, 1), exited: make(chan struct{}), OpID: "op-" + name}
	w.H = ophar.NewHandlerSharing(w.OpID, c.Store)
	w.H.TimerProg = c.TimerFn
	w.H.Check = c.checks
	w.H.OnCall = c.Latency
	w.H.Muted = w.dead.Load
	kh := &keyHandler{c: c, inner: w.H, w: w}
	ja := jobAd{c: c, w: w}
	opFactory := func(sender string, n *jobpb.NodeIdentity) proto.Operator { return &opAd{c: c, sender: sender, node: n} }
	w.SR = sourcerunner.New(sourcerunner.NewParams{Host: "host-" + name, UserHandler: kh, Job: ja, Clock: w.clock, OperatorFactory: opFactory, EventBatching: c.Cfg.Batch,
		SourceReaderFactory: func(*jobconfigpb.Source) connectors.SourceReader {
			r := c.Cfg.Source.NewSourceReader(connectors.SourceReaderHooks{}).(*VReader)
			r.Runner = w.SR.ID
			c.mu.Lock()
			w.reader = r
			c.mu.Unlock()
			return r
		}})
	w.SR.ID = "sr-" + name
	w.SR.Logger = ophar.QuietLog
	w.Op = operator.NewOperator(operator.NewOperatorParams{ID: w.OpID, Host: "host-" + name, Job: ja, UserHandler: kh, Clock: w.opClk, EventBatching: c.Cfg.Batch, NeighborOperatorFactory: opFactory})
	w.Op.Logger = ophar.QuietLog
	procMu.Lock()
	procOf[w.OpID] = new(int)
	procMu.Unlock()
	c.mu.Lock()
	c.workers = append(c.workers, w)
	c.byOp[w.OpID] = w
	c.bySR[w.SR.ID] = w
	c.mu.Unlock()
	ctx, cancel := context.WithCancel(context.Background())
	w.cancel = cancel
	go func() {
		// coupled lifecycles: when either process stops with an error the other is cancelled
		errs := make(chan error, 2)
		go func() { errs <- w.SR.Start(ctx) }()
		go func() { errs <- w.Op.Start(ctx) }()
		e1 := <-errs
		if e1 != nil {
			cancel()
		}
		e2 := <-errs
		w.ExitErr = errors.Join(e1, e2)
		close(w.exited)
		w.done <- w.ExitErr
	}()
	return w
}

// Kill halts a worker without deregistration and marks it dead at every edge.
func (c *Cluster) Kill(w *Worker) {
	c.mu.Lock()
	if w.killed {
		c.mu.Unlock()
		return
	}
	w.killed = true
	w.Dead = true
	w.dead.Store(true)
	c.mu.Unlock()
	w.SR.Halt()
	w.Op.Halt()
	w.cancel()
	select {
	case <-w.done:
	case <-time.After(Watchdog):
	}
	{
		d := make(chan struct{})
		go func() { w.inflight.Wait(); close(d) }()
		select {
		case <-d:
		case <-time.After(Watchdog):
		}
	}
	if db := w.Op.VerifDB(); db != nil {
		// process-wide idleness: other workers may still be flushing, so this is bounded; Shutdown waits again
		// after the last worker is gone
		lib.DKVIdle(300 * time.Millisecond)
	}
}

// Exited reports whether the worker's processes have returned by themselves (and with which error).
func (w *Worker) Exited() (bool, error) {
	select {
	case <-w.exited:
		return true, w.ExitErr
	default:
		return false, nil
	}
}

// MarkDead cuts the worker off at every edge (its calls fail, calls to it fail) without stopping it yet.
func (c *Cluster) MarkDead(w *Worker) {
	c.mu.Lock()
	w.Dead = true
	w.dead.Store(true)
	c.mu.Unlock()
}

// NodeLive reports whether an operator or source runner id belongs to a live worker.
func (c *Cluster) NodeLive(id string) bool {
	c.mu.Lock()
	defer c.mu.Unlock()
	if w := c.byOp[id]; w != nil {
		return !w.Dead
	}
	if w := c.bySR[id]; w != nil {
		return !w.Dead
	}
	return false
}

// Shutdown stops a worker gracefully (deregisters).
func (c *Cluster) Shutdown(w *Worker) {
	w.SR.Stop()
	w.Op.Stop()
	select {
	case <-w.done:
	case <-time.After(Watchdog):
	}
	c.mu.Lock()
	w.Dead = true
	w.dead.Store(true)
	c.mu.Unlock()
}

// Heartbeat makes the worker's registration pollers fire (operators and runners re-register every 3 s).
func (c *Cluster) Heartbeat(w *Worker) {
	func() {
		defer func() { recover() }() // a poller may not be registered yet
		w.clock.TickEvery("register")
	}()
	func() {
		defer func() { recover() }()
		w.opClk.TickEvery("register")
	}()
}

func (c *Cluster) Workers() []*Worker {
	c.mu.Lock()
	defer c.mu.Unlock()
	return append([]*Worker{}, c.workers...)
}

func (c *Cluster) Live() []*Worker {
	c.mu.Lock()
	defer c.mu.Unlock()
	var out []*Worker
	for _, w := range c.workers {
		if !w.Dead {
			out = append(out, w)
		}
	}
	return out
}

// NotKilled lists the workers that are still running (dead-marked or not).
func (c *Cluster) NotKilled() []*Worker {
	c.mu.Lock()
	defer c.mu.Unlock()
	var out []*Worker
	for _, w := range c.workers {
		if !w.killed {
			out = append(out, w)
		}
	}
	return out
}

// TickCheckpoint fires the job's checkpoint ticker; false if the job is not running yet.
func (c *Cluster) TickCheckpoint() (ok bool) {
	defer func() {
		if r := recover(); r != nil {
			ok = false
		}
	}()
	// The frozen clock's Ticker.Stop is a no-op, the real clock's is not: the job stops its checkpoint ticker
	// whenever it leaves Running and creates a new one when it is Running again. Firing the ticker in any other
	// status would be a schedule the real system cannot produce.
	if c.Job == nil || c.Job.VerifStatus() != "Running" {
		return false
	}
	c.JobClock.TickEvery("checkpointing")
	return true
}

// StopAll stops everything (end of a case).
func (c *Cluster) StopAll() {
	for _, w := range c.Workers() {
		c.Kill(w)
	}
	lib.DKVIdle(Watchdog) // every worker is gone: nothing may still write when the case removes its directory
}

// ---- accessors for recorded data

func (c *Cluster) Stream() []StreamEv {
	c.mu.Lock()
	defer c.mu.Unlock()
	return append([]StreamEv{}, c.stream...)
}
func (c *Cluster) SRAcks() []SRAck {
	c.mu.Lock()
	defer c.mu.Unlock()
	return append([]SRAck{}, c.srAcks...)
}
func (c *Cluster) ackReturned(id uint64, node string, err error) {
	if err != nil {
		return
	}
	c.mu.Lock()
	defer c.mu.Unlock()
	k := [2]uint64{uint64(c.jobGen), id}
	if c.acked == nil {
		c.acked = map[[2]uint64]map[string]bool{}
	}
	if c.acked[k] == nil {
		c.acked[k] = map[string]bool{}
	}
	c.acked[k][node] = true
}

// AcksAccepted returns the nodes whose acknowledgement of checkpoint id the current job incarnation has accepted
// (the call into the job returned without error).
func (c *Cluster) AcksAccepted(id uint64) map[string]bool {
	c.mu.Lock()
	defer c.mu.Unlock()
	out := map[string]bool{}
	for n := range c.acked[[2]uint64{uint64(c.jobGen), id}] {
		out[n] = true
	}
	return out
}

func (c *Cluster) OpAcks() []OpAck {
	c.mu.Lock()
	defer c.mu.Unlock()
	return append([]OpAck{}, c.opAcks...)
}

// RedeployedInPlace names a node that accepted two Deploy calls ("" if none): the trigger of the known finding
// in-place-redeploy.
func (c *Cluster) RedeployedInPlace() string {
	c.mu.Lock()
	defer c.mu.Unlock()
	n := map[string]int{}
	for _, d := range c.deploys {
		if d.Err == nil && !d.DeadNode {
			n[d.Node]++
			if n[d.Node] > 1 {
				return d.Node
			}
		}
	}
	return ""
}

func (c *Cluster) Deploys() []DeployRec {
	c.mu.Lock()
	defer c.mu.Unlock()
	return append([]DeployRec{}, c.deploys...)
}
func (c *Cluster) StartCheckpoints() []StartCkRec {
	c.mu.Lock()
	defer c.mu.Unlock()
	return append([]StartCkRec{}, c.startCk...)
}

// EdgeErrors lists errors returned by operators to source runners.
func (c *Cluster) EdgeErrors() []string {
	c.mu.Lock()
	defer c.mu.Unlock()
	return append([]string{}, c.edgeErrs...)
}

func (c *Cluster) JobErrors() []error {
	c.mu.Lock()
	defer c.mu.Unlock()
	return append([]error{}, c.jobErrs...)
}

// PublishedSnapshots lists the snapshot files written so far (in write order).
func (c *Cluster) PublishedSnapshots() []string {
	var out []string
	for _, op := range c.Loc.Log() {
		if op.Op == "write" && strings.HasSuffix(op.Path, ".snapshot") {
			out = append(out, op.Path)
		}
	}
	return out
}

// ReadSnapshot decodes a published job checkpoint.
func (c *Cluster) ReadSnapshot(path string) (*snapshotpb.JobCheckpoint, error) {
	b, err := c.Loc.Read(path)
	if err != nil {
		return nil, err
	}
	var snap snapshotpb.JobCheckpoint
	if err := gproto.Unmarshal(b, &snap); err != nil {
		return nil, err
	}
	return &snap, nil
}

// ---------------------------------------------------------------- adapters

type jobAd struct {
	c *Cluster
	w *Worker
}

func (a jobAd) dead() bool {
	a.c.mu.Lock()
	defer a.c.mu.Unlock()
	return a.w.Dead
}

func (a jobAd) RegisterSourceRunner(ctx context.Context, n *jobpb.NodeIdentity) error {
	if a.dead() {
		return errors.New("verif: dead node")
	}
	a.c.job().HandleRegisterSourceRunner(n)
	return nil
}
func (a jobAd) DeregisterSourceRunner(ctx context.Context, n *jobpb.NodeIdentity) error {
	a.c.job().HandleDeregisterSourceRunner(n)
	return nil
}
func (a jobAd) RegisterOperator(ctx context.Context, n *jobpb.NodeIdentity) error {
	if a.dead() {
		return errors.New("verif: dead node")
	}
	a.c.job().HandleRegisterOperator(n)
	return nil
}
func (a jobAd) DeregisterOperator(ctx context.Context, n *jobpb.NodeIdentity) error {
	a.c.job().HandleDeregisterOperator(n)
	return nil
}
func (a jobAd) OperatorCheckpointComplete(ctx context.Context, r *snapshotpb.OperatorCheckpoint) error {
	ack := OpAck{Tick: lib.Tick.Add(1), Operator: r.OperatorId, ID: r.CheckpointId, URI: r.DkvFileUri, Start: int(r.KeyGroupRange.GetStart()), End: int(r.KeyGroupRange.GetEnd())}
	a.c.mu.Lock()
	a.c.opAcks = append(a.c.opAcks, ack)
	hold := a.c.HoldOpAck
	onAck := a.c.OnOpAck
	a.c.mu.Unlock()
	if onAck != nil {
		onAck(ack, a.w)
	}
	if hold != nil {
		hold(ack)
	}
	if a.dead() {
		return errors.New("verif: dead node")
	}
	err := a.c.job().HandleOperatorCheckpointComplete(ctx, r)
	a.c.ackReturned(r.CheckpointId, r.OperatorId, err)
	return err
}
func (a jobAd) OnSourceRunnerCheckpointComplete(ctx context.Context, r *jobpb.SourceRunnerCheckpointCompleteRequest) error {
	pos, _ := DecodeSplitStates(r.SplitStates)
	ack := SRAck{Tick: lib.Tick.Add(1), Runner: r.SourceRunnerId, ID: r.CheckpointId, Pos: pos}
	a.c.mu.Lock()
	a.c.srAcks = append(a.c.srAcks, ack)
	hold := a.c.HoldSRAck
	a.c.mu.Unlock()
	if hold != nil {
		hold(ack)
	}
	if a.dead() {
		return errors.New("verif: dead node")
	}
	err := a.c.job().HandleSourceRunnerCheckpointComplete(ctx, r)
	a.c.ackReturned(r.CheckpointId, r.SourceRunnerId, err)
	return err
}
func (a jobAd) NotifySplitsFinished(ctx context.Context, id string, s []string) error {
	return a.c.job().HandleNotifySplitsFinished(id, s)
}

type opAd struct {
	c      *Cluster
	sender string
	node   *jobpb.NodeIdentity
}

func (a *opAd) ID() string   { return a.node.Id }
func (a *opAd) Host() string { return a.node.Host }
func (a *opAd) target() *Worker {
	a.c.mu.Lock()
	defer a.c.mu.Unlock()
	w := a.c.byOp[a.node.Id]
	if w == nil || w.Dead {
		return nil
	}
	return w
}

// enter is target for control-plane calls: the call is counted as executing inside the worker until leave.
func (a *opAd) enter() (*Worker, func()) {
	a.c.mu.Lock()
	defer a.c.mu.Unlock()
	w := a.c.byOp[a.node.Id]
	if w == nil || w.Dead {
		return nil, func() {}
	}
	w.inflight.Add(1)
	return w, w.inflight.Done
}

func (a *opAd) HandleEventBatch(ctx context.Context, b []*workerpb.Event) (err error) {
	defer a.c.rpcRecover("HandleEventBatch("+a.sender+" -> "+a.node.Id+")", &err)
	w := a.target()
	if w == nil {
		return errors.New("verif: operator unreachable")
	}
	var kinds []byte
	for _, e := range b {
		se := StreamEv{Tick: lib.Tick.Add(1), Operator: a.node.Id, Sender: a.sender}
		switch ev := e.Event.(type) {
		case *workerpb.Event_KeyedEvent:
			se.Kind = 'K'
			se.Key = ev.KeyedEvent.Key
			se.Ts = ev.KeyedEvent.Timestamp.AsTime().UnixNano()
			if pl, rec, ok := decodePayload(ev.KeyedEvent.Value); ok {
				se.ID, se.Rec = pl.ID, rec
			}
		case *workerpb.Event_Watermark:
			se.Kind = 'W'
			se.Ts = wmNanos(ev.Watermark.Timestamp.GetSeconds(), ev.Watermark.Timestamp.GetNanos())
		case *workerpb.Event_CheckpointBarrier:
			se.Kind = 'B'
			se.Barrier = ev.CheckpointBarrier.CheckpointId
		case *workerpb.Event_SourceComplete:
			se.Kind = 'C'
		}
		a.c.mu.Lock()
		a.c.stream = append(a.c.stream, se)
		a.c.mu.Unlock()
		kinds = append(kinds, se.Kind)
	}
	// The batch enters the operator the way it does in a real deployment: through the repository's own
	// client for an operator of the same process (the connect handler does the same per request). The
	// stream records the batch in order before it is handed over; per-sender order is what the oracles use.
	cl := rpc.NewOperatorEmbeddedClient(rpc.NewOperatorEmbeddedClientParams{Operator: w.Op, SenderID: a.sender, Host: a.node.Host, ID: a.node.Id})
	if err := cl.HandleEventBatch(ctx, b); err != nil {
		a.c.mu.Lock()
		a.c.edgeErrs = append(a.c.edgeErrs, fmt.Sprintf("HandleEvent(%s -> %s, %s): %v", a.sender, a.node.Id, string(kinds), err))
		a.c.mu.Unlock()
		return err
	}
	return nil
}

// wmNanos converts a proto timestamp to unix nanos, saturating (the runner's initial watermark is year 0).
func wmNanos(sec int64, nanos int32) int64 {
	const lim = int64(9_000_000_000)
	if sec < -lim {
		return -1 << 62
	}
	if sec > lim {
		return 1 << 62
	}
	return sec*1_000_000_000 + int64(nanos)
}

func (a *opAd) Deploy(ctx context.Context, r *workerpb.DeployOperatorRequest) (err error) {
	defer a.c.rpcRecover("Deploy("+a.node.Id+")", &err)
	w, leave := a.enter()
	defer leave()
	rec := DeployRec{Tick: lib.Tick.Add(1), Node: a.node.Id, Kind: "operator", DeadNode: w == nil}
	for _, m := range r.Operators {
		rec.Members = append(rec.Members, m.Id)
	}
	for _, ck := range r.Checkpoints {
		rec.Ckpts = append(rec.Ckpts, ck.CheckpointId)
	}
	defer func() {
		a.c.mu.Lock()
		a.c.deploys = append(a.c.deploys, rec)
		a.c.mu.Unlock()
	}()
	if w == nil {
		rec.Err = errors.New("verif: operator unreachable")
		return rec.Err
	}
	if a.c.FailDeploy != nil {
		if err := a.c.FailDeploy(a.node.Id); err != nil {
			rec.Err = err
			return err
		}
	}
	// which range does it get?
	for i, m := range r.Operators {
		if m.Id == a.node.Id {
			rg := partitioning.NewKeySpace(int(r.KeyGroupCount), len(r.Operators)).KeyGroupRanges()[i]
			a.c.mu.Lock()
			w.Range, w.hasRng = rg, true
			a.c.mu.Unlock()
		}
	}
	a.c.mu.Lock()
	if a.c.inRound == nil || a.c.inRound[a.node.Id] {
		a.c.round++
		a.c.inRound = map[string]bool{}
	}
	a.c.inRound[a.node.Id] = true
	rec.Round = a.c.round
	a.c.mu.Unlock()
	if a.c.OnOperatorDeploy != nil {
		a.c.OnOperatorDeploy(rec)
	}
	rec.Err = func() (e error) {
		defer a.c.rpcRecover("Deploy("+a.node.Id+")", &e) // a panic while the database is opened is a failed Deploy
		return w.Op.HandleDeploy(ctx, r, &embedded.RecordingSink{})
	}()
	return rec.Err
}

func (a *opAd) UpdateRetainedCheckpoints(ctx context.Context, ids []uint64) (err error) {
	w, leave := a.enter()
	defer leave()
	defer a.c.rpcRecover("UpdateRetainedCheckpoints("+a.node.Id+")", &err)
	if hold := a.c.HoldRetain; hold != nil {
		hold(a.node.Id, ids)
	}
	a.c.mu.Lock()
	a.c.retainLog = append(a.c.retainLog, RetainRec{Tick: lib.Tick.Add(1), Node: a.node.Id, IDs: append([]uint64{}, ids...)})
	a.c.mu.Unlock()
	if w == nil {
		return errors.New("verif: operator unreachable")
	}
	return w.Op.HandleRemoveCheckpoints(ctx, &workerpb.UpdateRetainedCheckpointsRequest{CheckpointIds: ids})
}

func (a *opAd) NeedsTable(ctx context.Context, uri string) (needs bool, err error) {
	defer a.c.rpcRecover("NeedsTable("+a.node.Id+")", &err)
	w := a.target()
	if w == nil {
		return false, errors.New("verif: operator unreachable")
	}
	return w.Op.HandleNeedsTable(uri), nil
}

// rpcRecover models the RPC server of a worker: a panic raised on the goroutine that serves a request (net/http
// recovers it, the caller gets an error) does not take the process down. Panics on the worker's own goroutines
// (event loop, background tasks) still do. Recorded as an edge error and counted.
func (c *Cluster) rpcRecover(what string, err *error) {
	if p := recover(); p != nil {
		buf := make([]byte, 3000)
		buf = buf[:runtime.Stack(buf, false)]
		c.mu.Lock()
		c.edgeErrs = append(c.edgeErrs, fmt.Sprintf("%s: request handler panicked: %v", what, p))
		c.rpcPanics = append(c.rpcPanics, fmt.Sprintf("%s: %v\n%s", what, p, buf))
		c.mu.Unlock()
		if err != nil {
			*err = fmt.Errorf("verif: request handler panicked: %v", p)
		}
	}
}

// RetainRec is one retention update as it was applied at an operator.
type RetainRec struct {
	Tick int64
	Node string
	IDs  []uint64
}

// RetainLog: the retention updates in the order in which they were applied at the operators.
func (c *Cluster) RetainLog() []RetainRec {
	c.mu.Lock()
	defer c.mu.Unlock()
	return append([]RetainRec{}, c.retainLog...)
}

// RPCPanics: request handlers of workers that panicked (each with its stack).
func (c *Cluster) RPCPanics() []string {
	c.mu.Lock()
	defer c.mu.Unlock()
	return append([]string{}, c.rpcPanics...)
}

type srAd struct {
	c    *Cluster
	node *jobpb.NodeIdentity
}

func (a *srAd) ID() string   { return a.node.Id }
func (a *srAd) Host() string { return a.node.Host }
func (a *srAd) target() *Worker {
	a.c.mu.Lock()
	defer a.c.mu.Unlock()
	w := a.c.bySR[a.node.Id]
	if w == nil || w.Dead {
		return nil
	}
	return w
}
func (a *srAd) Deploy(ctx context.Context, r *workerpb.DeploySourceRunnerRequest) (err error) {
	defer a.c.rpcRecover("Deploy("+a.node.Id+")", &err)
	w := a.target()
	rec := DeployRec{Tick: lib.Tick.Add(1), Node: a.node.Id, Kind: "runner", DeadNode: w == nil}
	for _, m := range r.Operators {
		rec.Members = append(rec.Members, m.Id)
	}
	defer func() {
		a.c.mu.Lock()
		a.c.deploys = append(a.c.deploys, rec)
		a.c.mu.Unlock()
	}()
	if w == nil {
		rec.Err = errors.New("verif: source runner unreachable")
		return rec.Err
	}
	if a.c.FailDeploy != nil {
		if err := a.c.FailDeploy(a.node.Id); err != nil {
			rec.Err = err
			return err
		}
	}
	rec.Err = w.SR.HandleDeploy(ctx, r)
	return rec.Err
}
func (a *srAd) AssignSplits(ctx context.Context, s []*workerpb.SourceSplit) (err error) {
	defer a.c.rpcRecover("AssignSplits("+a.node.Id+")", &err)
	if f := a.c.FailAssign; f != nil {
		if err := f(a.node.Id, len(s)); err != nil {
			a.c.mu.Lock()
			a.c.edgeErrs = append(a.c.edgeErrs, fmt.Sprintf("AssignSplits(%s, %d splits): %v", a.node.Id, len(s), err))
			a.c.mu.Unlock()
			return err
		}
	}
	w := a.target()
	if w == nil {
		return errors.New("verif: source runner unreachable")
	}
	return w.SR.HandleAssignSplits(s)
}
func (a *srAd) StartCheckpoint(ctx context.Context, id uint64) (err error) {
	defer a.c.rpcRecover("StartCheckpoint("+a.node.Id+")", &err)
	w := a.target()
	a.c.mu.Lock()
	a.c.startCk = append(a.c.startCk, StartCkRec{Tick: lib.Tick.Add(1), Node: a.node.Id, ID: id, Dead: w == nil})
	a.c.mu.Unlock()
	if w == nil {
		return errors.New("verif: source runner unreachable")
	}
	w.SR.HandleStartCheckpoint(ctx, id)
	return nil
}

// ---------------------------------------------------------------- the user handler seen by the workers

type keyHandler struct {
	c        *Cluster
	inner    *ophar.Handler
	w        *Worker
	keyCalls atomic.Int64
}

// KeyedRec is one KeyEventBatch call: the largest timestamp the runner had keyed by then.
type KeyedRec struct {
	Tick   int64
	Runner string
	MaxTs  int64
	N      int
}

// KeyedLog returns the KeyEventBatch log.
func (c *Cluster) KeyedLog() []KeyedRec {
	c.mu.Lock()
	defer c.mu.Unlock()
	return append([]KeyedRec{}, c.keyed...)
}

// RangeOf returns the key-group range the worker's operator was last deployed with.
func (c *Cluster) RangeOf(w *Worker) (partitioning.KeyGroupRange, bool) {
	c.mu.Lock()
	defer c.mu.Unlock()
	return w.Range, w.hasRng
}

func (h *keyHandler) ProcessEventBatch(ctx context.Context, req *handlerpb.ProcessEventBatchRequest) (*handlerpb.ProcessEventBatchResponse, error) {
	return h.inner.ProcessEventBatch(ctx, req)
}

// KeyEventBatch turns records into keyed events: normally one, sometimes zero or two.
func (h *keyHandler) KeyEventBatch(ctx context.Context, events [][]byte) ([][]*handlerpb.KeyedEvent, error) {
	if f := h.c.KeyLatency; f != nil {
		f(h.w.SR.ID, int(h.keyCalls.Add(1)))
	}
	out := make([][]*handlerpb.KeyedEvent, len(events))
	maxTs := int64(-1 << 62)
	for i, e := range events {
		rec, err := DecodeRecord(e)
		if err != nil {
			return nil, err
		}
		out[i] = h.c.KeyedEventsOf(rec)
		if len(out[i]) > 0 && rec.Ts > maxTs {
			maxTs = rec.Ts
		}
	}
	h.c.mu.Lock()
	if n := len(h.c.keyed); n > 0 && h.c.keyedMax[h.w.SR.ID] > maxTs {
		maxTs = h.c.keyedMax[h.w.SR.ID]
	}
	h.c.keyedMax[h.w.SR.ID] = maxTs
	h.c.keyed = append(h.c.keyed, KeyedRec{Tick: lib.Tick.Add(1), Runner: h.w.SR.ID, MaxTs: maxTs, N: len(events)})
	h.c.mu.Unlock()
	return out, nil
}

// KeyedEventsOf is the deterministic keying function (also used by the oracles).
func (c *Cluster) KeyedEventsOf(rec Record) []*handlerpb.KeyedEvent {
	n := 1
	if c.Cfg.Fanout != nil {
		n = c.Cfg.Fanout(rec.Split, rec.Off)
	}
	var out []*handlerpb.KeyedEvent
	for j := 0; j < n; j++ {
		key := c.KeyOf(rec.Split, rec.Off, j)
		id := fmt.Sprintf("%d/%d/%d", rec.Split, rec.Off, j)
		p := ophar.Program{
			{Op: "PUT", NS: "seen", EK: []byte(id), V: []byte("1")},
			{Op: "PUT", NS: "last", EK: []byte(fmt.Sprint(rec.Split)), V: []byte(fmt.Sprintf("%09d", rec.Off))},
		}
		if c.Cfg.ExtraProgram != nil {
			p = append(p, c.Cfg.ExtraProgram(rec, j)...)
		}
		ev := ophar.KeyedEvent(key, id, p, rec.Ts)
		// carry the record so the stream recorder can decode it without the handler
		ev.GetKeyedEvent().Value = ophar.EncodePayloadWith(id, p, string(rec.Encode()))
		out = append(out, ev.GetKeyedEvent())
	}
	return out
}

// KeyOf maps (split, offset, j) to a key of the universe.
func (c *Cluster) KeyOf(split, off, j int) []byte {
	h := lib.HashParts("key", c.Cfg.Seed, split, off, j)
	var n uint64
	fmt.Sscanf(h[:8], "%x", &n)
	return c.Cfg.Keys[int(n%uint64(len(c.Cfg.Keys)))]
}

func decodePayload(v []byte) (ophar.Payload, Record, bool) {
	pl, ok := ophar.DecodePayload(v)
	if !ok {
		return pl, Record{}, false
	}
	rec, err := DecodeRecord([]byte(pl.X))
	return pl, rec, err == nil
}
