// Package cluster wires a complete job in one process without HTTP (DESIGN §3 M5, M6): a real
// jobs.Job, W x (real sourcerunner.SourceRunner + real operator.Operator), direct adapters at every
// RPC edge (each one an observation and fault-injection point), and a harness source.
package cluster

import (
	"encoding/binary"
	"fmt"
	"sort"
	"strconv"
	"strings"
	"sync"
	"time"

	"reduction.dev/reduction-protocol/jobconfigpb"
	"reduction.dev/reduction/connectors"
	"reduction.dev/reduction/proto/snapshotpb"
	"reduction.dev/reduction/proto/workerpb"
	"verif/lib"
)

// VSource is the harness source (M6): S splits of bounded length; readers return seeded chunk
// sizes (including empty reads); Checkpoint() returns per-split next offsets; the splitter assigns
// every split to exactly one runner and restores cursors from the checkpoint. It never reports end
// of input: runs are ended by drain-by-checkpoint.
type VSource struct {
	Splits    int
	PerSplit  int
	TsMode    string // increasing | reversed | random | constant | extreme
	mu        sync.Mutex
	limit     []int // per split: records with offset < limit may be read (gate for crash points / idle pipeline)
	readers   []*VReader
	assigns   []Assignment // every AssignSplits call of every splitter incarnation
	splitGen  int
	chunk     func(reader int, call int) int // seeded chunk size per read call
	errEvery  int                            // every n-th read of a reader returns a retryable error (0 = never)
	readSizes []int
	// Late > 0 (armed): the first splitter incarnation holds the last Late splits back at Start and hands them out
	// in a second AssignSplits round when ReleaseLate is called (like child shards discovered later)
	Late     int
	lateHeld *vSplitter
}

type Assignment struct {
	Tick      int64
	Splitter  int // splitter incarnation
	Runner    string
	SplitID   string
	Cursor    int
	HasCursor bool
}

func NewVSource(splits, perSplit int, tsMode string, chunk func(reader, call int) int) *VSource {
	s := &VSource{Splits: splits, PerSplit: perSplit, TsMode: tsMode, chunk: chunk, limit: make([]int, splits)}
	for i := range s.limit {
		s.limit[i] = perSplit
	}
	return s
}

func (s *VSource) Validate() error                   { return nil }
func (s *VSource) ProtoMessage() *jobconfigpb.Source { return &jobconfigpb.Source{} }

// SetLimit gates reading: only offsets < n of every split may be read.
func (s *VSource) SetLimit(n int) {
	s.mu.Lock()
	defer s.mu.Unlock()
	for i := range s.limit {
		s.limit[i] = min(n, s.PerSplit)
	}
}

func (s *VSource) limitOf(split int) int {
	s.mu.Lock()
	defer s.mu.Unlock()
	return s.limit[split]
}

// NewSourceReader is what a source runner's reader factory calls at every deploy.
func (s *VSource) NewSourceReader(connectors.SourceReaderHooks) connectors.SourceReader {
	s.mu.Lock()
	defer s.mu.Unlock()
	r := &VReader{src: s, id: len(s.readers)}
	s.readers = append(s.readers, r)
	return r
}

func (s *VSource) NewSourceSplitter(ids []string, hooks connectors.SourceSplitterHooks, errc chan<- error) connectors.SourceSplitter {
	s.mu.Lock()
	defer s.mu.Unlock()
	s.splitGen++
	return &vSplitter{src: s, ids: append([]string{}, ids...), hooks: hooks, gen: s.splitGen}
}

// HeldLate is the number of splits currently held back for the second assignment round.
func (s *VSource) HeldLate() int {
	s.mu.Lock()
	defer s.mu.Unlock()
	if s.lateHeld == nil {
		return 0
	}
	return s.Late
}

// ReleaseLate hands the held-back splits to their runners in a second assignment round (no-op when none are held).
func (s *VSource) ReleaseLate() bool {
	s.mu.Lock()
	sp := s.lateHeld
	s.lateHeld = nil
	if sp == nil {
		s.mu.Unlock()
		return false
	}
	as := map[string][]*workerpb.SourceSplit{}
	for i := s.Splits - s.Late; i < s.Splits; i++ {
		id := fmt.Sprint(i)
		r := sp.ids[i%len(sp.ids)]
		as[r] = append(as[r], &workerpb.SourceSplit{SplitId: id})
		s.assigns = append(s.assigns, Assignment{Tick: lib.Tick.Add(1), Splitter: sp.gen, Runner: r, SplitID: id})
	}
	s.mu.Unlock()
	sp.hooks.AssignSplits(as)
	return true
}

// Assignments returns the AssignSplits log.
func (s *VSource) Assignments() []Assignment {
	s.mu.Lock()
	defer s.mu.Unlock()
	return append([]Assignment{}, s.assigns...)
}

// CaughtUp reports whether every split has been read up to its limit by a live reader.
func (s *VSource) CaughtUp(liveReaders func(*VReader) bool) bool {
	s.mu.Lock()
	rs := append([]*VReader{}, s.readers...)
	lim := append([]int{}, s.limit...)
	s.mu.Unlock()
	best := make([]int, s.Splits)
	for i := range best {
		best[i] = -1
	}
	for _, r := range rs {
		if liveReaders != nil && !liveReaders(r) {
			continue
		}
		r.mu.Lock()
		for _, sp := range r.splits {
			best[sp.id] = max(best[sp.id], sp.off)
		}
		r.mu.Unlock()
	}
	s.mu.Lock()
	held := 0
	if s.lateHeld != nil {
		held = s.Late
	}
	s.mu.Unlock()
	for i, b := range best {
		if i >= s.Splits-held {
			continue // not handed out yet
		}
		if b < lim[i] {
			return false
		}
	}
	return true
}

type vSplitter struct {
	connectors.UnimplementedSourceSplitter
	src   *VSource
	ids   []string
	hooks connectors.SourceSplitterHooks
	gen   int
}

func (s *vSplitter) IsSourceSplitter()                     {}
func (s *vSplitter) Close() error                          { return nil }
func (s *vSplitter) Checkpoint() []byte                    { return []byte(fmt.Sprintf("vsplitter-%d", s.gen)) }
func (s *vSplitter) NotifySplitsFinished(string, []string) {}
func (s *vSplitter) Start(ck *snapshotpb.SourceCheckpoint) error {
	cur := map[string]int{}
	for _, st := range ck.GetSplitStates() {
		if len(st) != 12 {
			return fmt.Errorf("vsplitter: split state of %d bytes", len(st))
		}
		id := fmt.Sprint(binary.BigEndian.Uint32(st[:4]))
		cur[id] = int(binary.BigEndian.Uint64(st[4:]))
	}
	as := map[string][]*workerpb.SourceSplit{}
	for _, id := range s.ids {
		as[id] = nil
	}
	s.src.mu.Lock()
	first := s.src.Splits
	if s.src.Late > 0 && s.src.Late < s.src.Splits && s.gen == 1 && len(cur) == 0 {
		first = s.src.Splits - s.src.Late
		s.src.lateHeld = s
	} else {
		s.src.lateHeld = nil // a later incarnation hands out everything
	}
	for i := 0; i < first; i++ {
		id := fmt.Sprint(i)
		r := s.ids[i%len(s.ids)]
		sp := &workerpb.SourceSplit{SplitId: id}
		a := Assignment{Tick: lib.Tick.Add(1), Splitter: s.gen, Runner: r, SplitID: id}
		if off, ok := cur[id]; ok {
			sp.Cursor = make([]byte, 8)
			binary.BigEndian.PutUint64(sp.Cursor, uint64(off))
			a.Cursor, a.HasCursor = off, true
		}
		as[r] = append(as[r], sp)
		s.src.assigns = append(s.src.assigns, a)
	}
	s.src.mu.Unlock()
	s.hooks.AssignSplits(as)
	return nil
}

type vsplit struct{ id, off int }

// VReader is one source reader incarnation.
type VReader struct {
	src     *VSource
	id      int
	mu      sync.Mutex
	splits  []*vsplit
	calls   int
	readIdx int   // per-reader read index (strictly increasing): orders this runner's records
	lastTs  int64 // per-reader strictly increasing timestamp in mode "increasing"
	Runner  string
	Dead    bool
}

func (r *VReader) AssignSplits(sp []*workerpb.SourceSplit) error {
	r.mu.Lock()
	defer r.mu.Unlock()
	for _, s := range sp {
		id, err := strconv.Atoi(s.SplitId)
		if err != nil {
			return err
		}
		off := 0
		if len(s.Cursor) == 8 {
			off = int(binary.BigEndian.Uint64(s.Cursor))
		}
		r.splits = append(r.splits, &vsplit{id, off})
	}
	return nil
}

func (r *VReader) Checkpoint() [][]byte {
	r.mu.Lock()
	defer r.mu.Unlock()
	var out [][]byte
	for _, s := range r.splits {
		b := make([]byte, 12)
		binary.BigEndian.PutUint32(b, uint32(s.id))
		binary.BigEndian.PutUint64(b[4:], uint64(s.off))
		out = append(out, b)
	}
	return out
}

// Record is a decoded source record.
type Record struct {
	Split, Off int
	Reader     int
	ReadIdx    int
	Ts         int64
}

func (rec Record) Encode() []byte {
	return []byte(fmt.Sprintf("%d/%d/%d/%d/%d", rec.Split, rec.Off, rec.Reader, rec.ReadIdx, rec.Ts))
}

func DecodeRecord(b []byte) (Record, error) {
	p := strings.Split(string(b), "/")
	if len(p) != 5 {
		return Record{}, fmt.Errorf("bad record %q", b)
	}
	var v [5]int64
	for i := range p {
		n, err := strconv.ParseInt(p[i], 10, 64)
		if err != nil {
			return Record{}, err
		}
		v[i] = n
	}
	return Record{Split: int(v[0]), Off: int(v[1]), Reader: int(v[2]), ReadIdx: int(v[3]), Ts: v[4]}, nil
}

func (r *VReader) ts(split, off int) int64 {
	switch r.src.TsMode {
	case "reversed":
		return int64(1_000_000-off*1000-split) * 1000
	case "constant":
		return 5_000_000
	case "random":
		h := lib.HashParts("ts", split, off)
		n, _ := strconv.ParseUint(h[:8], 16, 64)
		return int64(n%1_000_000) * 1000
	case "extreme":
		if (off+split)%2 == 0 {
			return 1 + int64(off)
		}
		return 9_000_000_000_000_000_000 + int64(off) // ~ year 2255
	default:
		r.lastTs += 1000 + int64((split*7+off*13)%5)*1000
		return r.lastTs
	}
}

// ReadSizes: the number of records every ReadEvents call of every reader returned.
func (s *VSource) ReadSizes() []int {
	s.mu.Lock()
	defer s.mu.Unlock()
	return append([]int{}, s.readSizes...)
}

func (r *VReader) ReadEvents() (out2 [][]byte, err2 error) {
	defer func() {
		if len(out2) > 0 {
			r.src.mu.Lock()
			r.src.readSizes = append(r.src.readSizes, len(out2))
			r.src.mu.Unlock()
		}
	}()
	r.mu.Lock()
	defer r.mu.Unlock()
	r.calls++
	if r.src.errEvery > 0 && r.calls%r.src.errEvery == 0 {
		return nil, connectors.NewRetryableError(fmt.Errorf("verif: injected retryable read error"))
	}
	n := r.src.chunk(r.id, r.calls)
	var out [][]byte
	// round-robin over the splits, one record each, until the chunk is full
	progress := true
	for len(out) < n && progress {
		progress = false
		for _, s := range r.splits {
			if len(out) >= n {
				break
			}
			if s.off < r.src.limitOf(s.id) {
				r.readIdx++
				rec := Record{Split: s.id, Off: s.off, Reader: r.id, ReadIdx: r.readIdx, Ts: r.ts(s.id, s.off)}
				out = append(out, rec.Encode())
				s.off++
				progress = true
			}
		}
	}
	if len(out) == 0 {
		time.Sleep(200 * time.Microsecond) // idle: nothing readable right now
	}
	return out, nil
}

// Offsets returns the reader's cursors.
func (r *VReader) Offsets() map[int]int {
	r.mu.Lock()
	defer r.mu.Unlock()
	out := map[int]int{}
	for _, s := range r.splits {
		out[s.id] = s.off
	}
	return out
}

// DecodeSplitStates decodes a runner's reported split states.
func DecodeSplitStates(states [][]byte) (map[int]int, error) {
	out := map[int]int{}
	for _, st := range states {
		if len(st) != 12 {
			return nil, fmt.Errorf("split state of %d bytes", len(st))
		}
		out[int(binary.BigEndian.Uint32(st[:4]))] = int(binary.BigEndian.Uint64(st[4:]))
	}
	return out, nil
}

func sortedKeys[V any](m map[int]V) []int {
	var ks []int
	for k := range m {
		ks = append(ks, k)
	}
	sort.Ints(ks)
	return ks
}
